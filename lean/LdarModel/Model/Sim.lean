import LdarModel.Model.Emission
import LdarModel.Model.World
import LdarModel.Model.Heap
import LdarModel.Model.Sensor
import LdarModel.Model.Crew
import LdarModel.Model.Cost
import LdarModel.Model.Queue
import LdarModel.Model.Planner
import LdarModel.Model.FollowUp
/-
The INTEGRATED simulation model: one executable function that composes the component models into
the day loop of the real simulator (core Lean only, executable).

Source modelled
  ldar_sim.py:94-117                 LdarSim.run_simulation, loop body                  -> `simDay`
  programs/program.py:204-231        Program.do_daily_program_deployment                -> `stepMethods`
  virtual_world/infrastructure.py, sites.py, equipment_groups.py, component.py, sources.py
                                     activate_emissions (cursor per source)             -> `Heap.activateSrc`
                                     get_detectable_emissions / tag_emissions           -> `Sensor.survey`, `evOfDone`
                                     update_emissions_state                             -> `Emission.update`, `emRow`
  scheduling/generic_schedule.py, stationary_schedule.py, scheduled_survey_planner.py, workplan.py
                                     get_workplan / update                              -> `Sched.requestPhase`,
                                                                                           `Sched.dayTrace`, `Sched.scheduleDay`
  scheduling/follow_up_mobile_schedule.py, follow_up_survey_planner.py
                                     follow-up queue, get_workplan, update              -> `FollowUp.planned`, `FollowUp.followUpDay`
  programs/method.py:212-310, component_level_method.py:136-219   deploy_crews          -> `Crew.deployDay`
  programs/component_level_method.py:57-93     survey_site: latest tagging survey date, tagging calls
  programs/site_level_method.py:236-280        SiteLevelMethod.update                   -> `FollowUp.dailyUpdate`
  file_processing/output_processing/program_output_manager.py:157-204  the timeseries row -> `Cost.dailyRow`, `TsRow`

Nothing of the component models is re-implemented here: this file only wires them (what one
component hands to the next) and adds thin wrappers where a component model lacks an accessor.

All randomness and the environment are explicit inputs (`Inputs`): spatial / temporal coverage rolls
per (day, method, emission), the travel time sampled for a visit per (day, method, site), the result of
the weather check per (day, method, site), the daylight minutes per day, the repair cost drawn for an
emission, the calendar date of a day index.  The repair delay sampled for an emission and its rate are
part of the scenario (`EmInfo`).  Static parameters stay outside the state.
-/
namespace LdarModel.Sim
open LdarModel

/-! ## the world -/

/-- one pre-generated emission of the scenario: where it sits and its static parameters
(`idx` = position in `World.ems` = `Heap.EmId.id` in the pending lists) -/
structure EmInfo where
  idx : Nat
  p : Emission.Params
  rate : Int                  -- true rate, common dyadic unit
  site : Nat
  eqg : Nat
  comp : Nat
  deriving Repr, Inhabited

/-- sites → equipment groups → components (`layout`), sources with their pending lists in pop order
(`srcs`, one `Heap.Src` per source in infrastructure order) and the emissions themselves -/
structure World where
  ems : List EmInfo
  srcs : List Heap.Src
  layout : Nat → List (Nat × List Nat)   -- site ↦ [(group, [component])] in infrastructure order

/-! ## the program -/

/-- what a method is in `Program._init_methods_and_schedules` / `_gen_method` -/
inductive Role
  | routine                 -- component-level method with its own routine schedule: tags
  | screen (fu : Nat)       -- site-level method with its own routine / stationary schedule, bound to
                            -- the follow-up schedule of the method at program position `fu`
  | followUp                -- component-level follow-up method (FollowUpMobileSchedule): tags
  deriving DecidableEq, Repr, Inhabited

structure MethodCfg where
  role : Role := .routine
  stationary : Bool := false
  crews : Nat := 1                    -- `Method._crews` as computed by the constructor
  cap : Nat := 1                      -- `_est_meth_daily_surveys` of its schedule
  workdayH : Int := 8                 -- `_max_work_hours`
  considerDaylight : Bool := false
  considerWeather : Bool := false
  cost : Cost.MethodCost := { perDay := 0, perSite := none, upfront := 0 }
  mdl : Int := 0
  err : Int := 0                      -- quantification shift (percent) the predictor draws
  trd : Int := 0                      -- reporting delay
  sites : List Nat := []              -- `_survey_plans` order
  S : Nat → Int := fun _ => 0         -- site.get_method_survey_time
  siteCost : Nat → Int := fun _ => 0  -- site.get_survey_cost
  P : Nat → Sched.PlannerP := fun _ => {}
  fup : FollowUp.Params := {}

/-- component-level methods issue tagging calls, site-level methods file detection records -/
def MethodCfg.tags (c : MethodCfg) : Bool :=
  match c.role with
  | .screen _ => false
  | _ => true

abbrev Program := List MethodCfg

/-! ## inputs: randomness and environment -/

structure Inputs where
  date : Nat → Sched.Date                    -- calendar date of day index n
  spatial : Nat → Nat → Nat → Bool           -- day, method, emission: the spatial roll if one is drawn
  temporal : Nat → Nat → Nat → Bool          -- day, method, emission: the temporal roll if one is drawn
  travel : Nat → Nat → Nat → Int             -- day, method, site: `_get_travel_time()` of the visit
  workable : Nat → Nat → Nat → Bool          -- day, method, site: `check_weather`
  daylightMin : Nat → Int                    -- day: daylight hours × 60
  repairCost : Nat → Int                     -- emission: `get_repair_cost()` when it is repaired

/-! ## state -/

structure EmSt where
  s : Emission.State := {}
  cov : List (Nat × Bool) := []       -- `_tech_spat_covs`
  deriving Repr, Inhabited

structure MethSt where
  sched : Sched.State := {}           -- routine / stationary schedule of the method
  scr : FollowUp.MState := {}         -- screening side of a site-level method
  sh : FollowUp.Shared := {}          -- follow-up schedule of a follow-up method
  rep : Nat → Crew.Report := fun _ => {}   -- follow-up planners' active survey reports, by site

instance : Inhabited MethSt := ⟨{}⟩

structure St where
  ems : List EmSt
  srcs : List Heap.Src
  latestTag : Nat → Int := fun _ => 0    -- `Site._latest_tagging_survey_date`
  ms : List MethSt

def init (w : World) (prog : Program) : St :=
  { ems := w.ems.map (fun _ => {}), srcs := w.srcs, ms := prog.map (fun _ => {}) }

/-! ## small wrappers -/

def lookupD {α} (tbl : List (Nat × α)) (f : Nat → α) (i : Nat) : α :=
  match tbl with
  | [] => f i
  | kv :: t => if kv.1 = i then kv.2 else lookupD t f i

/-- the identity on functions (`memoOn_eq`), evaluated into a table on the given keys so that the
closure chains of function-valued state do not grow with the number of simulated days -/
@[inline] def memoOn {α} (keys : List Nat) (f : Nat → α) : Nat → α :=
  let tbl := keys.map (fun k => (k, f k))
  lookupD tbl f

/-- the weather outcome as a value / envelope pair for `Crew.workable` -/
def wxOf (b : Bool) : Crew.Wx := { temp := if b then 0 else 1, wind := 0, precip := 0 }
def env0 : Crew.Envelope := { tempLo := 0, tempHi := 0, windLo := 0, windHi := 0, precipLo := 0, precipHi := 0 }

def methodP (c : MethodCfg) : Crew.MethodP :=
  Cost.methodP c.cost c.stationary c.considerWeather env0 (if c.tags then 3 else 1)

def nCrews (c : MethodCfg) : Nat := Cost.crewCount c.stationary c.crews

/-- `Crew.dayBudget` with the daylight given in minutes (daylight hours may be fractional) -/
def budgetMin (c : MethodCfg) (daylightMin : Int) : Int :=
  if c.considerDaylight then (if c.workdayH * 60 < daylightMin then c.workdayH * 60 else daylightMin)
  else c.workdayH * 60

def schedCfg (c : MethodCfg) : Sched.Cfg :=
  { kind := if c.stationary then .stationary else .routine, crews := c.crews, cap := c.cap,
    sites := c.sites, P := c.P }

/-- the planner's report as the crew loop sees it (the two stale minute fields are never read) -/
def toCrewRep (r : Sched.Report) : Crew.Report :=
  { surveyed := r.surveyed, today := 0, travel := 0, complete := r.complete, inProgress := r.inProgress }

def mkReq (c : MethodCfg) (inp : Inputs) (n m : Nat) (repOf : Nat → Crew.Report) (i : Nat) : Crew.Req :=
  { site := i, S := c.S i, siteCost := c.siteCost i, rep := repOf i, T := inp.travel n m i,
    wx := wxOf (inp.workable n m i) }

def outOf (dd : Crew.DaySt) (i : Nat) : Option Crew.OutRec := dd.out.find? (fun o => o.req.site = i)

/-- what the schedule reads off the report of a planned request (`GenericSchedule.update`) -/
def outcomeOf (o : Crew.OutRec) : Sched.Outcome :=
  if o.rep.complete then .completed
  else match o.step with
    | some st => if st.branch = .partial_ then .progressed st.today else .untouched
    | none => .untouched

def fuOutcomeOf (o : Crew.OutRec) : FollowUp.Outcome :=
  if o.rep.complete then .complete else if o.rep.inProgress then .inProgress else .unattended

/-- the sensor configuration of a survey of `site` by method `c` -/
def sensorCfg (w : World) (c : MethodCfg) (site : Nat) : Sensor.Cfg :=
  if c.tags then .component ((w.layout site).map (fun gc => (gc.1, gc.2.map (fun k => (k, c.err)))))
  else .site c.err

/-- an emission as a survey of method `m` on day `n` sees it, with the rolls it may draw -/
def mkX (inp : Inputs) (n m : Nat) (info : EmInfo) (e : EmSt) : Sensor.Emis × Sensor.Rolls :=
  ({ id := info.idx, site := info.site, eqg := info.eqg, comp := info.comp, rate := info.rate,
     active := decide (e.s.status = .active), emitting := Emission.isEmitting info.p e.s, cov := e.cov },
   { spatial := inp.spatial n m info.idx, temporal := inp.temporal n m info.idx })

def mkXs (w : World) (inp : Inputs) (n m : Nat) (ems : List EmSt) : List (Sensor.Emis × Sensor.Rolls) :=
  List.zipWith (mkX inp n m) w.ems ems

def setCovs (ems : List EmSt) (after : List Sensor.Emis) : List EmSt :=
  List.zipWith (fun e a => { e with cov := a.cov }) ems after

/-! ## one method on one day -/

/-- a completed survey with the report the sensor produced (`rep = Sensor.surveyOf sv`, `done_rep`) -/
structure Done where
  m : Nat
  sv : Sensor.SurveyIn
  rep : Sensor.SiteRep
  targets : List (Nat × Nat)         -- `Sensor.tagTargets rep`
  out : Crew.OutRec                  -- the crew record of the visit that completed the survey

/-- what a method did on a day (everything the timeseries row and the theorems refer to) -/
structure MethTrace where
  m : Nat
  cfg : MethodCfg
  issued : List Nat                  -- requests issued by the planners today (routine / screening)
  keys : List Nat                    -- the work plan
  reqs : List Crew.Req
  budget : Int
  dd : Crew.DaySt                    -- `Crew.deployDay (methodP cfg) budget (nCrews cfg) reqs`
  dones : List Done
  flags : Option Int                 -- TaggingFlaggingStats.sites_flagged
  tags : Option Int                  -- TaggingFlaggingStats.leaks_tagged

structure Acc where
  ms : List MethSt
  latestTag : Nat → Int
  ems : List EmSt                    -- emission states after activation; only `cov` changes here
  traces : List MethTrace := []

/-- sensor part of a completed survey: `survey_site` → `detect_emissions` -/
def surveyOne (w : World) (inp : Inputs) (n m : Nat) (c : MethodCfg)
    (acc : List EmSt × List Done) (o : Crew.OutRec) : List EmSt × List Done :=
  let site := o.req.site
  let xs := mkXs w inp n m acc.1
  let sv : Sensor.SurveyIn :=
    { cfg := sensorCfg w c site, m := m, trd := c.trd, mdl := c.mdl, site := site, xs := xs }
  let rep := Sensor.surveyOf sv
  (setCovs acc.1 (Sensor.after m site xs),
   acc.2 ++ [{ m := m, sv := sv, rep := rep, targets := Sensor.tagTargets rep, out := o }])

def completed (dd : Crew.DaySt) : List Crew.OutRec := dd.out.filter (fun o => o.rep.complete)

def surveyAll (w : World) (inp : Inputs) (n m : Nat) (c : MethodCfg) (ems : List EmSt)
    (dd : Crew.DaySt) : List EmSt × List Done :=
  (completed dd).foldl (surveyOne w inp n m c) (ems, [])

def tagCount (dones : List Done) : Int := (dones.map (fun d => (d.targets.length : Int))).sum

def deploy (c : MethodCfg) (inp : Inputs) (n : Nat) (reqs : List Crew.Req) : Crew.DaySt :=
  Crew.deployDay (methodP c) (budgetMin c (inp.daylightMin n)) (nCrews c) reqs

/-- a method with its own routine / stationary schedule: get_workplan → deploy_crews → update -/
structure OwnDay where
  issued : List Nat
  keys : List Nat
  reqs : List Crew.Req
  dd : Crew.DaySt
  sched : Sched.State

def ownScheduleDay (c : MethodCfg) (inp : Inputs) (n m : Nat) (s : Sched.State) : OwnDay :=
  let sc := schedCfg c
  let date := inp.date n
  let s1 := Sched.requestPhase sc date s
  let tr := Sched.dayTrace sc { date := date, out := fun _ => .untouched } s
  let reqs := tr.keys.map (mkReq c inp n m (fun i => toCrewRep ((s1.pl i).rep.getD {})))
  let dd := deploy c inp n reqs
  let out : Nat → Sched.Outcome := fun i =>
    match outOf dd i with
    | some o => outcomeOf o
    | none => .untouched
  let s' := Sched.scheduleDay sc { date := date, out := out } s
  { issued := tr.issued, keys := tr.keys, reqs := reqs, dd := dd,
    sched := { s' with pl := memoOn c.sites s'.pl } }

def mkTrace (m : Nat) (c : MethodCfg) (inp : Inputs) (n : Nat) (issued keys : List Nat) (reqs : List Crew.Req)
    (dd : Crew.DaySt) (dones : List Done) (flags tags : Option Int) : MethTrace :=
  { m := m, cfg := c, issued := issued, keys := keys, reqs := reqs, budget := budgetMin c (inp.daylightMin n),
    dd := dd, dones := dones, flags := flags, tags := tags }

def withTag (sh : FollowUp.Shared) (lt : Nat → Int) : FollowUp.Shared := { sh with latestTag := lt }

/-- `Program.do_daily_program_deployment`, body of the loop for the method at position `m` -/
def methodStep (w : World) (inp : Inputs) (n : Nat) (acc : Acc) (m : Nat) (c : MethodCfg) : Acc :=
  let me := acc.ms.getD m {}
  match c.role with
  | .routine =>
    let od := ownScheduleDay c inp n m me.sched
    let sv := surveyAll w inp n m c acc.ems od.dd
    -- a completed survey of a tagging method stamps the site
    let lt := sv.2.foldl (fun f d => FollowUp.setI f d.sv.site (n : Int)) acc.latestTag
    { ms := acc.ms.set m { me with sched := od.sched }, latestTag := lt, ems := sv.1,
      traces := acc.traces ++ [mkTrace m c inp n od.issued od.keys od.reqs od.dd sv.2 none (some (tagCount sv.2))] }
  | .screen fu =>
    let od := ownScheduleDay c inp n m me.sched
    let sv := surveyAll w inp n m c acc.ems od.dd
    -- `Method.deploy_crews`: the detection record of a completed survey is filed under the survey date
    let scr1 := sv.2.foldl (fun s d => FollowUp.screen { date := (n : Int), site := d.sv.site,
                                                         rate := ((d.rep.measured : Int) : Rat) } s) me.scr
    let ms1 := acc.ms.set m { me with sched := od.sched, scr := scr1 }
    -- `SiteLevelMethod.update`: release, pool, flag, follow-up queue of the bound schedule
    let fuSt := ms1.getD fu {}
    let st := FollowUp.dailyUpdate c.fup (n : Int) { m := scr1, sh := withTag fuSt.sh acc.latestTag }
    -- a request withdrawn from the follow-up queue takes its planner (and its report) with it
    let rep' : Nat → Crew.Report := fun i => if st.sh.dropped i = fuSt.sh.dropped i then fuSt.rep i else {}
    let ms2 := ms1.set fu { fuSt with sh := st.sh, rep := rep' }
    let ms3 := ms2.set m { (ms2.getD m {}) with scr := st.m }
    { ms := ms3, latestTag := acc.latestTag, ems := sv.1,
      traces := acc.traces ++ [mkTrace m c inp n od.issued od.keys od.reqs od.dd sv.2 (some (st.m.nflags : Int)) none] }
  | .followUp =>
    let capT := c.crews * c.cap
    let sh0 := withTag me.sh acc.latestTag
    let keys := (FollowUp.planned capT sh0).map (·.site)
    let reqs := keys.map (mkReq c inp n m me.rep)
    let dd := deploy c inp n reqs
    let outs : Nat → FollowUp.Outcome := fun i =>
      match outOf dd i with
      | some o => fuOutcomeOf o
      | none => .unattended
    let sh1 := FollowUp.followUpDay capT (n : Int) outs sh0
    let rep' : Nat → Crew.Report := fun i =>
      match outOf dd i with
      | some o => if o.rep.complete then {} else o.rep
      | none => me.rep i
    let sv := surveyAll w inp n m c acc.ems dd
    { ms := acc.ms.set m { me with sh := sh1, rep := memoOn keys rep' }, latestTag := sh1.latestTag, ems := sv.1,
      traces := acc.traces ++ [mkTrace m c inp n [] keys reqs dd sv.2 none (some (tagCount sv.2))] }

def stepMethods (w : World) (inp : Inputs) (n : Nat) : Nat → List MethodCfg → Acc → Acc
  | _, [], acc => acc
  | m, c :: cs, acc => stepMethods w inp n (m + 1) cs (methodStep w inp n acc m c)

/-! ## emission events of a day -/

/-- what a completed survey sends to one emission: a tagging call of its component (component level,
measured rate > 0 there) or a detection record (site level, the emission was visible and the site
rate reached the detection limit) -/
def evOfDone (info : EmInfo) (d : Done) : List Emission.Ev :=
  match d.sv.cfg with
  | .site _ => if d.rep.recorded.contains info.idx then [.detect d.m] else []
  | _ =>
    if d.sv.site = info.site ∧ d.targets.contains (info.eqg, info.comp) then
      [.tag { company := d.m, trd := d.sv.trd }]
    else []

def evsOf (info : EmInfo) (dones : List Done) : List Emission.Ev := dones.flatMap (evOfDone info)

/-! ## the timeseries row -/

structure MethCols where
  cost : Int          -- CrewDeploymentStats.deployment_cost
  upfront : Int
  flags : Option Int
  tags : Option Int
  visited : Int
  travel : Int
  survey : Int
  deriving DecidableEq, Repr, Inhabited

def colsOf (t : MethTrace) : MethCols :=
  { cost := t.dd.stats.cost, upfront := Cost.upfrontCost t.cfg.cost t.cfg.stationary t.cfg.crews,
    flags := t.flags, tags := t.tags, visited := t.dd.stats.visited, travel := t.dd.stats.travel,
    survey := t.dd.stats.survey }

structure TsRow where
  em : World.Row
  cost : Cost.Row
  tagged : Int             -- "Leaks Tagged"
  meth : List MethCols
  deriving Repr, Inhabited

/-- one emission over a day: state after activation and events (`mid`), after the update (`fin`) -/
structure EmDay where
  info : EmInfo
  mid : Emission.State
  fin : Emission.State

def ended (x : EmDay) : Bool := decide (x.mid.status = .active) && !decide (x.fin.status = .active)

/-- `update_emissions_state` + `EmisInfo` counters, as the code accumulates them -/
def emRow (newCount : Int) (xs : List EmDay) : World.Row :=
  let act (x : EmDay) : Int := World.ind (decide (x.fin.status = .active))
  let sum (f : EmDay → Int) : Int := (xs.map f).sum
  { new := newCount,
    active := sum act,
    repaired := sum (fun x => World.ind (ended x && decide (x.fin.status = .repaired) && !decide (x.fin.by_ = .natural))),
    natRepaired := sum (fun x => World.ind (ended x && decide (x.fin.status = .repaired) && decide (x.fin.by_ = .natural))),
    expired := sum (fun x => World.ind (ended x && decide (x.fin.status = .expired))),
    emis := sum (fun x => act x * x.info.rate),
    emisMit := sum (fun x => if x.info.p.repairable then act x * x.info.rate else 0),
    emisNonMit := sum (fun x => if x.info.p.repairable then 0 else act x * x.info.rate) }

/-! ## the day -/

structure DayOut where
  st : St
  row : TsRow
  traces : List MethTrace
  newIds : List Nat
  days : List EmDay

def activateEm (n : Nat) (newIds : List Nat) (info : EmInfo) (e : EmSt) : EmSt :=
  if newIds.contains info.idx then { e with s := Emission.activate info.p (n : Int) e.s } else e

def finishEm (n : Nat) (dones : List Done) (info : EmInfo) (e : EmSt) : EmDay :=
  let mid := (evsOf info dones).foldl (fun s ev => Emission.applyEv info.p (n : Int) ev s) e.s
  { info := info, mid := mid, fin := Emission.update info.p mid }

/-- `LdarSim.run_simulation`, body of the day loop, for day index `n` -/
def simDayOut (w : World) (prog : Program) (inp : Inputs) (n : Nat) (st : St) : DayOut :=
  -- activate emissions (cursor of every source)
  let r := st.srcs.map (Heap.activateSrc (n : Int))
  let newIds := (r.flatMap (·.1)).map (·.id)
  let ems1 := List.zipWith (activateEm n newIds) w.ems st.ems
  -- deploy every method of the program
  let acc := stepMethods w inp n 0 prog { ms := st.ms, latestTag := st.latestTag, ems := ems1 }
  let dones := acc.traces.flatMap (·.dones)
  -- update every emission
  let days := List.zipWith (finishEm n dones) w.ems acc.ems
  let ems2 := List.zipWith (fun (e : EmSt) (x : EmDay) => { e with s := x.fin }) acc.ems days
  let repCost := (days.map (fun x => (Cost.bookOnUpdate x.info.p (inp.repairCost x.info.idx) x.mid).1)).sum
  let natCost := (days.map (fun x => (Cost.bookOnUpdate x.info.p (inp.repairCost x.info.idx) x.mid).2)).sum
  let cols := acc.traces.map colsOf
  let crow := Cost.dailyRow (decide (n = 0)) (cols.map (fun c => { deploy := c.cost, upfront := c.upfront })) repCost natCost
  { st := { ems := ems2, srcs := r.map (·.2), latestTag := acc.latestTag, ms := acc.ms },
    row := { em := emRow (newIds.length : Nat) days, cost := crow,
             tagged := (cols.map (fun c => c.tags.getD 0)).sum, meth := cols },
    traces := acc.traces, newIds := newIds, days := days }

def simDay (w : World) (prog : Program) (inp : Inputs) (n : Nat) (st : St) : St × TsRow :=
  let o := simDayOut w prog inp n st
  (o.st, o.row)

/-- state at the start of day `n` (after `n` simulated days) -/
def simState (w : World) (prog : Program) (inp : Inputs) : Nat → St
  | 0 => init w prog
  | n + 1 => (simDay w prog inp n (simState w prog inp n)).1

def simRow (w : World) (prog : Program) (inp : Inputs) (n : Nat) : TsRow :=
  (simDay w prog inp n (simState w prog inp n)).2

/-- `N` simulated days: the final state and the timeseries -/
def simRun (w : World) (prog : Program) (inp : Inputs) (N : Nat) : St × List TsRow :=
  (simState w prog inp N, (List.range N).map (simRow w prog inp))

/-- the same, computed in one pass (what the driver executes; `runAcc_eq`) -/
def runAcc (w : World) (prog : Program) (inp : Inputs) : Nat → St × List TsRow
  | 0 => (init w prog, [])
  | n + 1 =>
    let r := runAcc w prog inp n
    let d := simDay w prog inp n r.1
    (d.1, r.2 ++ [d.2])

/-! ## final emission records (`gen_summary_emis_data` with the end argument of `ldar_sim.py:122`) -/

structure Rec where
  idx : Nat
  present : Bool
  status : Emission.Status
  activeDays : Int
  emitDays : Int
  start : Int
  endDate : Option Int
  theoryEnd : Int
  mitDays : Int
  tagged : Bool
  by_ : Emission.By
  initDetect : Option Int
  initDetectBy : Option Nat
  cov : List (Nat × Bool)
  deriving Repr, Inhabited

def recOf (N : Nat) (info : EmInfo) (e : EmSt) : Rec :=
  { idx := info.idx, present := decide (e.s.status ≠ .inactive), status := e.s.status,
    activeDays := e.s.activeDays, emitDays := Emission.emitDays info.p e.s, start := info.p.start,
    endDate := e.s.endDate, theoryEnd := info.p.start + info.p.nrd,
    mitDays := Emission.mitDays info.p e.s (Emission.summaryEndArg N), tagged := e.s.tagged, by_ := e.s.by_,
    initDetect := e.s.initDetect, initDetectBy := e.s.initDetectBy, cov := e.cov }

def records (w : World) (N : Nat) (st : St) : List Rec := List.zipWith (recOf N) w.ems st.ems

end LdarModel.Sim
