-- root of the library: every property file (built by `lake build`)
import LdarModel.Props.C02
