-- root of the library: every property file of a claimed check (built by `lake build`)
import LdarModel.Props.C01
import LdarModel.Props.C02
import LdarModel.Props.C03
import LdarModel.Props.C04
import LdarModel.Props.C05
import LdarModel.Props.C06
import LdarModel.Props.C07
import LdarModel.Props.C08
import LdarModel.Props.C09
import LdarModel.Props.C10
import LdarModel.Props.C11
import LdarModel.Props.C12
import LdarModel.Props.C13
import LdarModel.Props.C14
import LdarModel.Props.C15
import LdarModel.Props.C16
import LdarModel.Props.C17
