#!/usr/bin/env python3
"""keep a confirmed seeded change: tools/keep_seed.py <Cnn> <k> "<needs>" "<caught-by summary>" """
import json, os, shutil, sys
c, k, needs, caught = sys.argv[1:5]
rnd = int(sys.argv[5]) if len(sys.argv) > 5 else 1
src = f"/tmp/seed{'' if rnd == 1 else rnd}/{c}_out/{k}"
idx = int(k) + 2 * (rnd - 1) if rnd <= 3 else 6 + (rnd - 3)   # rounds 4, 5, ...: one change each
dst = f"/verif/seeded/{c}-{idx}"
os.makedirs(dst, exist_ok=True)
for f in ("patch.diff", "demo.py", "notes.md"):
    if os.path.exists(os.path.join(src, f)):
        shutil.copy(os.path.join(src, f), dst)
json.dump({"property": c, "round": rnd, "needs_to_manifest": needs,
           "confirmed": "tools/seedcheck.py: demo exits 0 on the unchanged copy and 1 with the patch; pinned suite still 139 passed with the patch",
           "checks_run": caught}, open(os.path.join(dst, "meta.json"), "w"), indent=1)
print("kept", dst)
