#!/usr/bin/env python3
"""Evaluate a seeded change without touching /repo: copy /repo (HEAD working tree) to a scratch
directory, apply the patch there, run the demonstration (must fail with, pass without) and the
registered checks with LDAR_REPO pointing at the copy.

usage: tools/seedcheck.py <patch.diff> <demo.py|-> <Cnn> [<Cnn> ...] [--tier quick|thorough]
"""
import os, shutil, subprocess, sys, tempfile

VERIF = os.path.dirname(os.path.dirname(os.path.abspath(__file__)))


def sh(cmd, **kw):
    p = subprocess.run(cmd, stdout=subprocess.PIPE, stderr=subprocess.STDOUT, text=True, **kw)
    return p.returncode, p.stdout


def main():
    args = sys.argv[1:]
    tier = "quick"
    if "--tier" in args:
        i = args.index("--tier"); tier = args[i + 1]; del args[i:i + 2]
    patch, demo, props = os.path.abspath(args[0]), args[1], args[2:]
    root = tempfile.mkdtemp(prefix="seedchk_")
    try:
        shutil.copytree("/repo/LDAR_Sim", os.path.join(root, "LDAR_Sim"))
        for extra in ("pytest.ini",):
            if os.path.exists(os.path.join("/repo", extra)):
                shutil.copy(os.path.join("/repo", extra), root)
        if demo != "-":
            rc0, out0 = sh(["/venv/bin/python", os.path.abspath(demo), root], timeout=1800)
            print(f"demo on unchanged copy: exit {rc0}")
        rc, out = sh(["git", "apply", "--unsafe-paths", "--directory", root, patch], cwd="/")
        if rc != 0:
            rc, out = sh(["patch", "-p1", "-i", patch], cwd=root)
        print("apply:", "ok" if rc == 0 else "FAILED\n" + out)
        if rc != 0:
            return 2
        if demo != "-":
            rc1, out1 = sh(["/venv/bin/python", os.path.abspath(demo), root], timeout=1800)
            print(f"demo on changed copy: exit {rc1}\n" + "\n".join(out1.strip().splitlines()[-6:]))
        rct, outt = sh(["/venv/bin/python", "-m", "pytest", "-q", "-p", "no:cacheprovider", "--timeout=900",
                        "--continue-on-collection-errors"], cwd=root, timeout=3000)
        print("pinned tests on changed copy:", outt.strip().splitlines()[-1])
        env = dict(os.environ, LDAR_REPO=root)
        for p in props:
            rc, out = sh([os.path.join(VERIF, "check"), p, "--tier", tier], env=env, timeout=7200)
            lines = [l for l in out.splitlines() if l.startswith(("VIOLATION", "KNOWN-FINDING", "[" + p))]
            print(f"--- {p}: exit {rc}")
            for l in lines:
                print("   ", l[:300])
    finally:
        shutil.rmtree(root, ignore_errors=True)
        # generated tables must describe /repo again
        sh([os.path.join(VERIF, "tools", "regen.sh")])
    return 0


if __name__ == "__main__":
    sys.exit(main())
