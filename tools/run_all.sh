#!/bin/bash
# run every claimed check (ready.txt) in the given tier, a few at a time; prints one line per check
cd "$(dirname "$0")/.."
tier=${1:-quick}
jobs=${2:-4}
mkdir -p /tmp/runall
cat ready.txt | xargs -P "$jobs" -I{} sh -c "./check {} --tier $tier > /tmp/runall/{}.log 2>&1; echo \"{} exit \$? \$(grep -c '^VIOLATION' /tmp/runall/{}.log) violations, \$(grep -c '^KNOWN-FINDING' /tmp/runall/{}.log) known; \$(tail -1 /tmp/runall/{}.log | sed 's/.*wall=/wall=/')\""
