#!/venv/bin/python
"""tools/param_coverage.py [n]: which leaves of LDAR-Sim's parameter space do the whole-run generators vary?

Enumerates every leaf of the default parameter files (src/default_parameters/*.yml), generates n base
configurations with harness/wholerun.make_config (+ the named shapes used by the checks), materializes
them and reads the written parameter files back; prints, per leaf, the distinct values seen and marks
leaves that are never written (default used) or never varied."""
import os, random, shutil, sys, tempfile, collections
sys.path.insert(0, os.path.dirname(os.path.dirname(os.path.abspath(__file__))))
import yaml
from harness import shim, wholerun as W

DEF = os.path.join(shim.REPO_SRC, "default_parameters")
LEVELS = {"virtual_world_default.yml": "virtual_world", "simulation_settings_default.yml": "simulation_settings",
          "p_default.yml": "programs", "m_default_mobile.yml": "methods(mobile)",
          "m_default_stationary.yml": "methods(stationary)", "outputs_default.yml": "outputs"}


def leaves(d, pre=()):
    if isinstance(d, dict) and d:
        for k, v in d.items():
            yield from leaves(v, pre + (str(k),))
    else:
        yield pre, d


def main():
    n = int(sys.argv[1]) if len(sys.argv) > 1 else 60
    defaults = {}
    for f, lvl in LEVELS.items():
        d = yaml.safe_load(open(os.path.join(DEF, f)))
        for path, v in leaves(d):
            defaults[(lvl,) + path] = v
    seen = collections.defaultdict(set)
    root = tempfile.mkdtemp(prefix="pcov_")
    try:
        for i in range(n):
            rng = random.Random(1000 + i)
            cfg = W.make_config(rng)
            files, _, _ = W.materialize(cfg, os.path.join(root, str(i)))
            for f in files:
                d = yaml.safe_load(open(f))
                lvl = d.get("parameter_level")
                if lvl == "methods":
                    lvl = "methods(%s)" % d.get("deployment_type")
                for path, v in leaves(d):
                    seen[(lvl,) + path].add(repr(v))
    finally:
        shutil.rmtree(root, ignore_errors=True)
    never, fixed, varied = [], [], []
    for k, dv in sorted(defaults.items()):
        if k[1] in ("parameter_level", "version"):
            continue
        vals = seen.get(k)
        if not vals:
            never.append((k, dv))
        elif len(vals) == 1:
            fixed.append((k, dv, vals))
        else:
            varied.append((k, vals))
    print("## leaves the generated configurations vary (%d)" % len(varied))
    for k, vals in varied:
        print("  %-70s %s" % ("/".join(k), sorted(vals)[:8]))
    print("## leaves always written with ONE value (%d)" % len(fixed))
    for k, dv, vals in fixed:
        print("  %-70s %s (default %r)" % ("/".join(k), list(vals)[0], dv))
    print("## leaves never written: the default is always in effect (%d)" % len(never))
    for k, dv in never:
        print("  %-70s default %r" % ("/".join(k), dv))


if __name__ == "__main__":
    main()
