#!/usr/bin/env python3
"""tools/eval_seeds.py <round-dir> <Cnn> [extra check ids...]: run tools/seedcheck.py for seeds 1 and 2 of
<round-dir>/<Cnn>_out and print a verdict line each (CAUGHT-with-input / BROKEN-only / MISSED)."""
import os, re, subprocess, sys
rd, c = sys.argv[1], sys.argv[2]
extra = sys.argv[3:]
for k in (1, 2):
    d = f"{rd}/{c}_out/{k}"
    if not os.path.exists(f"{d}/patch.diff"):
        print(f"{c} seed {k}: no patch"); continue
    demo = f"{d}/demo.py" if os.path.exists(f"{d}/demo.py") else "-"
    p = subprocess.run(["/verif/tools/seedcheck.py", f"{d}/patch.diff", demo, c] + extra, stdout=subprocess.PIPE,
                       stderr=subprocess.STDOUT, text=True)
    out = p.stdout
    demo0 = re.search(r"demo on unchanged copy: exit (\d+)", out)
    demo1 = re.search(r"demo on changed copy: exit (\d+)", out)
    tests = re.search(r"pinned tests on changed copy: (.*)", out)
    verdicts = []
    for chk in [c] + extra:
        m = re.search(rf"--- {chk}: exit (\d+)(.*?)(?=--- |\Z)", out, flags=re.S)
        if not m:
            verdicts.append(f"{chk}=?"); continue
        body = m.group(2)
        viol = [l for l in body.splitlines() if "VIOLATION" in l]
        with_input = [l for l in viol if "no-failing-input-found" not in l]
        v = "CAUGHT-with-input" if with_input else ("BROKEN-only" if viol else "MISSED")
        verdicts.append(f"{chk}={v}({len(with_input)})")
    print(f"{c} seed {k}: demo {demo0.group(1) if demo0 else '?'}->{demo1.group(1) if demo1 else '?'}; "
          f"tests [{tests.group(1) if tests else '?'}]; " + " ".join(verdicts))
