#!/usr/bin/env python3
"""prints a markdown summary of every recorded finding and every fix (from known_findings.json)"""
import glob, json, os, re, subprocess
V = os.path.dirname(os.path.dirname(os.path.abspath(__file__)))
files = [os.path.join(V, "known_findings.json")] + sorted(glob.glob(os.path.join(V, "findings.d", "*.json")))
findings, fixed = [], []
for p in files:
    d = json.load(open(p))
    findings += d.get("findings", [])
    fixed += d.get("fixed", [])
log = subprocess.run(["git", "-C", "/repo", "log", "--format=%h %s"], stdout=subprocess.PIPE, text=True).stdout.splitlines()
subj = {l.split()[0]: l.split(" ", 1)[1] for l in log if " fix:" in " " + l}
print("| property | commit | what failed on the unchanged tree |\n|---|---|---|")
seen = set()
for f in sorted(fixed):
    m = re.match(r"fixed: property=(\S+) (\S+) (.*)", f)
    if not m:
        continue
    print(f"| {m.group(1)} | `{m.group(2)}` | {m.group(3)[:260]} |")
    seen.add(m.group(2)[:7])
missing = [h for h in subj if h[:7] not in seen]
if missing:
    print("\nfix commits without a `fixed:` line:", ", ".join(f"{h} ({subj[h][:60]})" for h in missing))
print("\n| id | property | signature | what |\n|---|---|---|---|")
for f in sorted(findings, key=lambda x: (x["property"], x["id"])):
    print(f"| {f['id']} | {f['property']} | `{f['signature']}` | {f['what'][:300]} |")
print(f"\n{len(fixed)} fixed lines, {len(findings)} recorded findings, {len(subj)} fix: commits in /repo")
