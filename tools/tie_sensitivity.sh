#!/bin/bash
# tools/tie_sensitivity.sh <patch>...: for each patch, apply it to a scratch copy of /repo/LDAR_Sim, run the
# layer-3 translators on the copy and build Props/EmissionTie + Props/CrewTie; prints untranslated methods and
# the tie theorems that fail.  Restores the generated files for /repo at the end.
cd "$(dirname "$0")/.."
V=$(pwd)
names_of() {  # file, line numbers...
  f=$1; shift; out=""
  for ln in "$@"; do out="$out $(awk -v L=$ln 'NR<=L && /^theorem /{n=$2} END{print n}' $f)"; done
  echo $out | tr ' ' '\n' | sort -u | tr '\n' ' '
}
for p in "$@"; do
  p=$(realpath "$p")
  d=$(mktemp -d /tmp/tie_XXXX)
  mkdir -p $d/repo && cp -r /repo/LDAR_Sim $d/repo/
  (cd / && git apply --unsafe-paths --directory $d/repo "$p" 2>/dev/null) || (cd $d/repo && patch -s -p1 < "$p")
  msg=""
  for t in emission crew planner followup estimate; do
    LDAR_REPO=$d/repo /venv/bin/python -m harness.extract.${t}_src > $d/$t.json 2>$d/$t.err
    unt=$(/venv/bin/python -c "import json,sys; d=json.load(open('$d/$t.json')); print(','.join(d['untranslated']) or '-')" 2>/dev/null || echo "translator-failed")
    case $t in emission) T=EmissionTie;; crew) T=CrewTie;; planner) T=PlannerTie;; followup) T=FollowUpTie;; estimate) T=EstimateTie;; esac
    [ $t = emission ] && extra="LdarModel.Props.EmissionRecord" || extra=""
    fails=$(cd lean && lake build LdarModel.Props.$T 2>&1 | grep -E '^error: LdarModel' | sed "s/.*$T.lean:\([0-9]*\):.*/\1/" | sort -un | tr '\n' ' ')
    rec=""
    if [ -n "$extra" ]; then
      rf=$(cd lean && lake build $extra 2>&1 | grep -E '^error: LdarModel/Props/EmissionRecord' | sed "s/.*EmissionRecord.lean:\([0-9]*\):.*/\1/" | sort -un | tr '\n' ' ')
      rec=" record=[$(names_of lean/LdarModel/Props/EmissionRecord.lean $rf)]"
    fi
    msg="$msg | $t: untranslated=$unt failing=[$(names_of lean/LdarModel/Props/$T.lean $fails)]$rec"
  done
  echo "$(echo $p | sed 's|.*/\(seeded\|seed3\)/||'): $msg"
  rm -rf $d
done
for t in emission crew planner followup estimate; do /venv/bin/python -m harness.extract.${t}_src >/dev/null 2>&1; done
(cd lean && lake build LdarModel.Props.EmissionTie LdarModel.Props.CrewTie LdarModel.Props.PlannerTie LdarModel.Props.FollowUpTie LdarModel.Props.EstimateTie >/dev/null 2>&1) && echo "restored: ties build on /repo"
