#!/bin/bash
# regenerate every Generated/*.lean table from /repo (used after running checks against a scratch copy)
cd "$(dirname "$0")/.."
unset LDAR_REPO
/venv/bin/python - <<'PY'
import sys, importlib, pkgutil
sys.path.insert(0, '.')
import harness.extract as ex
for m in pkgutil.iter_modules(ex.__path__):
    mod = importlib.import_module('harness.extract.' + m.name)
    if hasattr(mod, 'extract') and hasattr(mod, 'write'):
        try:
            mod.write(mod.extract())
        except Exception as e:
            print('regen', m.name, 'failed:', e)
PY
