#!/usr/bin/env python3
"""Regenerates MANIFEST.json from harness/props/*.py metadata (MANIFEST_ENTRY dicts) so the file is
always schema-valid and lists exactly the checks that exist.  Run: python3 tools_manifest.py"""
import importlib.util, json, os, re, sys

VERIF = os.path.dirname(os.path.abspath(__file__))
ALL = [f"C{i:02d}" for i in range(1, 20)]

def entry_of(path):
    src = open(path).read()
    m = re.search(r"^MANIFEST_ENTRY\s*=\s*(\{.*?^\})", src, flags=re.S | re.M)
    if not m:
        return None
    return eval(m.group(1), {})

# only properties the integrator has accepted (one id per line in ready.txt) are claimed
READY = set(open(os.path.join(VERIF, "ready.txt")).read().split())
checks, missing = [], []
for pid in ALL:
    if pid not in READY:
        missing.append(pid)
        continue
    path = os.path.join(VERIF, "harness", "props", pid.lower() + ".py")
    e = entry_of(path) if os.path.exists(path) else None
    if e is None:
        missing.append(pid)
        continue
    checks.append({
        "property_id": pid,
        "quick_cmd": f"./check {pid} --tier quick",
        "thorough_cmd": f"./check {pid} --tier thorough",
        "evidence_file": f"evidence/{pid}.json",
        "replay_cmd_template": f"./check {pid} --replay {{path}}",
        "engine": "lean4-proof+correspondence",
        "level_claimed": {"category": "proof", "text": e["text"], "design_ref": e["design_ref"]},
        "level_note": e["note"],
        "technique": e["technique"],
    })
na_path = os.path.join(VERIF, "not_applicable.json")
na = json.load(open(na_path)) if os.path.exists(na_path) else {}
not_app = [{"property_id": p, "reason": na.get(p, "check not built yet in this round (model and proofs under construction); no claim is made")} for p in missing]
man = {
    "version": 1,
    "setup_cmd": "./setup.sh",
    "hooks": {
        "guard": "LDAR_SIM_VERIF",
        "enable": "no source hooks: the harness imports /repo/LDAR_Sim/src in-process with harness-side shims (numpy.NaN alias, stub netCDF4/ephem) and observes through wrappers installed at run time",
        "baseline_off_cmd": "cd /repo && /venv/bin/python -m pytest -ra -q -p no:cacheprovider --timeout=900 --continue-on-collection-errors",
        "source_commits": [],
        "add_only": True,
    },
    "engines": [{
        "name": "lean4-proof+correspondence",
        "path": "lean/ (models, theorems, drivers) + harness/ (correspondence, oracles)",
        "serves_properties": [c["property_id"] for c in checks],
        "kind_free_text": "Lean 4 theorems over hand-written executable models; models tied to /repo on every run by differential correspondence (real classes in-process vs compiled model drivers) and by tables/expressions extracted from the source; direct oracles on implementation outputs search for failing inputs",
    }, {
        "name": "sim-integrated",
        "path": "lean/LdarModel/Model/Sim.lean, lean/LdarModel/Props/Sim.lean, harness/props/sim.py (run: ./check SIM [--tier thorough])",
        "serves_properties": ["C01", "C02", "C03", "C04", "C05", "C06", "C07", "C08", "C10", "C11"],
        "kind_free_text": "integrated executable Lean model of the whole day loop (composition of the component models) validated column by column against whole real runs with all random draws recorded; composition theorems lift the component theorems (C02/C03/C04 life-cycle, C11 ledger, C10 cost identity, C08 budget, C05 zero coverage, C06/C07 schedule) to the integrated model; an engine-level extra, not one of the 19 claimed checks",
    }, {
        "name": "py2lean-layer3",
        "path": "harness/extract/py2lean.py + emission_src.py, crew_src.py, planner_src.py, followup_src.py -> lean/LdarModel/Generated/*Src.lean; lean/LdarModel/Props/EmissionTie.lean, EmissionOnSource.lean, CrewTie.lean, PlannerTie.lean, FollowUpTie.lean; harness/props/_tie.py",
        "serves_properties": ["C01", "C02", "C03", "C04", "C06", "C07", "C08", "C09", "C10", "C11"],
        "kind_free_text": "translator from a subset of Python methods to pure Lean functions, run against /repo's current source on every check run; tie theorems prove that each translated method (emission life-cycle methods of the four emission classes, Method.survey_site, the planners' queue_site_for_survey / add_to_surveys_done, SiteLevelMethod.update_mobile) is the corresponding function of the hand-written model for all inputs, that iterating the translated emission methods is the model's run, and restate C02/C03/C04 on the translated code; a method outside the subset is a note (tie = correspondence only), a tie theorem that no longer compiles is a broken obligation",
    }],
    "checks": checks,
    "notes": "fix: commits in /repo and recorded findings are listed in known_findings.json; DESIGN.md section 6.",
    "not_applicable": not_app,
}
json.dump(man, open(os.path.join(VERIF, "MANIFEST.json"), "w"), indent=1)
print("checks:", [c["property_id"] for c in checks], "not claimed:", missing)
