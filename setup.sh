#!/bin/bash
# Build the whole Lean side offline: models, lemmas, property theorems of every claimed check, the layer-3
# ties and every driver executable.  Every check rebuilds its own targets again (no-op when up to date) and
# reports a target that does not build as a broken obligation of its own property, so a module that fails
# here (e.g. a table obligation over Generated/*.lean that the current /repo no longer meets) must not
# stop the others from being built: only a missing toolchain makes this script fail.
here="$(cd "$(dirname "$0")" && pwd)"
command -v lake >/dev/null 2>&1 || { echo "setup: lake not found"; exit 1; }
# tables and translated sources extracted from /repo first, so that the build starts from the current source
"$here/tools/regen.sh" || true
cd "$here/lean" || exit 1
if ! lake build LdarModel >/dev/null 2>&1; then
  echo "setup: the library did not build as a whole; building module by module (the owning checks will report what fails)"
  for f in LdarModel/Props/*.lean; do
    m="LdarModel.Props.$(basename "$f" .lean)"
    lake build "$m" >/dev/null 2>&1 || echo "setup: $m did not build"
  done
fi
# layer-3 ties: generated from the source; a failure is reported by the checks that use them
for m in EmissionTie EmissionOnSource EmissionRecord CrewTie PlannerTie FollowUpTie EstimateTie; do
  lake build "LdarModel.Props.$m" >/dev/null 2>&1 || echo "setup: LdarModel.Props.$m did not build (the checks that use it will report it)"
done
exes=$(grep -E '^name = "drv_' lakefile.toml | sed 's/name = "\(.*\)"/\1/')
for e in $exes; do
  lake build "$e" >/dev/null 2>&1 || echo "setup: driver $e did not build (its check will report it)"
done
echo "setup ok"
