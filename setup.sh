#!/bin/bash
# Build the whole Lean side (models, lemmas, property theorems, every driver executable) offline.
set -e
cd "$(dirname "$0")/lean"
lake build LdarModel
exes=$(grep -E '^name = "drv_' lakefile.toml | sed 's/name = "\(.*\)"/\1/')
lake build $exes
echo "setup ok"
