#!/bin/bash
# Build the whole Lean side offline: models, lemmas, property theorems of every claimed check
# (LdarModel.lean imports them) and every driver executable.  Each check rebuilds its own targets
# again (no-op when up to date), so a driver that fails to build here only fails its own check.
here="$(cd "$(dirname "$0")" && pwd)"
# tables extracted from /repo first, so that the build starts from the current source
"$here/tools/regen.sh" || true
cd "$here/lean" || exit 1
lake build LdarModel || { echo "setup: library build failed"; exit 1; }
# layer-3 tie of the emission classes: generated from the source; a failure is reported by C02-C04/C11
lake build LdarModel.Props.EmissionTie LdarModel.Props.EmissionOnSource >/dev/null 2>&1 || echo "setup: emission tie did not build (C01-C04/C10/C11 will report it)"
lake build LdarModel.Props.CrewTie >/dev/null 2>&1 || echo "setup: crew tie did not build (C07/C08/C10 will report it)"
lake build LdarModel.Props.PlannerTie >/dev/null 2>&1 || echo "setup: planner tie did not build (C06 will report it)"
lake build LdarModel.Props.FollowUpTie >/dev/null 2>&1 || echo "setup: follow-up tie did not build (C09 will report it)"
exes=$(grep -E '^name = "drv_' lakefile.toml | sed 's/name = "\(.*\)"/\1/')
for e in $exes; do
  lake build "$e" >/dev/null 2>&1 || echo "setup: driver $e did not build (its check will report it)"
done
echo "setup ok"
