"""Shared machinery of every check: Lean build + audit, driver pipes, evidence, findings, verdict.

Flow of one check (DESIGN.md 2.3):
  1. (optional) extractor regenerates lean/LdarModel/Generated/*.lean from /repo
  2. lake build of the property's theorem file and drivers; forbidden-token + axiom audit
  3. the property module drives the real code and the Lean model on the same inputs (correspondence)
     and evaluates the direct oracle of the property on the implementation outputs
  4. verdict: oracle violations are matched against known_findings.json; anything unlisted is a
     VIOLATION with the failing input as replay; a broken build / audit / correspondence without a
     failing input is reported as VIOLATION ... no-failing-input-found
  5. evidence/<id>.json
Exit codes: 0 held (only known findings), 1 violation, 2 infrastructure error.
"""
from __future__ import annotations

import json
import os
import random
import re
import subprocess
import sys
import time
import traceback

VERIF = os.path.dirname(os.path.dirname(os.path.abspath(__file__)))
LEAN_DIR = os.path.join(VERIF, "lean")
BIN_DIR = os.path.join(LEAN_DIR, ".lake", "build", "bin")
EVID_DIR = os.path.join(VERIF, "evidence")
REPLAY_DIR = os.path.join(VERIF, "replays")
FINDINGS = os.path.join(VERIF, "known_findings.json")

ALLOWED_AXIOMS = {"propext", "Classical.choice", "Quot.sound"}
FORBIDDEN = [
    r"\bsorry\b",
    r"\badmit\b",
    r"^\s*axiom\s",
    r"\bnative_decide\b",
    r"\bbv_decide\b",
    r"\bimplemented_by\b",
    r"\bunsafe\s",
    r"maxHeartbeats\s+0\b",
    r"\bextern\b",
]

TRUSTED_BASE = [
    "Lean 4.33 kernel; axioms propext, Classical.choice, Quot.sound only (audited by #print axioms)",
    "hand-written Lean models tied to /repo by differential correspondence (sampled/exhaustive on stated domains)",
    "harness adapters, generators, canonicalisation (Python, /verif/harness)",
    "harness shims: numpy.NaN alias, stub netCDF4 (synthetic weather), stub ephem (synthetic daylight)",
    "installed numpy/pandas/scipy as reference semantics of library calls",
]


class InfraError(Exception):
    pass


# --------------------------------------------------------------------------------------------
# Lean side
# --------------------------------------------------------------------------------------------
def _run(cmd, cwd=None, timeout=3600, input=None):
    p = subprocess.run(
        cmd, cwd=cwd, stdout=subprocess.PIPE, stderr=subprocess.STDOUT, text=True, timeout=timeout,
        input=input,
    )
    return p.returncode, p.stdout


def lake_build(targets):
    """returns (ok, log). A failing build is *not* an infra error: it is a broken obligation."""
    rc, out = _run(["lake", "build"] + list(targets), cwd=LEAN_DIR, timeout=3000)
    if rc != 0:
        # a second check building in the same lake workspace at the same moment can make a build fail for
        # reasons that have nothing to do with the sources (files replaced under the build): try once more
        time.sleep(5)
        rc2, out2 = _run(["lake", "build"] + list(targets), cwd=LEAN_DIR, timeout=3000)
        if rc2 == 0:
            return True, out2
        return False, out2
    return rc == 0, out


def strip_comments(src: str) -> str:
    # remove /- ... -/ (nested) and -- ... comments
    out = []
    i, n, depth = 0, len(src), 0
    while i < n:
        if src.startswith("/-", i):
            depth += 1
            i += 2
            continue
        if depth > 0 and src.startswith("-/", i):
            depth -= 1
            i += 2
            continue
        if depth > 0:
            if src[i] == "\n":
                out.append("\n")
            i += 1
            continue
        if src.startswith("--", i):
            while i < n and src[i] != "\n":
                i += 1
            continue
        out.append(src[i])
        i += 1
    return "".join(out)


def forbidden_hits():
    hits = []
    for root, _, files in os.walk(os.path.join(LEAN_DIR, "LdarModel")):
        for f in files:
            if not f.endswith(".lean"):
                continue
            path = os.path.join(root, f)
            body = strip_comments(open(path).read())
            for ln, line in enumerate(body.splitlines(), 1):
                for pat in FORBIDDEN:
                    if re.search(pat, line):
                        hits.append(f"{os.path.relpath(path, LEAN_DIR)}:{ln}: {line.strip()}")
    return hits


def theorem_names(rel_file):
    """theorem names declared in a Props file (fully qualified using its namespace lines)"""
    path = os.path.join(LEAN_DIR, rel_file)
    body = strip_comments(open(path).read())
    ns = []
    names = []
    for line in body.splitlines():
        m = re.match(r"\s*namespace\s+(\S+)", line)
        if m:
            ns.append(m.group(1))
            continue
        m = re.match(r"\s*end\s+(\S+)\s*$", line)
        if m and ns and ns[-1] == m.group(1):
            ns.pop()
            continue
        if re.match(r"\s*(?:@\[[^\]]*\]\s*)?private\s+theorem\s", line):
            continue  # private helper lemmas cannot be named from outside; covered via their users
        m = re.match(r"\s*(?:@\[[^\]]*\]\s*)?(?:protected\s+)?theorem\s+(\S+)", line)
        if m:
            names.append(".".join(ns + [m.group(1)]))
    return names


def axiom_audit(module, names):
    """#print axioms for every name; returns dict name -> list of axioms or None if it failed"""
    if not names:
        return {}, ""
    src = f"import {module}\n" + "\n".join(f"#print axioms {n}" for n in names) + "\n"
    tmp = os.path.join(LEAN_DIR, f".audit_{module.replace('.', '_')}_{os.getpid()}.lean")
    with open(tmp, "w") as fh:
        fh.write(src)
    try:
        rc, out = _run(["lake", "env", "lean", tmp], cwd=LEAN_DIR, timeout=1800)
    finally:
        os.remove(tmp)
    res = {n: None for n in names}
    # output:  'X' depends on axioms: [a, b]   /  'X' does not depend on any axioms
    for m in re.finditer(r"'([^']+)' depends on axioms: \[([^\]]*)\]", out, flags=re.S):
        res[m.group(1)] = [a.strip() for a in m.group(2).replace("\n", " ").split(",") if a.strip()]
    for m in re.finditer(r"'([^']+)' does not depend on any axioms", out):
        res[m.group(1)] = []
    return res, out


class LeanDriver:
    """pipe a batch of protocol lines through a compiled driver; returns the reply lines"""

    def __init__(self, exe):
        self.exe = os.path.join(BIN_DIR, exe)

    def available(self):
        return os.path.exists(self.exe)

    def _wait_for_exe(self):
        """another check running in parallel may be relinking the same executable: wait for it, then rebuild"""
        for attempt in range(4):
            if self.available():
                return True
            time.sleep(2 + 3 * attempt)
            if not self.available() and attempt >= 1:
                lake_build([os.path.basename(self.exe)])
        return self.available()

    def run(self, lines):
        if not lines:
            return []
        if not self._wait_for_exe():
            raise InfraError(f"driver {self.exe} missing")
        data = "\n".join(lines) + "\n"
        p = None
        for attempt in range(3):
            try:
                p = subprocess.run([self.exe], input=data, stdout=subprocess.PIPE, stderr=subprocess.PIPE,
                                   text=True, timeout=3000)
                break
            except (FileNotFoundError, PermissionError, OSError):
                # the file vanished / is being rewritten between the check and the exec (parallel relink)
                time.sleep(3 + 3 * attempt)
                self._wait_for_exe()
        if p is None:
            raise InfraError(f"driver {self.exe} could not be started")
        if p.returncode != 0:
            raise InfraError(f"driver {self.exe} failed: {p.stderr[:500]}")
        out = p.stdout.split("\n")
        if out and out[-1] == "":
            out.pop()
        if len(out) != len(lines):
            raise InfraError(f"driver {self.exe}: {len(lines)} requests, {len(out)} replies")
        return out


# --------------------------------------------------------------------------------------------
# findings
# --------------------------------------------------------------------------------------------
def load_findings():
    """known_findings.json plus per-property fragments findings.d/*.json (same format)"""
    out = {"findings": [], "fixed": []}
    paths = [FINDINGS] if os.path.exists(FINDINGS) else []
    fd = os.path.join(VERIF, "findings.d")
    if os.path.isdir(fd):
        paths += [os.path.join(fd, f) for f in sorted(os.listdir(fd)) if f.endswith(".json")]
    for p in paths:
        d = json.load(open(p))
        out["findings"] += d.get("findings", [])
        out["fixed"] += d.get("fixed", [])
    return out


# --------------------------------------------------------------------------------------------
# context
# --------------------------------------------------------------------------------------------
class Ctx:
    def __init__(self, prop, tier, seed):
        self.prop = prop
        self.tier = tier
        self.seed = seed
        self.rng = random.Random(seed * 1000003 + sum(map(ord, prop)))
        self.t0 = time.time()
        self.evaluations = 0
        self.nontrivial = set()
        self.samples = []
        self.counts = {}
        self.disagreements = []   # model vs implementation
        self.violations = []      # oracle: dict(signature, what, input)
        self.broken = []          # broken obligations (build, audit, table, leaf)
        self.obligations = []     # names
        self.discharged = []
        self.notes = []
        self.traces = 0
        self.exhaustive = False
        self.rule = ""
        self.assumptions = []
        self.extra = {}
        self.checker_cmd = ""

    @property
    def quick(self):
        return self.tier == "quick"

    def pick(self, quick, thorough):
        return quick if self.quick else thorough

    def count(self, key, n=1):
        self.counts[key] = self.counts.get(key, 0) + n

    def sample(self, x, cap=6):
        if len(self.samples) < cap:
            self.samples.append(x)

    def note(self, s):
        self.notes.append(s)

    def disagree(self, component, inp, model, impl):
        self.disagreements.append({"component": component, "input": inp, "model": model, "impl": impl})

    def violate(self, signature, what, inp):
        self.violations.append({"signature": signature, "what": what, "input": inp})

    def broke(self, name, detail):
        self.broken.append({"obligation": name, "detail": detail[-3000:] if isinstance(detail, str) else detail})


def lean_stage(ctx, module, rel_file, extra_targets=(), drivers=()):
    """build + audit the property's Lean side; fills ctx.obligations / discharged / broken"""
    targets = [module] + list(extra_targets) + list(drivers)
    ok, log = lake_build(targets)
    names = theorem_names(rel_file)
    ctx.obligations += names
    ctx.checker_cmd = (
        f"cd lean && lake build {' '.join(targets)} && lake env lean <#print axioms of {len(names)} theorems>"
        + (" && lake env leanchecker " + module if not ctx.quick else "")
    )
    if not ok:
        ctx.broke(f"lake build {module}", log)
        return False
    hits = forbidden_hits()
    if hits:
        ctx.broke("forbidden-token audit", "\n".join(hits))
    res, out = axiom_audit(module, names)
    for n in names:
        ax = res.get(n)
        if ax is None:
            ctx.broke(f"#print axioms {n}", out)
        elif not set(ax) <= ALLOWED_AXIOMS:
            ctx.broke(f"axioms of {n}", str(ax))
        else:
            ctx.discharged.append(n)
    ctx.extra["axioms"] = {n: res.get(n) for n in names}
    if not ctx.quick:
        rc, out = _run(["lake", "env", "leanchecker", module], cwd=LEAN_DIR, timeout=3000)
        ctx.extra["leanchecker_rc"] = rc
        if rc != 0:
            ctx.broke(f"leanchecker {module}", out)
    return not ctx.broken


def write_replay(ctx, k, payload):
    os.makedirs(REPLAY_DIR, exist_ok=True)
    path = os.path.join(REPLAY_DIR, f"{ctx.prop}_{ctx.tier}_{ctx.seed}_{k}.json")
    with open(path, "w") as fh:
        json.dump(payload, fh, indent=1, default=str)
    return os.path.relpath(path, VERIF)


def finish(ctx):
    """verdict + evidence; returns exit code"""
    findings = load_findings()
    known = {f["signature"]: f for f in findings.get("findings", []) if f["property"] == ctx.prop}
    printed_known = set()
    new_viol = {}
    for v in ctx.violations:
        if v["signature"] in known:
            if v["signature"] not in printed_known:
                printed_known.add(v["signature"])
        else:
            new_viol.setdefault(v["signature"], v)
    lines = []
    for sig in sorted(printed_known):
        f = known[sig]
        lines.append(f"KNOWN-FINDING: property={ctx.prop} {f['id']} {f['what']}")
    # a listed finding whose witness no longer reproduces is only a note (it may have been fixed)
    for sig, f in known.items():
        if sig not in printed_known:
            ctx.note(f"known finding {f['id']} ({sig}) was not reproduced in this run")
    rc = 0
    k = 0
    for sig, v in sorted(new_viol.items()):
        path = write_replay(ctx, k, {"property": ctx.prop, "kind": "failing-input", "signature": sig,
                                     "what": v["what"], "input": v["input"],
                                     "replay": f"./check {ctx.prop} --replay <this file>"})
        lines.append(f"VIOLATION property={ctx.prop} replay={path}")
        k += 1
        rc = 1
    if not new_viol and (ctx.broken or ctx.disagreements):
        payload = {
            "property": ctx.prop,
            "kind": "broken-obligation",
            "broken_obligations": ctx.broken[:10],
            "correspondence_disagreements": ctx.disagreements[:10],
            "note": "the theorem / correspondence named here no longer checks against the current /repo; "
                    "the failing-input search on model and implementation found no concrete input",
        }
        path = write_replay(ctx, k, payload)
        lines.append(f"VIOLATION property={ctx.prop} replay={path} no-failing-input-found")
        rc = 1
    wall = time.time() - ctx.t0
    n_obl = len(ctx.obligations)
    cov = {
        "obligations": max(n_obl, 1),
        "discharged": len(ctx.discharged),
        "checker_cmd": ctx.checker_cmd or "lake build",
        "trusted_base": TRUSTED_BASE + ctx.assumptions,
        "evaluations": ctx.evaluations,
        "distinct_nontrivial": len(ctx.nontrivial),
        "rule": ctx.rule,
        "samples": ctx.samples[:8] if ctx.samples else ["(no sample recorded)"],
        "traces_validated_against_impl": ctx.traces,
        "exhaustive": ctx.exhaustive,
        "theorems": ctx.obligations,
        "broken_obligations": [b["obligation"] for b in ctx.broken],
        "correspondence_disagreements": len(ctx.disagreements),
        "oracle_violations_known": sorted(printed_known),
        "oracle_violations_new": sorted(new_viol),
        "branch_counts": ctx.counts,
        "notes": ctx.notes,
    }
    cov.update(ctx.extra)
    ev = {
        "property_id": ctx.prop,
        "tier": ctx.tier,
        "seed": ctx.seed,
        "level": "proof",
        "coverage": cov,
        "assumptions": TRUSTED_BASE + ctx.assumptions,
        "wall_s": round(wall, 2),
        "violations": len(new_viol) + (1 if (rc == 1 and not new_viol) else 0),
    }
    os.makedirs(EVID_DIR, exist_ok=True)
    with open(os.path.join(EVID_DIR, f"{ctx.prop}.json"), "w") as fh:
        json.dump(ev, fh, indent=1, default=str)
    for ln in lines:
        print(ln)
    print(f"[{ctx.prop}] tier={ctx.tier} seed={ctx.seed} obligations={n_obl} discharged={len(ctx.discharged)} "
          f"evaluations={ctx.evaluations} distinct_nontrivial={len(ctx.nontrivial)} "
          f"disagreements={len(ctx.disagreements)} known={len(printed_known)} new={len(new_viol)} "
          f"wall={wall:.1f}s -> exit {rc}")
    return rc


def main(argv=None):
    import argparse
    import importlib

    ap = argparse.ArgumentParser()
    ap.add_argument("prop")
    ap.add_argument("--tier", default=os.environ.get("VERIF_TIER", "quick"), choices=["quick", "thorough"])
    ap.add_argument("--replay", default=None)
    args = ap.parse_args(argv)
    seed = int(os.environ.get("VERIF_SEED", "0") or 0)
    prop = args.prop.upper()
    sys.path.insert(0, VERIF)
    if args.replay:
        args.replay = os.path.abspath(args.replay)  # property modules may chdir on import
    try:
        mod = importlib.import_module(f"harness.props.{prop.lower()}")
        ctx = Ctx(prop, args.tier, seed)
        if args.replay:
            data = json.load(open(args.replay))
            rc = mod.replay(ctx, data)
            return rc
        mod.run(ctx)
        return finish(ctx)
    except subprocess.TimeoutExpired as e:
        print(f"[{prop}] infrastructure timeout: {e}", file=sys.stderr)
        return 2
    except Exception:
        traceback.print_exc()
        print(f"[{prop}] infrastructure error", file=sys.stderr)
        return 2


if __name__ == "__main__":
    sys.exit(main())
