"""Harness-side shims that let the *unmodified* LDAR-Sim sources import and run in this sandbox.

Installed in the harness process only, before anything from /repo is imported (DESIGN.md 1.2):
  * numpy.NaN alias (numpy 2 removed it; output_utils.py does `from numpy import NaN`)
  * stub module `netCDF4` whose Dataset serves a harness-controlled synthetic weather cube
  * stub module `ephem` returning harness-controlled sunrise / sunset
Nothing in /repo is edited for this.  The shims are part of the trusted base.
"""
from __future__ import annotations

import os
import sys
import types
import datetime as _dt

REPO = os.environ.get("LDAR_REPO", "/repo")
REPO_SIM = os.path.join(REPO, "LDAR_Sim")
REPO_SRC = os.path.join(REPO_SIM, "src")

# ----------------------------------------------------------------------------------------------
# weather / daylight control (set by the harness before a run)
# ----------------------------------------------------------------------------------------------
WEATHER = {
    # function (day_of_year 0..365, lat_idx, lon_idx) -> (temp_C, wind_m_s, precip_mm), constant over
    # the 24 hourly steps of that day (the simulator indexes the cube by tm_yday*24 + hour);
    # default: always fine
    "fn": None,
    "ndays": 366,
    "lats": [20.0, 40.0, 60.0],
    "lons": [-120.0, -100.0, -80.0],
}
DAYLIGHT = {"fn": None}  # function(date) -> hours ; default 14.0


def _install_numpy_alias():
    import numpy

    if not hasattr(numpy, "NaN"):
        numpy.NaN = numpy.nan


def _install_netcdf_stub():
    import numpy as np

    mod = types.ModuleType("netCDF4")

    class _Var:
        def __init__(self, arr):
            self._a = arr

        def __getitem__(self, k):
            return self._a[k]

        def __array__(self, dtype=None, copy=None):
            return self._a if dtype is None else self._a.astype(dtype)

        def __len__(self):
            return len(self._a)

    class Dataset:
        def __init__(self, path, mode="r", *a, **k):
            nd = WEATHER["ndays"] * 24
            lats = np.array(WEATHER["lats"], dtype=float)
            lons = np.array(WEATHER["lons"], dtype=float)
            t = np.full((nd, len(lats), len(lons)), 15.0 + 273.15)
            u = np.full((nd, len(lats), len(lons)), 1.0)
            v = np.zeros((nd, len(lats), len(lons)))
            p = np.zeros((nd, len(lats), len(lons)))
            fn = WEATHER["fn"]
            if fn is not None:
                for d in range(WEATHER["ndays"]):
                    for i in range(len(lats)):
                        for j in range(len(lons)):
                            tc, w, pr = fn(d, i, j)
                            t[d * 24:(d + 1) * 24, i, j] = tc + 273.15
                            u[d * 24:(d + 1) * 24, i, j] = w
                            p[d * 24:(d + 1) * 24, i, j] = pr / 1000.0
            self.variables = {
                "t2m": _Var(t),
                "u10": _Var(u),
                "v10": _Var(v),
                "tp": _Var(p),
                "time": _Var(np.arange(nd)),
                "latitude": _Var(lats),
                "longitude": _Var(lons),
            }

        def __enter__(self):
            return self

        def __exit__(self, *a):
            return False

        def close(self):
            pass

    mod.Dataset = Dataset
    sys.modules["netCDF4"] = mod


def _install_ephem_stub():
    mod = types.ModuleType("ephem")

    class _When:
        def __init__(self, d):
            self._d = d

        def datetime(self):
            return self._d

    class Observer:
        def __init__(self):
            self.date = None
            self.lat = "0"
            self.lon = "0"
            self.pressure = 0
            self.horizon = "0"

        def _hours(self):
            fn = DAYLIGHT["fn"]
            d = self.date.date() if isinstance(self.date, _dt.datetime) else self.date
            return 14.0 if fn is None else float(fn(d))

        def previous_rising(self, body, use_center=True):
            base = self.date if isinstance(self.date, _dt.datetime) else _dt.datetime.combine(
                self.date, _dt.time.min
            )
            return _When(base)

        def next_setting(self, body, use_center=True):
            base = self.date if isinstance(self.date, _dt.datetime) else _dt.datetime.combine(
                self.date, _dt.time.min
            )
            return _When(base + _dt.timedelta(hours=self._hours()))

    class Sun:
        pass

    mod.Observer = Observer
    mod.Sun = Sun
    sys.modules["ephem"] = mod


_installed = False


def install(chdir: bool = True):
    """Install shims, put the repo's src on sys.path, chdir to /repo/LDAR_Sim (defaults are opened
    relative to it)."""
    global _installed
    if not _installed:
        os.environ.setdefault("MPLBACKEND", "Agg")
        _install_numpy_alias()
        _install_netcdf_stub()
        _install_ephem_stub()
        if REPO_SRC not in sys.path:
            sys.path.insert(0, REPO_SRC)
        if REPO_SIM not in sys.path:
            sys.path.insert(1, REPO_SIM)
        _installed = True
    if chdir:
        os.chdir(REPO_SIM)


def set_weather(fn=None, ndays=None, lats=None, lons=None):
    WEATHER["fn"] = fn
    if ndays is not None:
        WEATHER["ndays"] = ndays
    if lats is not None:
        WEATHER["lats"] = list(lats)
    if lons is not None:
        WEATHER["lons"] = list(lons)


def set_daylight(fn=None):
    DAYLIGHT["fn"] = fn
