"""Worker process of harness/wholerun.py: installs the shims and observation-only wrappers, runs the
real simulator on the materialised configuration and writes the trace.

Trace events (one list per (program, simulation), merged by the parent), all dates as day indices:
  ["tag", day, site, eqg, comp, company, report_delay, n_active_at_comp]
  ["survey", day, method, site, crew, R_before, R_after, S, T_returned, P_before, P_after,
             complete, in_progress, visited, last, workable_checked]
  ["deploy", day, method, [planned site ids], cost, sites_visited, travel, survey_time, budget_minutes,
             n_crews, crews_deployed, cost_type, unit_cost]
  ["plan", day, method, [planned site ids]]
  ["fuq", day, schedule_method, kind, site, rate]       follow-up queue insertions
  ["flagupd", day, method, n_flags]
  ["done", method, site, year]                            planner completion counter increments
  ["detect", day, site, eqg, comp, company, emission_id, repairable]
                                                          update_detection_records issued by a sensor
                                                          (not through a tagging call)
  ["wx", day, method, site, workable, temp, wind, precip, [tLo, tHi, wLo, wHi, pLo, pHi]]
                                                          result of Method.check_weather and the cube
                                                          values at the site's cell (hour Method.HOUR)
  ["wxcell", day, method, site, lat_idx, lon_idx, site_lat, site_lon, file_lats, file_lons]
                                                          the weather cell the site is bound to (indices
                                                          into the weather file's own axis order)
  ["plancost", day, method, {site: site.get_survey_cost(method)}]   emitted before each deploy_crews
  ["repaircost", day, "program"|"natural", amount, emission_id]     increments of EmisInfo cost totals
  ["fuflag", day, schedule_method, kind, site, rate, latest_detection_day, n_detected_rates, site_latest_tagging_day]
                                                          precedes the outermost "fuq" of an insertion (C09)
  ["fudec", day, method, [[site, rate], ...] pool before, detection counter, [[site, rate], ...] kept]
                                                          one per call of _filter_candidates_by_proportion (C09)
  ["fupool", day, method, [[site, rate, rate_long, n_detected_rates], ...]]   candidate pool after update (C09)
  ["sitemeas", day, method, site, measured_rate, survey_start_day]   site-level measurement at the completion
                                                          of a screening survey (zero when nothing detected) (C09)
  ["fuqsnap", day, schedule_method, [[class, site, rate], ...]]     follow-up queue in pop order (from a copy)
                                                          at the start of the follow-up schedule's get_workplan
  ["sched", method, schedule_class, crews, daily_surveys, [[site, required, months, dep_years, planner_years,
             [[m, d] plan dates], survey_time], ..]]     static planner data when a schedule is built
  ["request", day, method, [sites whose planner issued a request], queue after the take [[cls, rate, site]..],
             [planned site ids], queue size before, number of puts]     one per get_workplan
  ["sstate", day, method, queue after update [[cls, rate, site]..], follow-up flags | None,
             planners ([[site, queued, [[year, done]..], report]..] routine / [[site, report]..] follow-up)]
             report = None | [in_progress, minutes]; last field: site ids that had a report before update
Events keep the order in which the simulator produced them.
"""
from __future__ import annotations

import functools
import json
import os
import random as _random
import sys
import traceback
from datetime import date

from harness import shim

JOB = json.load(open(sys.argv[1]))
CFG = JOB["cfg"]
TRACE_ON = JOB["trace"]
TRACE_DIR = os.path.join(os.path.dirname(JOB["trace_path"]), "trace.d")
START = date(*CFG["start"])

EVENTS = []
CTXT = {"prog": None, "sim": None, "day": None}


def di(d):
    return None if d is None else (d - START).days


def _weather_fn():
    seed = CFG.get("weather_seed", 0)
    mode = CFG.get("weather_mode", "mixed")

    def fn(doy, i, j):
        r = _random.Random(seed * 1000003 + doy * 97 + i * 13 + j)
        if mode == "fine":
            return (15.0, 1.0, 0.0)
        x = r.random()
        if x < 0.7:
            return (15.0, 1.0, 0.0)
        if x < 0.8:
            return (-45.0, 1.0, 0.0)
        if x < 0.9:
            return (15.0, 12.0, 0.0)
        return (15.0, 1.0, 2.0)

    return fn


def install_wrappers():
    from virtual_world.sites import Site
    from programs.method import Method
    from programs.component_level_method import ComponentLevelMethod
    from programs.site_level_method import SiteLevelMethod
    from scheduling.generic_schedule import GenericSchedule
    from scheduling.follow_up_mobile_schedule import FollowUpMobileSchedule
    from scheduling.scheduled_survey_planner import ScheduledSurveyPlanner
    import simulation.simulation_helpers as sh
    import simulation.simulation_manager as sm

    # --- tagging ---------------------------------------------------------------------------
    orig_tag = Site.tag_emissions_at_component

    @functools.wraps(orig_tag)
    def tag(self, equipment_group, component, tagging_info):
        n_act = None
        try:
            for eg in self._equipment_groups:
                if eg.get_id() == equipment_group:
                    for c in eg._components:
                        if c.get_id() == component:
                            n_act = len(c._active_emissions)
        except Exception:
            pass
        EVENTS.append(["tag", di(tagging_info.curr_date), str(self.get_id()), str(equipment_group), str(component),
                       tagging_info.company, tagging_info.report_delay, n_act])
        CTXT["in_tag"] = True
        try:
            return orig_tag(self, equipment_group, component, tagging_info)
        finally:
            CTXT["in_tag"] = False

    Site.tag_emissions_at_component = tag

    # --- detection records set by sensors (observation only: the registry is filled from values the
    #     simulator computed itself, no extra call consumes random numbers) ------------------------
    from virtual_world.emission_types.emission import Emission

    WHERE = {}
    orig_gde = Site.get_detectable_emissions

    @functools.wraps(orig_gde)
    def gde(self, method_name):
        out = orig_gde(self, method_name)
        try:
            for eqg, comps in out.items():
                for comp, ems in comps.items():
                    for em in ems:
                        WHERE[id(em)] = (str(self.get_id()), str(eqg), str(comp))
        except Exception:
            pass
        return out

    Site.get_detectable_emissions = gde
    orig_udr = Emission.update_detection_records

    @functools.wraps(orig_udr)
    def udr(self, company, detect_date):
        if not CTXT.get("in_tag"):
            loc = WHERE.get(id(self), (None, None, None))
            EVENTS.append(["detect", di(detect_date), loc[0], loc[1], loc[2], company, self._emissions_id,
                           bool(self._repairable)])
        return orig_udr(self, company, detect_date)

    Emission.update_detection_records = udr

    # --- survey step -----------------------------------------------------------------------
    orig_survey = Method.survey_site

    @functools.wraps(orig_survey)
    def survey_site(self, crew, survey_report, site_to_survey, weather, curr_date):
        r0 = crew.day_time_remaining
        p0 = survey_report.time_surveyed
        try:
            s_time = site_to_survey.get_method_survey_time(self._name) if self._deployment_type != "stationary" else 0
        except Exception:
            s_time = None
        out = orig_survey(self, crew=crew, survey_report=survey_report, site_to_survey=site_to_survey,
                          weather=weather, curr_date=curr_date)
        rep, travel, last, visited = out
        EVENTS.append(["survey", di(curr_date), self._name, str(site_to_survey.get_id()), crew.crew_id, r0,
                       crew.day_time_remaining, s_time, travel, p0, rep.time_surveyed,
                       bool(rep.survey_complete), bool(rep.survey_in_progress), bool(visited), bool(last),
                       bool(self._weather)])
        return out

    Method.survey_site = survey_site

    # --- crew deployment -------------------------------------------------------------------
    def wrap_deploy(cls):
        orig = cls.__dict__.get("deploy_crews")
        if orig is None:
            return

        @functools.wraps(orig)
        def deploy_crews(self, workplan, weather, daylight):
            planned = [str(k) for k in workplan.site_survey_planners.keys()]
            stats = orig(self, workplan, weather, daylight)
            budget = None
            try:
                h = self._max_work_hours
                if self._daylight_sensitive:
                    h = self.get_daylight_hours(daylight, self._max_work_hours, workplan.date)
                budget = h * 60
            except Exception:
                pass
            EVENTS.append(["deploy", di(workplan.date), self._name, planned, stats.deployment_cost,
                           stats.sites_visited, stats.travel_time, stats.survey_time, budget,
                           self._crews, sum(1 for c in self._crew_reports if c.deployed),
                           getattr(self, "cost_type", None), getattr(self, "cost", None)])
            return stats

        cls.deploy_crews = deploy_crews

    wrap_deploy(Method)
    wrap_deploy(ComponentLevelMethod)

    # --- follow-up queue insertions ----------------------------------------------------------
    for kind in ("add_to_survey_queue", "add_unfinished_to_survey_queue", "add_previous_queued_to_survey_queue"):
        orig = FollowUpMobileSchedule.__dict__.get(kind)
        if orig is None:
            continue

        def mk(orig, kind):
            @functools.wraps(orig)
            def f(self, survey_plan, *a, **k):
                try:
                    rate = getattr(survey_plan, "rate_at_site", None)
                    EVENTS.append(["fuq", CTXT["day"], getattr(self, "_method", None), kind,
                                   str(survey_plan.site_id), rate])
                except Exception:
                    pass
                return orig(self, survey_plan, *a, **k)
            return f

        setattr(FollowUpMobileSchedule, kind, mk(orig, kind))

    # --- C09: provenance of follow-up queue insertions and queue snapshots (observation only) ----
    _fu_nest = {"n": 0}
    for kind in ("add_to_survey_queue", "add_unfinished_to_survey_queue", "add_previous_queued_to_survey_queue"):
        inner = FollowUpMobileSchedule.__dict__.get(kind)
        if inner is None:
            continue

        def mk2(inner, kind):
            @functools.wraps(inner)
            def g(self, survey_plan, *a, **k):
                if _fu_nest["n"] == 0:
                    try:
                        EVENTS.append(["fuflag", CTXT["day"], getattr(self, "_method", None), kind,
                                       str(survey_plan.site_id), getattr(survey_plan, "rate_at_site", None),
                                       di(getattr(survey_plan, "_latest_detection_date", None)),
                                       len(getattr(survey_plan, "_detected_rates", [])),
                                       di(survey_plan._site.get_latest_tagging_survey_date())])
                    except Exception:
                        pass
                _fu_nest["n"] += 1
                try:
                    return inner(self, survey_plan, *a, **k)
                finally:
                    _fu_nest["n"] -= 1
            return g

        setattr(FollowUpMobileSchedule, kind, mk2(inner, kind))

    def fu_get_workplan(self, current_date):
        try:
            heap = sorted(self._survey_queue.queue, key=lambda e: (e[0], e[1]))
            EVENTS.append(["fuqsnap", di(current_date), getattr(self, "_method", None),
                           [[e[0][0], str(e[2].site_id), e[2].rate_at_site] for e in heap]])
        except Exception:
            pass
        return GenericSchedule.get_workplan(self, current_date)

    if "get_workplan" not in FollowUpMobileSchedule.__dict__:
        FollowUpMobileSchedule.get_workplan = fu_get_workplan

    # --- C09: flagging decisions and the candidate pool at the end of every update (observation only) ----
    try:
        orig_flt = SiteLevelMethod._filter_candidates_by_proportion

        @functools.wraps(orig_flt)
        def flt(self):
            try:
                before = [[str(p.site_id), p.rate_at_site] for p in self._candidates_for_flags]
                cnt = self._detection_count
            except Exception:
                before, cnt = None, None
            out = orig_flt(self)
            try:
                EVENTS.append(["fudec", CTXT["day"], self._name, before, cnt,
                               [[str(p.site_id), p.rate_at_site] for p in self._candidates_for_flags]])
            except Exception:
                pass
            return out

        SiteLevelMethod._filter_candidates_by_proportion = flt
        inner_upd = SiteLevelMethod.update

        @functools.wraps(inner_upd)
        def upd_pool(self, current_date):
            out = inner_upd(self, current_date)
            try:
                EVENTS.append(["fupool", di(current_date), self._name,
                               [[str(p.site_id), p.rate_at_site, getattr(p, "rate_at_site_long", None),
                                 len(p._detected_rates)] for p in self._candidates_for_flags]])
            except Exception:
                pass
            return out

        SiteLevelMethod.update = upd_pool
    except Exception:
        pass

    # --- C09: what a site-level screening survey measured (observation only) ---------------------
    try:
        from sensors.default_site_level_sensor import DefaultSiteLevelSensor
        orig_sl_detect = DefaultSiteLevelSensor.detect_emissions

        @functools.wraps(orig_sl_detect)
        def sl_detect(self, site, meth_name, survey_report):
            out = orig_sl_detect(self, site, meth_name, survey_report)
            try:
                EVENTS.append(["sitemeas", CTXT["day"], meth_name, str(site.get_id()),
                               survey_report.site_measured_rate, di(survey_report.survey_start_date)])
            except Exception:
                pass
            return out

        DefaultSiteLevelSensor.detect_emissions = sl_detect
    except Exception:
        pass

    orig_upd = SiteLevelMethod.update

    @functools.wraps(orig_upd)
    def sl_update(self, current_date):
        out = orig_upd(self, current_date)
        EVENTS.append(["flagupd", di(current_date), self._name, out.sites_flagged if out is not None else None])
        return out

    SiteLevelMethod.update = sl_update

    orig_done = ScheduledSurveyPlanner.__dict__.get("add_to_surveys_done") or ScheduledSurveyPlanner.__dict__.get("_add_to_surveys_done")
    if orig_done is not None:
        name = orig_done.__name__

        @functools.wraps(orig_done)
        def done(self, *a, **k):
            EVENTS.append(["done", getattr(self, "_method", None), str(self._site.get_id()), CTXT["day"]])
            return orig_done(self, *a, **k)

        setattr(ScheduledSurveyPlanner, name, done)

    # --- schedule state (C06 / C07 trace conformance; observation only, read from copies) -----------
    def _q_content(sched):
        out = []
        for prio, _cnt, plan in sorted(sched._survey_queue.queue, key=lambda e: (e[0], e[1])):
            cls, rate = prio if isinstance(prio, tuple) else (prio, 0)
            out.append([int(cls), float(rate), str(plan.get_site().get_id())])
        return out

    def _rep_state(rep):
        if rep is None:
            return None
        ts = rep.time_surveyed     # exact: fractional daylight hours give fractional minutes
        return [1 if rep.survey_in_progress else 0, int(ts) if float(ts).is_integer() else float(ts)]

    orig_sched_init = GenericSchedule.__init__

    @functools.wraps(orig_sched_init)
    def sched_init(self, *a, **k):
        orig_sched_init(self, *a, **k)
        try:
            static = []
            for pl in self._survey_plans:
                sp = pl.get_survey_plan()
                try:
                    s_time = int(pl.get_site().get_method_survey_time(self._method))
                except Exception:
                    s_time = 0
                static.append([str(pl.get_site().get_id()), int(pl._site_annual_rs), list(pl._deployment_months),
                               list(pl._deployment_years), list(pl._sim_years),
                               [] if sp is None else [[d.month, d.day] for d in sp], s_time])
            EVENTS.append(["sched", self._method, type(self).__name__, int(self._method_crews),
                           int(self._est_meth_daily_surveys), static])
        except Exception as e:  # never disturb the run
            EVENTS.append(["sched-error", getattr(self, "_method", None), repr(e)])

    GenericSchedule.__init__ = sched_init

    orig_gwp = GenericSchedule.get_workplan

    @functools.wraps(orig_gwp)
    def get_workplan(self, current_date):
        before = [bool(getattr(pl, "_queued", False)) for pl in self._survey_plans]
        try:
            q0 = self._survey_queue.qsize()
            r0 = repr(self._survey_queue.counter)
            c0 = int(r0[r0.index("(") + 1:r0.index(")")])
        except Exception:
            q0 = c0 = None
        wp = orig_gwp(self, current_date)
        try:
            issued = [str(pl.get_site().get_id()) for pl, was in zip(self._survey_plans, before)
                      if getattr(pl, "_queued", False) and not was]
            try:
                r1 = repr(self._survey_queue.counter)
                puts = int(r1[r1.index("(") + 1:r1.index(")")]) - c0
            except Exception:
                puts = None
            EVENTS.append(["request", di(current_date), self._method, issued, _q_content(self),
                           [str(k) for k in wp.site_survey_planners.keys()], q0, puts])
        except Exception as e:
            EVENTS.append(["request-error", getattr(self, "_method", None), repr(e)])
        return wp

    GenericSchedule.get_workplan = get_workplan

    def wrap_sched_update(cls):
        orig = cls.__dict__.get("update")
        if orig is None:
            return

        @functools.wraps(orig)
        def update(self, workplan, current_date, *a, **k):
            try:
                rep_keys = [str(x) for x in workplan._site_survey_reports.keys()]
            except Exception:
                rep_keys = None
            out = orig(self, workplan, current_date, *a, **k)
            try:
                if isinstance(self, FollowUpMobileSchedule):
                    flags = sorted(str(s) for s, v in self._site_IDs_in_queue.items() if v)
                    pls = [[str(pl.get_site().get_id()), _rep_state(pl._active_survey_report)]
                           for _p, _c, pl in sorted(self._survey_queue.queue, key=lambda e: (e[0], e[1]))]
                    EVENTS.append(["sstate", di(current_date), self._method, _q_content(self), flags, pls, rep_keys])
                else:
                    pls = [[str(pl.get_site().get_id()), 1 if pl._queued else 0,
                            [[y, c.Surveys_done] for y, c in sorted(pl._surveys_this_year.items())],
                            _rep_state(pl._active_survey_report)] for pl in self._survey_plans]
                    EVENTS.append(["sstate", di(current_date), self._method, _q_content(self), None, pls, rep_keys])
            except Exception as e:
                EVENTS.append(["sstate-error", getattr(self, "_method", None), repr(e)])
            return out

        cls.update = update

    wrap_sched_update(GenericSchedule)
    wrap_sched_update(FollowUpMobileSchedule)

    # --- day marker through Program.do_daily_program_deployment ------------------------------
    from programs.program import Program

    orig_daily = Program.do_daily_program_deployment

    @functools.wraps(orig_daily)
    def daily(self):
        CTXT["day"] = di(self._current_date)
        return orig_daily(self)

    Program.do_daily_program_deployment = daily

    # --- per (program, simulation) context: wrap simulate (both debug and pool paths) ----------
    orig_sim = sh.simulate

    @functools.wraps(orig_sim)
    def simulate(*args, **kwargs):
        prog, sim = args[3], args[2]
        CTXT["prog"], CTXT["sim"] = prog, sim
        del EVENTS[:]
        try:
            return orig_sim(*args, **kwargs)
        finally:
            os.makedirs(TRACE_DIR, exist_ok=True)
            with open(os.path.join(TRACE_DIR, f"{prog}__{sim}.json"), "w") as fh:
                json.dump({"prog": prog, "sim": sim, "pid": os.getpid(), "events": EVENTS}, fh)

    sh.simulate = simulate
    sm.simulate = simulate


def install_crew_cost_wrappers():
    """append-only additions for C08 / C10 (observation only)"""
    from programs.method import Method
    from programs.component_level_method import ComponentLevelMethod
    from virtual_world.emission_types.repairable_emission import RepairableEmission
    import constants.param_default_const as pdc

    orig_cw = Method.check_weather

    @functools.wraps(orig_cw)
    def check_weather(self, weather, curr_date, site):
        out = orig_cw(self, weather, curr_date, site)
        try:
            h = (curr_date.timetuple().tm_yday - 1) * 24 + Method.HOUR
            la, lo = site.get_weather_lat(), site.get_weather_long()
            env = self._weather_envs
            mp = pdc.Method_Params
            EVENTS.append(["wx", di(curr_date), self._name, str(site.get_id()), bool(out),
                           float(weather.temps[h, la, lo]), float(weather.winds[h, la, lo]),
                           float(weather.precip[h, la, lo]),
                           [float(env[mp.TEMP][0]), float(env[mp.TEMP][1]), float(env[mp.WIND][0]),
                            float(env[mp.WIND][1]), float(env[mp.PRECIP][0]), float(env[mp.PRECIP][1])]])
        except Exception:
            EVENTS.append(["wx", di(curr_date), self._name, str(site.get_id()), bool(out), None, None, None, None])
        try:
            loc = site.get_loc()
            EVENTS.append(["wxcell", di(curr_date), self._name, str(site.get_id()), int(site.get_weather_lat()),
                           int(site.get_weather_long()), float(loc[0]), float(loc[1]),
                           [float(x) for x in shim.WEATHER["lats"]], [float(x) for x in shim.WEATHER["lons"]]])
        except Exception:
            pass
        return out

    Method.check_weather = check_weather

    def wrap_deploy(cls):
        orig = cls.__dict__.get("deploy_crews")
        if orig is None:
            return

        @functools.wraps(orig)
        def deploy_crews(self, workplan, weather, daylight):
            try:
                costs = {str(k): float(pl.get_site().get_survey_cost(self._name))
                         for k, pl in workplan.site_survey_planners.items()}
                EVENTS.append(["plancost", di(workplan.date), self._name, costs])
            except Exception:
                pass
            return orig(self, workplan, weather, daylight)

        cls.deploy_crews = deploy_crews

    wrap_deploy(Method)
    wrap_deploy(ComponentLevelMethod)

    def wrap_cost(name, kind, field):
        orig = getattr(RepairableEmission, name)

        @functools.wraps(orig)
        def f(self, emis_rep_info, *a, **k):
            before = getattr(emis_rep_info, field)
            out = orig(self, emis_rep_info, *a, **k)
            after = getattr(emis_rep_info, field)
            if after != before:
                EVENTS.append(["repaircost", CTXT["day"], kind, float(after - before), self._emissions_id])
            return out

        setattr(RepairableEmission, name, f)

    wrap_cost("check_if_repaired", "program", "repair_cost")
    wrap_cost("natural_repair", "natural", "nat_repair_cost")



def install_sim_wrappers():
    """append-only additions for the integrated-simulation check SIM (observation only).  Active only
    when the configuration carries "sim_trace": true, so every other check sees the trace it saw before.
      ["simworld", {...}]        once per (program, simulation) before the day loop: the infrastructure the
                                 run works on (sites -> groups -> components -> sources -> pending emissions in
                                 pop order, each with its global index "g") and the program's methods in
                                 `Program._methods` order with their per-site survey time / cost
      ["cov", day, method, g, "s"|"t", outcome]   a spatial (only when freshly drawn) / temporal coverage roll
      ["ttime", day, method, value]               result of Method._get_travel_time (precedes its "survey" event)
      ["rcost", day, g, amount]                   result of RepairableEmission.get_repair_cost
      ["dl", day, method, daylight_hours]         daylight.get_daylight(date) seen by Method.get_daylight_hours
      ["quant", day, true_rate, measured_rate]    DefaultSensor._measure_rate
      ["qrep", day, method, site, [[group, component, true_rate, measured_rate], ...]]   per completed survey
    """
    from ldar_sim import LdarSim
    from programs.method import Method
    from programs.component_level_method import ComponentLevelMethod
    from programs.site_level_method import SiteLevelMethod
    from virtual_world.emission_types.emission import Emission
    from virtual_world.emission_types.repairable_emission import RepairableEmission
    from sensors.default_sensor import DefaultSensor

    REG = {}

    def _num(x):
        try:
            return float(x)
        except Exception:
            return None

    def describe(infra, program, sim):
        sites = []
        g = 0
        for site in infra._sites:
            eqgs = []
            for eqg in site._equipment_groups:
                comps = []
                for comp in eqg._component:
                    srcs = []
                    for src in comp._sources:
                        lst = src._generated_emissions.get(sim, [])
                        ems = []
                        for em in reversed(lst):  # pop order
                            REG[id(em)] = g
                            rc = getattr(em, "_repair_cost", None)
                            ems.append({
                                "g": g, "id": em._emissions_id, "start": di(em._start_date), "rate": float(em._rate),
                                "repairable": bool(em._repairable),
                                "nrd": int(getattr(em, "_nrd", getattr(em, "_duration", 0))),
                                "repair_delay": _num(getattr(em, "_repair_delay", 0)),
                                "repair_cost": rc if isinstance(rc, list) else _num(rc),
                                "intermittent": hasattr(em, "_active_duration"),
                                "adur": int(getattr(em, "_active_duration", 1)),
                                "idur": int(getattr(em, "_inactive_duration", 0)),
                                "cls": type(em).__name__})
                            g += 1
                        srcs.append({"id": str(src.get_id()), "ems": ems,
                                     "cursor": None if src._next_emission is None else "set"})
                    comps.append({"id": str(comp.get_id()), "sources": srcs})
                eqgs.append({"id": str(eqg.get_id()), "comps": comps})
            sites.append({"id": str(site.get_id()), "eqgs": eqgs,
                          "latest_tag": di(site.get_latest_tagging_survey_date())})
        meths = []
        for meth in program._methods:
            name = meth.get_name()
            d = {"name": name,
                 "scale": "component" if isinstance(meth, ComponentLevelMethod) else ("site" if isinstance(meth, SiteLevelMethod) else type(meth).__name__),
                 "deployment": meth._deployment_type, "is_follow_up": bool(meth._is_follow_up),
                 "crews": int(meth._crews), "max_work_hours": _num(meth._max_work_hours),
                 "daylight_sensitive": bool(meth._daylight_sensitive), "weather": bool(meth._weather),
                 "cost_type": meth.cost_type, "cost": _num(meth.cost), "upfront_cost": _num(meth.upfront_cost),
                 "mdl": _num(meth._sensor._mdl), "reporting_delay": int(meth._reporting_delay),
                 "travel_times": meth._travel_times if isinstance(meth._travel_times, (int, float, list)) else None,
                 "sensor": type(meth._sensor).__name__,
                 "site_time": {str(s.get_id()): (_num(s.get_method_survey_time(name)) if meth._deployment_type != "stationary" else 0)
                               for s in infra._sites},
                 "site_cost": {str(s.get_id()): _num(s.get_survey_cost(name)) for s in infra._sites}}
            sched = program._survey_schedules.get(name)
            d["sched_class"] = type(sched).__name__
            d["sched_crews"] = int(getattr(sched, "_method_crews", 0))
            d["sched_cap"] = int(getattr(sched, "_est_meth_daily_surveys", 0))
            if isinstance(meth, SiteLevelMethod):
                d["follow_up"] = {
                    "schedule": meth._follow_up_schedule._method, "delay": int(meth._delay),
                    "proportion": _num(meth._proportion), "threshold_first": bool(meth._threshold_first),
                    "inst_threshold": None if meth._inst_threshold == float("inf") else _num(meth._inst_threshold),
                    "threshold": _num(getattr(meth, "_threshold", 0.0)),
                    "filter": getattr(meth, "_redund_filter", None),
                    "small_window": getattr(meth, "_small_window", None), "large_window": getattr(meth, "_large_window", None),
                    "small_window_threshold": _num(getattr(meth, "_small_window_threshold", 0.0)),
                    "large_window_threshold": _num(getattr(meth, "_large_window_threshold", 0.0))}
            meths.append(d)
        return {"sites": sites, "methods": meths, "n_emissions": g, "method_names": list(program.method_names)}

    orig_run = LdarSim.run_simulation

    @functools.wraps(orig_run)
    def run_simulation(self):
        try:
            REG.clear()
            EVENTS.append(["simworld", describe(self._infrastructure, self._program, self._sim_number)])
        except Exception as e:  # never disturb the run
            EVENTS.append(["simworld-error", repr(e)])
        return orig_run(self)

    LdarSim.run_simulation = run_simulation

    orig_sc = Emission.check_spatial_cov

    @functools.wraps(orig_sc)
    def check_spatial_cov(self, method):
        fresh = f"{method} Spatial Coverage" not in self._tech_spat_covs
        out = orig_sc(self, method)
        if fresh:
            EVENTS.append(["cov", CTXT["day"], method, REG.get(id(self)), "s", int(out)])
        return out

    Emission.check_spatial_cov = check_spatial_cov
    orig_tc = Emission.check_temporal_cov

    @functools.wraps(orig_tc)
    def check_temporal_cov(self, method):
        out = orig_tc(self, method)
        EVENTS.append(["cov", CTXT["day"], method, REG.get(id(self)), "t", int(out)])
        return out

    Emission.check_temporal_cov = check_temporal_cov

    orig_tt = Method._get_travel_time

    @functools.wraps(orig_tt)
    def _get_travel_time(self):
        out = orig_tt(self)
        EVENTS.append(["ttime", CTXT["day"], self._name, out if isinstance(out, int) else float(out)])
        return out

    Method._get_travel_time = _get_travel_time

    orig_rc = RepairableEmission.get_repair_cost

    @functools.wraps(orig_rc)
    def get_repair_cost(self):
        out = orig_rc(self)
        EVENTS.append(["rcost", CTXT["day"], REG.get(id(self)), _num(out)])
        return out

    RepairableEmission.get_repair_cost = get_repair_cost

    orig_dl = Method.get_daylight_hours

    @functools.wraps(orig_dl)
    def get_daylight_hours(self, daylight, max_hours, curr_date):
        try:
            EVENTS.append(["dl", di(curr_date), self._name, float(daylight.get_daylight(curr_date))])
        except Exception:
            pass
        return orig_dl(self, daylight, max_hours, curr_date)

    Method.get_daylight_hours = get_daylight_hours

    # quantification: what every completed survey measured, unit by unit (component-level: one entry per
    # component of the site in layout order; site-level: one entry with group / component None)
    #   ["qrep", day, method, site, [[group, component, true_rate, measured_rate], ...]]
    orig_ss = Method.survey_site

    @functools.wraps(orig_ss)
    def survey_site_q(self, crew, survey_report, site_to_survey, weather, curr_date):
        out = orig_ss(self, crew=crew, survey_report=survey_report, site_to_survey=site_to_survey,
                      weather=weather, curr_date=curr_date)
        try:
            rep = out[0]
            if rep.survey_complete:
                units = []
                if rep.equipment_groups_surveyed:
                    for eg in rep.equipment_groups_surveyed:
                        for dr in eg.emissions_detected:
                            units.append([str(dr.equipment_group), str(dr.component), float(dr.true_rate),
                                          float(dr.measured_rate)])
                else:
                    units.append([None, None, float(rep.site_true_rate), float(rep.site_measured_rate)])
                EVENTS.append(["qrep", di(curr_date), self._name, str(site_to_survey.get_id()), units])
        except Exception as e:
            EVENTS.append(["qrep-error", repr(e)])
        return out

    Method.survey_site = survey_site_q

    orig_mr = DefaultSensor._measure_rate

    @functools.wraps(orig_mr)
    def _measure_rate(self, true_rate):
        out = orig_mr(self, true_rate)
        EVENTS.append(["quant", CTXT["day"], float(true_rate), float(out)])
        return out

    DefaultSensor._measure_rate = _measure_rate


def main():
    shim.install()
    shim.set_weather(_weather_fn())
    dl = CFG.get("daylight")
    shim.set_daylight((lambda d: dl) if dl is not None else None)
    import logging

    logging.disable(logging.CRITICAL) if not os.environ.get("VERIF_WORKER_LOG") else None
    from ldar_sim_run import run_ldar_sim

    if TRACE_ON:
        install_wrappers()
        install_crew_cost_wrappers()
        if CFG.get("sim_trace"):
            install_sim_wrappers()
    hook = JOB.get("pre_run_hook")
    if hook:
        # "module:function" called with the job before the run (used by checks that permute listings,
        # inject crashes, ...); lives in /verif/harness
        modn, fn = hook.split(":")
        import importlib

        getattr(importlib.import_module(modn), fn)(JOB)
    rc = 0
    try:
        from pathlib import Path

        run_ldar_sim([Path(f) for f in JOB["files"]], DEBUG=JOB["debug"])
    except SystemExit as e:
        print("worker: SystemExit", e.code)
        rc = 3
    except Exception:
        traceback.print_exc()
        rc = 4
    if TRACE_ON:
        merged = []
        if os.path.isdir(TRACE_DIR):
            for f in sorted(os.listdir(TRACE_DIR)):
                merged.append(json.load(open(os.path.join(TRACE_DIR, f))))
        with open(JOB["trace_path"], "w") as fh:
            json.dump(merged, fh)
    sys.exit(rc)


if __name__ == "__main__":
    main()
