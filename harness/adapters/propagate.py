"""Adapter for C15: builds the REAL `Infrastructure` (virtual_world/infrastructure.py, sites.py,
equipment_groups.py, component.py, sources.py) from an input folder written for a generated case,
reads the values in effect from the constructed objects, and renders the same case as protocol lines
for the Lean driver `drv_propagate`.

A case is a JSON-serialisable dict:
  methods      [name, …]
  global       {plain key: value | None}          (values put into the virtual-world dict at the
                                                   access path extracted from the source)
  global_meth  {method: {param suffix: value}}     (put into the method dict, likewise)
  types / sites / equipment / sources   None | {"cols": [...], "rows": [{col: value | None}, …]}
  n_sites      None | int
  np_seed      int   (numpy global state before construction: the sample of sites)
Cell values are Python scalars (int, float, bool, str); None is a blank cell.

Values are compared exactly: numbers as fractions of the doubles the implementation holds, flags as
flags, strings as strings.  Quantities the code divides travel as exact rationals, all others as
opaque ids (the model only moves them around).
"""
from __future__ import annotations

import copy
import csv
import io
import os
import shutil
import tempfile
from fractions import Fraction
from pathlib import Path

from harness import shim

shim.install()

import numpy as np  # noqa: E402
import pandas as pd  # noqa: E402
import yaml  # noqa: E402

from file_processing.input_processing.input_manager import InputManager  # noqa: E402
from virtual_world.infrastructure import Infrastructure  # noqa: E402
from constants.infrastructure_const import Infrastructure_Constants as _IC  # noqa: E402


EMIS_COLUMNS = ["E%d" % i for i in range(1, 9)]


# ----------------------------------------------------------------------------------------------
# parameters from the real defaults
# ----------------------------------------------------------------------------------------------
def _defaults(name):
    with open(os.path.join(shim.REPO_SRC, "default_parameters", name)) as fh:
        d = yaml.safe_load(fh)
    InputManager.__new__(InputManager).remove_type_placeholders(d)
    return d


_VW_DEFAULT = None
_M_DEFAULT = None


def default_params():
    global _VW_DEFAULT, _M_DEFAULT
    if _VW_DEFAULT is None:
        _VW_DEFAULT = _defaults("virtual_world_default.yml")
        _M_DEFAULT = _defaults("m_default_mobile.yml")
    return copy.deepcopy(_VW_DEFAULT), copy.deepcopy(_M_DEFAULT)


def _set_path(d, path, val):
    parts = path.split(".")
    for p in parts[:-1]:
        d = d[p]
    d[parts[-1]] = val


def _get_path(d, path):
    for p in path.split("."):
        d = d[p]
    return d


def build_params(case, extra):
    """virtual-world dict and {method: dict} for a case; `extra` = tables extracted from the source"""
    vw, m0 = default_params()
    plain_paths = dict(extra["globalPlainPaths"])
    meth_paths = dict(extra["globalMethPaths"])
    for k, v in case["global"].items():
        path = plain_paths[k]
        cur = _get_path(vw, path)
        if isinstance(cur, dict):      # repairs.delay / repairs.cost: {"values": …, "file": …}
            cur[extra["values"]] = copy.deepcopy(v)
        else:
            _set_path(vw, path, copy.deepcopy(v))
    vw["infrastructure"]["sites_file"] = "sites.csv"
    vw["infrastructure"]["site_type_file"] = "site_types.csv" if case.get("types") else None
    vw["infrastructure"]["equipment_group_file"] = "equipment.csv" if case.get("equipment") else None
    vw["infrastructure"]["sources_file"] = "sources.csv" if case.get("sources") else None
    vw["emissions"]["emissions_file"] = "emissions.csv"
    vw["site_samples"] = case.get("n_sites")
    if case.get("start_date"):
        vw["start_date"] = list(case["start_date"])
    methods = {}
    for me in case["methods"]:
        md = copy.deepcopy(m0)
        md["method_name"] = me
        for suffix, v in case["global_meth"][me].items():
            _set_path(md, meth_paths[suffix], copy.deepcopy(v))
        for suffix in case.get("missing_meth", {}).get(me, []):
            # the (last) path element is absent from the method's parameter file
            parts = meth_paths[suffix].split(".")
            dd = md
            for p_ in parts[:-1]:
                dd = dd[p_]
            dd.pop(parts[-1], None)
        methods[me] = md
    return vw, methods


# ----------------------------------------------------------------------------------------------
# input folder
# ----------------------------------------------------------------------------------------------
def cell_text(v):
    if v is None:
        return ""
    if isinstance(v, bool):
        return "TRUE" if v else "FALSE"
    if isinstance(v, float):
        return repr(v)
    return str(v)


def _write_csv(path, table):
    with open(path, "w", newline="") as fh:
        w = csv.writer(fh)
        w.writerow(table["cols"])
        for r in table["rows"]:
            w.writerow([cell_text(r.get(c)) for c in table["cols"]])


def write_folder(case, d):
    d = Path(d)
    _write_csv(d / "sites.csv", case["sites"])
    if case.get("types"):
        _write_csv(d / "site_types.csv", case["types"])
    if case.get("equipment"):
        _write_csv(d / "equipment.csv", case["equipment"])
    if case.get("sources"):
        _write_csv(d / "sources.csv", case["sources"])
    with open(d / "emissions.csv", "w") as fh:
        rows = [EMIS_COLUMNS, ["sample"] * 8, ["x"] * 8, ["100"] * 8, ["gram"] * 8, ["second"] * 8,
                ["1"] * 8, ["2"] * 8]
        fh.write("\n".join(",".join(r) for r in rows) + "\n")


def same_value(a, b):
    return canon(a) == canon(b)


def check_roundtrip(case, d):
    """the CSV layer is outside the model: make sure pandas hands the implementation exactly the
    cell values the case intends (returns a description of the first difference, or None)"""
    for name, key in (("sites.csv", "sites"), ("site_types.csv", "types"), ("equipment.csv", "equipment"),
                      ("sources.csv", "sources")):
        t = case.get(key)
        if not t:
            continue
        df = pd.read_csv(Path(d) / name)
        if list(df.columns) != list(t["cols"]) or len(df) != len(t["rows"]):
            return f"{name}: shape differs"
        for i, r in enumerate(t["rows"]):
            for c in t["cols"]:
                got = df[c].iloc[i]
                want = r.get(c)
                if want is None:
                    if not (isinstance(got, float) and np.isnan(got)):
                        return f"{name}[{i}][{c}]: blank read as {got!r}"
                elif isinstance(want, str) and not isinstance(got, str):
                    # an all-numeric string column (e.g. numeric equipment) is read as numbers: intended
                    try:
                        if Fraction(want) != _frac(got):
                            return f"{name}[{i}][{c}]: {want!r} read as {got!r}"
                    except (ValueError, TypeError):
                        return f"{name}[{i}][{c}]: {want!r} read as {got!r}"
                elif not same_value(got, want):
                    return f"{name}[{i}][{c}]: {want!r} read as {got!r}"
    return None


# ----------------------------------------------------------------------------------------------
# canonical values
# ----------------------------------------------------------------------------------------------
def _frac(x):
    if isinstance(x, (bool, np.bool_)):
        raise TypeError("flag")
    if isinstance(x, (int, np.integer)):
        return Fraction(int(x))
    if isinstance(x, (float, np.floating)):
        return Fraction(float(x))
    raise TypeError(type(x))


def canon(v):
    if v is None:
        return None
    if isinstance(v, (bool, np.bool_)):
        return ("b", bool(v))
    if isinstance(v, (int, np.integer)):
        return ("n", Fraction(int(v)))
    if isinstance(v, (float, np.floating)):
        f = float(v)
        if f != f:
            return ("nan",)
        if f in (float("inf"), float("-inf")):
            return ("inf", f > 0)
        return ("n", Fraction(f))
    if isinstance(v, str):
        return ("s", v)
    if isinstance(v, (list, tuple)):
        return ("l", tuple(canon(x) for x in v))
    if isinstance(v, dict):
        return ("d", tuple(sorted((str(k), canon(x)) for k, x in v.items())))
    return ("?", repr(v))


def canon_choice(v):
    """repair delay / cost: the collection of values a source draws from (a single value from an
    infrastructure file is a one-element collection, a string is a column name)"""
    if v is None:
        return None
    if isinstance(v, str):
        return ("s", v)
    if isinstance(v, (list, tuple)):
        return ("choice", tuple(sorted(canon(x) for x in v)))
    return ("choice", (canon(v),))


class ValTable:
    """opaque value ids of a case: canonical value <-> id (1 = True, 0 = False, 2 = the number 0 are fixed)"""

    def __init__(self):
        zero = ("n", Fraction(0))
        self.ids = {("b", False): 0, ("b", True): 1, zero: 2}
        self.vals = {0: ("b", False), 1: ("b", True), 2: zero}

    def id_of(self, c):
        if c not in self.ids:
            i = len(self.ids)
            self.ids[c] = i
            self.vals[i] = c
        return self.ids[c]

    def tok(self, c):
        return "-" if c is None else "t%d" % self.id_of(c)

    def tok_known(self, c):
        """token of an implementation value: unknown values get a token no model output can equal"""
        if c is None:
            return "-"
        if c in self.ids:
            return "t%d" % self.ids[c]
        return "?%r" % (c,)


def qtok(v):
    """exact rational token of a number (None -> '-')"""
    if v is None:
        return "-"
    try:
        f = _frac(v)
    except (TypeError, ValueError, OverflowError):
        return "?%r" % (v,)
    return "q%d_%d" % (f.numerator, f.denominator)


# ----------------------------------------------------------------------------------------------
# the implementation
# ----------------------------------------------------------------------------------------------
class Rejected(Exception):
    pass


LAST_PROBE = {}


def run_impl(case, extra, probes=False):
    """returns (status, world | what, sample) with status ok | reject | crash | infra; world = list of site
    dicts read from the real objects; sample = the rows `sites_in.sample(n)` drew (index labels of the
    sites file, in the drawn order; None if the call was not reached) — recorded by a harness-side
    wrapper around DataFrame.sample for the duration of the construction"""
    d = tempfile.mkdtemp(prefix="c15_")
    try:
        write_folder(case, d)
        bad = check_roundtrip(case, d)
        if bad:
            return ("infra", bad, None)
        vw, methods = build_params(case, extra)
        snapshot = copy.deepcopy((vw, methods)) if probes else None
        np.random.seed(case.get("np_seed", 0))
        out = io.StringIO()
        import contextlib
        import logging
        import warnings
        logging.disable(logging.CRITICAL)
        rec = {"sample": None}
        orig_sample = pd.DataFrame.sample

        def recording_sample(self, *a, **k):
            res = orig_sample(self, *a, **k)
            if rec["sample"] is None:
                rec["sample"] = [int(i) for i in res.index]
            return res
        pd.DataFrame.sample = recording_sample
        try:
            with contextlib.redirect_stdout(out), warnings.catch_warnings():
                warnings.simplefilter("ignore")
                infra = Infrastructure(vw, methods, Path(d))
        except SystemExit:
            return ("reject", "SystemExit", rec["sample"])
        except Exception as e:  # a crash of the real code on this input
            return ("crash", "%s: %s" % (type(e).__name__, e), rec["sample"])
        finally:
            pd.DataFrame.sample = orig_sample
            logging.disable(logging.NOTSET)
        try:
            world = read_world(infra, case["methods"])
        except Exception as e:   # the constructed objects lack what the case's methods / files call for
            return ("crash", "%s: %s (while reading the constructed world)" % (type(e).__name__, e), rec["sample"])
        if probes:
            # same-process / execution-mode probes on the real objects (results in world[...]["_probe"] is
            # avoided: they are returned through the module-level LAST_PROBE)
            import pickle
            probe = {}
            probe["input-unchanged"] = canon(snapshot) == canon((vw, methods))
            try:
                probe["pickle"] = canon(read_world(pickle.loads(pickle.dumps(infra)), case["methods"])) == canon(world)
            except Exception as e:
                probe["pickle"] = "%s: %s" % (type(e).__name__, e)
            try:
                probe["deepcopy"] = canon(read_world(copy.deepcopy(infra), case["methods"])) == canon(world)
            except Exception as e:
                probe["deepcopy"] = "%s: %s" % (type(e).__name__, e)
            try:
                np.random.seed(case.get("np_seed", 0))
                logging.disable(logging.CRITICAL)
                with contextlib.redirect_stdout(out), warnings.catch_warnings():
                    warnings.simplefilter("ignore")
                    again = Infrastructure(vw, methods, Path(d))     # the SAME dict objects a second time
                probe["rebuild-from-same-dicts"] = canon(read_world(again, case["methods"])) == canon(world)
            except BaseException as e:
                probe["rebuild-from-same-dicts"] = "%s: %s" % (type(e).__name__, e)
            finally:
                logging.disable(logging.NOTSET)
            LAST_PROBE.clear()
            LAST_PROBE.update(probe)
        return ("ok", world, rec["sample"])
    finally:
        shutil.rmtree(d, ignore_errors=True)


def run_history(cases, extra, n_sims=1):
    """consecutive runs of the simulator's world set-up over ONE input folder, through the production
    entry points of SimulationManager.setup_infrastructure / setup_emissions
    (initialization.initialize_infrastructure + initialize_emissions): run k rewrites the input files
    and parameters of cases[k]; the generator folder is left as run k-1 left it.
    Returns [(status, world | what, reused_from_disk)] — the world each run actually uses."""
    import contextlib
    import datetime
    import logging
    import warnings
    from initialization.initialize_infrastructure import initialize_infrastructure
    from initialization.initialize_emissions import initialize_emissions
    from constants.file_name_constants import Generator_Files
    d = Path(tempfile.mkdtemp(prefix="c15h_"))
    out = []
    try:
        gen_dir = d / Generator_Files.GENERATOR_FOLDER
        for k, case in enumerate(cases):
            for name in ("sites.csv", "site_types.csv", "equipment.csv", "sources.csv"):
                if (d / name).exists():
                    os.remove(d / name)
            write_folder(case, d)
            bad = check_roundtrip(case, d)
            if bad:
                out.append(("infra", bad, None))
                break
            vw, methods = build_params(case, extra)
            start = datetime.date(*vw["start_date"])
            end = start + datetime.timedelta(days=6)
            vw["end_date"] = [end.year, end.month, end.day]
            programs = {"P": {"program_name": "P", "method_labels": list(methods), "methods": methods}}
            np.random.seed(case.get("np_seed", 0) + k)
            logging.disable(logging.CRITICAL)
            try:
                with contextlib.redirect_stdout(io.StringIO()), warnings.catch_warnings():
                    warnings.simplefilter("ignore")
                    infra, reused = initialize_infrastructure(methods, programs, vw, gen_dir, d, False, None, False)
                    initialize_emissions(n_sims, False, None, reused, infra, start, end, gen_dir,
                                         pre_simulation_emissions=True)
                out.append(("ok", read_world(infra, case["methods"]), bool(reused)))
            except SystemExit:
                out.append(("reject", "SystemExit", None))
            except Exception as e:
                out.append(("crash", "%s: %s" % (type(e).__name__, e), None))
            finally:
                logging.disable(logging.NOTSET)
        return out
    finally:
        shutil.rmtree(d, ignore_errors=True)


def _try(f):
    try:
        return f()
    except Exception as e:
        return "!%s" % type(e).__name__


def read_world(infra, methods):
    world = []
    for s in infra._sites:
        site = {
            "sid": str(s.get_id()), "stype": str(s.get_type()),
            "tag_date": s.get_latest_tagging_survey_date(),
            "freq": [s._survey_frequencies[m] for m in methods],
            "months": [s._deployment_months[m] for m in methods],
            "years": [s._deployment_years[m] for m in methods],
            "deploy": [s._deploy_method[m] for m in methods],
            "time": [_try(lambda m=m: s.get_method_survey_time(m)) for m in methods],
            "cost": [_try(lambda m=m: s.get_survey_cost(m)) for m in methods],
            "groups": [],
        }
        for g in s._equipment_groups:
            gid = g.get_id()
            if isinstance(gid, (float, np.floating)) and float(gid) == int(gid):
                gid = int(gid)          # numeric equipment 0.0: the group number as a float
            grp = {"gid": str(gid),
                   "times": [g._meth_survey_times[m] for m in methods],
                   "costs": [g._meth_survey_costs[m] for m in methods],
                   "comps": []}
            for c in g._component:
                comp = {"cid": str(c._component_ID), "sources": []}
                for r in c._sources:
                    comp["sources"].append({
                        "sid": str(r._source_ID), "rep": bool(r._repairable),
                        "ers": r._emis_rate_source, "epr": r._emis_prod_rate, "dur": r._emis_duration,
                        "multi": r._multi_emissions, "rd": r._emis_rep_delay, "rc": r._emis_rep_cost,
                        "spatial": [r._meth_spat_covs[m] for m in methods],
                        "temporal": [r._meth_temp_covs[m] for m in methods],
                    })
                grp["comps"].append(comp)
            site["groups"].append(grp)
        world.append(site)
    return world


# ----------------------------------------------------------------------------------------------
# rendering: implementation world and model input in the driver's notation
# ----------------------------------------------------------------------------------------------
def _own_rate_flags(case, tables, ctype, n):
    """for the sources of a component of type `ctype` (in file order): does the source's own row give a
    production rate?  Placeholder sources have no row."""
    if ctype in ("Placeholder", "Placeholder_Rep", "Placeholder_NonRep") or not case.get("sources"):
        return [False] * n
    rows = [r for r in case["sources"]["rows"] if r["component"] == ctype]
    flags = [r.get(tables["srcEpr"]) is not None for r in rows]
    return flags if len(flags) == n else [None] * n


def dump_world(world, vt, case, tables):
    def pv(v):
        return vt.tok_known(canon(v))

    def pvs(l, f=None):
        return ";".join((f or pv)(x) for x in l)

    def choice(v):
        return vt.tok_known(canon_choice(v))

    sites = []
    for s in world:
        groups = []
        for g in s["groups"]:
            comps = []
            for c in g["comps"]:
                srcs = []
                for r in c["sources"]:
                    srcs.append("%s=%d/%s/%s/%s/%s/%s/%s/%s/%s" % (
                        r["sid"], 1 if r["rep"] else 0, pv(r["ers"]), qtok(r["epr"]), pv(r["dur"]),
                        pv(r["multi"]), choice(r["rd"]), choice(r["rc"]), pvs(r["spatial"]), pvs(r["temporal"])))
                # the rate the component hands to its sources, read off a source of the kind whose own
                # row gives no rate (`*`: the component has no such source)
                own = _own_rate_flags(case, tables, c["cid"].rsplit("_", 1)[0], len(c["sources"]))
                obs = []
                for kind in (True, False):
                    cand = [r for r, o in zip(c["sources"], own) if r["rep"] == kind and o is False]
                    obs.append("?" if None in own else (qtok(cand[0]["epr"]) if cand else "*"))
                comps.append(c["cid"] + "{" + obs[0] + "|" + obs[1] + "}:" + ",".join(srcs))
            groups.append("~".join([g["gid"], pvs(g["times"], qtok), pvs(g["costs"], qtok), "&".join(comps)]))
        times = ";".join("-" if t is None else str(t) for t in s["time"])
        sites.append("~".join([s["sid"], s["stype"], pvs(s["freq"]), pvs(s["months"]), pvs(s["years"]),
                               pvs(s["deploy"]), times, pvs(s["cost"], qtok), "+".join(groups)]))
    return "#".join(sites)


def equip_token(v):
    if v is None:
        return "-"
    if isinstance(v, (int, float)) and not isinstance(v, bool):
        if v >= 0 and float(v) == int(v):
            return "#%d" % int(v)
        if v > 0:
            f = Fraction(v)
            return "#%d_%d" % (f.numerator, f.denominator)
        return "-"
    return "@" + str(v).replace(",", "|")


def numeric_column(table, col):
    """pandas reads a column whose filled cells are all numbers as numbers"""
    vals = [r.get(col) for r in table["rows"] if r.get(col) is not None]
    def isnum(x):
        if isinstance(x, bool):
            return False
        if isinstance(x, (int, float)):
            return True
        try:
            float(x)
            return True
        except (TypeError, ValueError):
            return False
    return bool(vals) and all(isnum(x) for x in vals)


def count_columns(case, tables):
    eq = case.get("equipment")
    if not eq:
        return []
    known = set(tables["globalPlain"])
    suffixes = set(tables["globalMeth"]) | {tables["siteDeploy"]}
    return [c for c in eq["cols"][1:] if c not in known and not any(c.endswith(sfx) for sfx in suffixes)]


def float_count_column(case, tables):
    """pandas reads a component-count column with a blank or non-integer cell as floats"""
    eq = case.get("equipment")
    for c in count_columns(case, tables):
        for r in eq["rows"]:
            v = r.get(c)
            if v is None or (isinstance(v, float) and not isinstance(v, bool)):
                return True
    return False


def _equip_value(table, row):
    v = row.get("equipment")
    if v is None:
        return None
    if numeric_column(table, "equipment"):
        return float(v) if not isinstance(v, (int, float)) else v
    return str(v)


def model_lines(case, tables, vt, picks):
    """protocol lines for one case (last line = build)"""
    methods = case["methods"]
    scale_plain = set(tables["scalePlain"])
    scale_meth = set(tables["scaleMeth"])
    choice_keys = {tables["repPrefix"] + tables["srcRd"], tables["repPrefix"] + tables["srcRc"],
                   tables["srcRd"], tables["srcRc"]}
    dur_keys = {tables["repPrefix"] + tables["srcDur"], tables["nonRepPrefix"] + tables["srcDur"],
                tables["srcDur"]}
    meth_cols = {}
    for me in methods:
        for p in set(tables["globalMeth"]) | {tables["siteDeploy"]}:
            meth_cols[me + p] = p

    def val(col, v, source_row=False):
        if v is None:
            return "-"
        if col in scale_plain or (source_row and col == tables["srcEpr"]):
            return qtok(v)
        if col in meth_cols and meth_cols[col] in scale_meth:
            return qtok(v)
        if col in choice_keys:
            return vt.tok(canon_choice(v))
        if col in dur_keys and not isinstance(v, (bool, str)):
            # the source applies int() to the duration in effect and nothing else looks at it: the
            # truncation commutes with the propagation, so the model is handed the truncated value
            return vt.tok(canon(int(v)))
        return vt.tok(canon(v))

    def cells(row, cols, skip, source_row=False, counts=()):
        out = []
        for c in cols:
            if c in skip or row.get(c) is None:
                continue
            if c in counts:
                out.append("[%s,%s]" % (c, qtok(row[c])))
            else:
                out.append("[%s,%s]" % (c, val(c, row[c], source_row)))
        return "[" + ",".join(out) + "]"

    lines = ["reset", "methods [%s]" % ",".join(methods)]
    for k, v in case["global"].items():
        lines.append("g %s %s" % (k, val(k, v)))
    for me in methods:
        for suffix, v in case["global_meth"][me].items():
            if suffix in case.get("missing_meth", {}).get(me, []):
                continue    # absent from the method's parameter file: the model applies the code's default
            lines.append("gm %s %s %s" % (me, suffix, val(me + suffix, v)))
    types, sites, equipment, sources = (case.get(k) for k in ("types", "sites", "equipment", "sources"))
    lines.append("flags %d %d %d %d %d" % (1 if types else 0, 1 if "equipment" in sites["cols"] else 0,
                                           1 if (types and "equipment" in types["cols"]) else 0,
                                           1 if sources else 0, 1 if float_count_column(case, tables) else 0))
    if types:
        for r in types["rows"]:
            lines.append("type %s %s %s" % (r["site_type"], equip_token(_equip_value(types, r)),
                                            cells(r, types["cols"], {"site_type", "equipment"})))
    for r in sites["rows"]:
        lines.append("site %s %s %s %s" % (r["site_ID"], r["site_type"], equip_token(_equip_value(sites, r)),
                                           cells(r, sites["cols"], {"site_ID", "lat", "lon", "site_type", "equipment"})))
    if equipment:
        first = equipment["cols"][0]
        known = set(tables["globalPlain"]) | set(meth_cols)
        counts = [c for c in equipment["cols"][1:] if c not in known]
        for r in equipment["rows"]:
            lines.append("eq %s %s" % (r[first], cells(r, equipment["cols"][1:], set(), counts=counts)))
    if sources:
        for r in sources["rows"]:
            lines.append("src %s %s %d %s" % (r["component"], r["source"], 1 if r["repairable"] else 0,
                                              cells(r, sources["cols"], {"component", "source"}, source_row=True)))
    lines.append("build [%s]" % ",".join(str(i) for i in picks))
    return lines
