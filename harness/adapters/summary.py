"""Drive the REAL summary aggregation over generated program directories.

Real code exercised (nothing re-implemented here):
  * simulation.simulation_manager.SimulationManager.run_simulations / _run_simulations_debug
    (the batch loop: batch_simulations, simulation number = batch*5 + i, the clear/keep flag) and
    generate_summary_results, called on a duck-typed `self` whose summary_stats_manager is a real
    SummaryOutputManager;
  * SummaryOutputManager.gen_summary_outputs / gen_cost_summary_outputs, summary_outputs.py,
    summary_output_helpers.py, summary_output_mapper.py, simulation_helpers.batch_simulations.
Only `simulate` (one program-simulation run) is replaced: it writes the generated per-simulation
CSV files of the world under <out>/<program>/ exactly where ProgramOutputManager would.

`os.scandir` is wrapped for the duration of a run: every call returns the real DirEntry objects in
an order drawn independently per call from the harness PRNG, and the order is logged so that the
Lean model can be driven with the very same listings.

A world (JSON-serialisable):
  programs   [name, ...]            baseline  name          n  number of simulations
  keep_all   bool                   years     [y, ...]
  econ       {program: [gwp, natgas]}
  files      {"<program>|<sim>": {"ts": rows, "emis": rows, "est": rows|None, "rep": rows|None|"EMPTY"}}
               ts   row = [emis, mitigable, non_mitigable, cost]
               emis row = [mitigated, true_vol, est_vol, repairable 0/1, true_rate, date_began,
                           date_repaired_or_expired|None, theoretical_end|None]
               est  row = [site, site_type, measured 0/1, est_vol, start, end|None]
               rep  row = [est_vol, start, end|None]
  extras     {"<program>|<sim>": [suffix, ...]}   other files written next to the CSVs (plots, ...)
  logs       bool   a `Logs` directory and parameters.yaml exist in the output folder
  summary_files  optional {"ts": bool, "emis": bool, "cost": bool}   the "Summary Files" switches (default all on)
  multiprocessing optional bool   run the batch loop of _run_simulation_multiprocessing (default: the debug loop)
"""
from __future__ import annotations

import csv
import os
import shutil
import tempfile
from contextlib import contextmanager
from pathlib import Path

from harness import shim

shim.install()

import pandas as pd  # noqa: E402
from constants import output_file_constants as ofc  # noqa: E402
from constants import param_default_const as pdc  # noqa: E402
from constants.file_name_constants import Output_Files  # noqa: E402
from constants.general_const import Conversion_Constants as cc  # noqa: E402
from file_processing.output_processing.summary_output_manager import SummaryOutputManager  # noqa: E402
from simulation import simulation_manager as SM  # noqa: E402
from simulation.simulation_helpers import batch_simulations  # noqa: E402

eca = ofc.EMIS_DATA_COL_ACCESSORS
tca = ofc.TIMESERIES_COL_ACCESSORS
esca = ofc.EMIS_SUMMARY_COLUMNS_ACCESSORS
tsca = ofc.TS_SUMMARY_COLUMNS_ACCESSORS
csca = ofc.COST_SUMMARY_COLUMNS_ACCESSORS

TS_FILE_COLS = [tca.DATE, tca.EMIS, tca.EMIS_MIT, tca.EMIS_NON_MIT, tca.COST]
EMIS_FILE_COLS = [eca.EMIS_ID, eca.MITIGATED, eca.T_VOL_EMIT, eca.EST_VOL_EMIT, eca.REPAIRABLE, eca.T_RATE,
                  eca.DATE_BEG, eca.DATE_REP_EXP, eca.THEORY_DATE]
EST_FILE_COLS = [eca.SITE_ID, eca.SITE_TYPE, eca.SITE_MEASURED, eca.EST_VOL_EMIT, eca.START_DATE, eca.END_DATE]
REP_FILE_COLS = [eca.EST_VOL_EMIT, eca.START_DATE, eca.END_DATE]

SUFFIX = {
    "ts": Output_Files.TIMESERIES_FILE,
    "emis": Output_Files.EMISSIONS_SUMMARY_FILE,
    "est": Output_Files.EST_EMISSIONS_FILE,
    "rep": Output_Files.EST_REP_EMISSIONS_FILE,
}

# the statistics of the two summary files in the order the model prints them
TS_STATS = [tsca.AVG_T_DAILY_EMIS, tsca.AVG_T_MIT_DAILY_EMIS, tsca.AVG_T_NON_MIT_DAILY_EMIS,
            tsca.T_DAILY_EMIS_95, tsca.T_MIT_DAILY_EMIS_95, tsca.T_NON_MIT_DAILY_EMIS_95,
            tsca.T_DAILY_EMIS_5, tsca.T_MIT_DAILT_EMIS_5, tsca.T_NON_MIT_DAILY_EMIS_5,
            tsca.AVG_DAILY_COST, tsca.TOT_COST, tsca.DAILY_COST_95, tsca.DAILY_COST_5]
EMIS_STATS = [esca.T_TOT_MIT, esca.T_TOTAL_EMIS, esca.EST_TOTAL_EMIS, esca.T_TOTAL_MIT_EMIS,
              esca.T_TOTAL_NON_MIT_EMIS, esca.AVG_T_EMIS_RATE, esca.T_EMIS_RATE_95, esca.T_EMIS_RATE_5,
              esca.T_AVG_EMIS_AMOUNT, esca.T_EMIS_AMOUNT_95, esca.T_EMIS_AMOUNT_5]


def emis_columns(years):
    """column order of the model's Emissions Summary row"""
    return (EMIS_STATS + [esca.T_ANN_MIT.format(y) for y in years] + [esca.T_ANN_EMIS.format(y) for y in years]
            + [esca.EST_ANN_EMIS.format(y) for y in years])


def kg_to_mmbtu():
    return cc.KG_TO_MMBTU


def output_config(cost=True, ts=True, emis=True):
    """the repository's default output parameters (all summary statistics on) with the three
    "Summary Files" switches set as asked"""
    import yaml

    with open(os.path.join(shim.REPO_SRC, "default_parameters", "outputs_default.yml")) as fh:
        cfg = yaml.safe_load(fh)
    sf = cfg[ofc.OutputConfigCategories.SUMMARY_OUTPUTS][
        ofc.OutputConfigCategories.SummaryOutputCatageories.SUMMARY_FILES]
    sf[Output_Files.SummaryFileNames.COST_SUMMARY] = bool(cost)
    sf[Output_Files.SummaryFileNames.TS_SUMMARY] = bool(ts)
    sf[Output_Files.SummaryFileNames.EMIS_SUMMARY] = bool(emis)
    return cfg


def sim_file_name(program, sim, suffix):
    """the name ProgramOutputManager gives a per-simulation file (real format string + join)"""
    from ldar_sim import LdarSim

    return "_".join([LdarSim.SIMULATION_NAME_STR.format(program=program, sim_number=sim), suffix])


# ----------------------------------------------------------------------------------------------
# writing the per-simulation files of a world
# ----------------------------------------------------------------------------------------------
def _b(x):
    return "True" if x else "False"


def _d(x):
    return "" if x is None else x


ID_COLS = {eca.EMIS_ID, eca.SITE_ID, tca.DATE}
EXTRA_COLS = {
    "ts": [tca.ACT_LEAKS, tca.NEW_LEAKS, tca.REP_COST, tca.METH_DAILY_DEPLOY_COST.format(method="M_OGI")],
    "emis": [eca.STATUS, eca.DAYS_ACT, eca.M_RATE, eca.COMP],
    "est": [eca.SURVEY_LEVEL, eca.METHOD, eca.M_RATE],
    "rep": [eca.M_RATE, eca.SITE_ID],
}


def write_csv(path, header, rows, kind=None, style=0):
    """style 0: the columns the summary code reads, integers as written.  style != 0 (derived from
    the world's format seed and the file name): like the real per-simulation files — numbers as
    `%.5f`, further columns the summary code does not read, columns in another order"""
    import random
    import zlib

    header = list(header)
    rows = [list(r) for r in rows]
    if style:
        rnd = random.Random(zlib.crc32(os.path.basename(str(path)).encode()) ^ style)
        if rnd.random() < 0.5:
            for r in rows:
                for i, c in enumerate(header):
                    if c not in ID_COLS and isinstance(r[i], int) and not isinstance(r[i], bool):
                        r[i] = "%.5f" % r[i]
        for c in EXTRA_COLS.get(kind, []):
            if c not in header and rnd.random() < 0.5:
                header.append(c)
                for r in rows:
                    r.append(rnd.choice([0, 1, 7, "x", "12.50000"]))
        if rnd.random() < 0.5:
            order = list(range(len(header)))
            rnd.shuffle(order)
            header = [header[i] for i in order]
            rows = [[r[i] for i in order] for r in rows]
    with open(path, "w", newline="") as fh:
        w = csv.writer(fh)
        w.writerow(header)
        for r in rows:
            w.writerow(r)


def planned_files(world, program, sim):
    """[(kind, name)] of the files write_sim_files writes for (program, sim), in writing order"""
    f = world["files"]["%s|%d" % (program, sim)]
    out = [("ts", sim_file_name(program, sim, SUFFIX["ts"])), ("emis", sim_file_name(program, sim, SUFFIX["emis"]))]
    if f.get("est") is not None:
        out.append(("est", sim_file_name(program, sim, SUFFIX["est"])))
    if f.get("rep") is not None:
        out.append(("rep", sim_file_name(program, sim, SUFFIX["rep"])))
    for suf in world.get("extras", {}).get("%s|%d" % (program, sim), []):
        out.append(("other", sim_file_name(program, sim, suf)))
    return out


def write_sim_files(out_dir, world, program, sim):
    pdir = Path(out_dir) / program
    if not pdir.exists():
        os.mkdir(pdir)
    f = world["files"]["%s|%d" % (program, sim)]
    written = []
    st = world.get("format_seed", 0)
    rows = [["2020-01-%02d" % (i % 28 + 1)] + list(r) for i, r in enumerate(f["ts"])]
    write_csv(pdir / sim_file_name(program, sim, SUFFIX["ts"]), TS_FILE_COLS, rows, "ts", st)
    written.append(("ts", sim_file_name(program, sim, SUFFIX["ts"])))
    rows = [[i, r[0], r[1], r[2], _b(r[3]), r[4], r[5], _d(r[6]), _d(r[7])] for i, r in enumerate(f["emis"])]
    write_csv(pdir / sim_file_name(program, sim, SUFFIX["emis"]), EMIS_FILE_COLS, rows, "emis", st)
    written.append(("emis", sim_file_name(program, sim, SUFFIX["emis"])))
    if f.get("est") is not None:
        rows = [[r[0], r[1], _b(r[2]), r[3], r[4], _d(r[5])] for r in f["est"]]
        write_csv(pdir / sim_file_name(program, sim, SUFFIX["est"]), EST_FILE_COLS, rows, "est", st)
        written.append(("est", sim_file_name(program, sim, SUFFIX["est"])))
    rep = f.get("rep")
    if rep is not None:
        name = sim_file_name(program, sim, SUFFIX["rep"])
        if rep == "EMPTY":
            open(pdir / name, "w").close()
        else:
            write_csv(pdir / name, REP_FILE_COLS, [[r[0], r[1], _d(r[2])] for r in rep], "rep", st)
        written.append(("rep", name))
    for suf in world.get("extras", {}).get("%s|%d" % (program, sim), []):
        name = sim_file_name(program, sim, suf)
        with open(pdir / name, "w") as fh:
            fh.write("x")
        written.append(("other", name))
    return written


# ----------------------------------------------------------------------------------------------
# permuting os.scandir
# ----------------------------------------------------------------------------------------------
_REAL_SCANDIR = os.scandir


class _Scan:
    def __init__(self, entries):
        self._e = entries

    def __enter__(self):
        return self

    def __exit__(self, *a):
        return False

    def __iter__(self):
        return iter(self._e)

    def __next__(self):  # pragma: no cover - iterator protocol completeness
        raise StopIteration

    def close(self):
        pass


@contextmanager
def permuted_scandir(rng, log, root, mode="shuffle"):
    """every os.scandir call under `root` returns the real entries in an order drawn independently
    per call (mode shuffle | sorted | reversed); the returned order is appended to `log`"""
    real = os.scandir

    def scandir(path="."):
        if isinstance(path, int):  # directory file descriptor (shutil.rmtree of unrelated temp dirs)
            return real(path)
        with real(path) as it:
            entries = list(it)
        p = os.path.abspath(os.fspath(path))
        if not p.startswith(root):
            return _Scan(entries)
        entries.sort(key=lambda e: e.name)
        if mode == "shuffle":
            rng.shuffle(entries)
        elif mode == "reversed":
            entries.reverse()
        log.append((p, [e.name for e in entries]))
        return _Scan(entries)

    os.scandir = scandir
    try:
        yield
    finally:
        os.scandir = real


# ----------------------------------------------------------------------------------------------
# the run
# ----------------------------------------------------------------------------------------------
def read_summary(path):
    """summary CSV as written by the real code -> list of {column: text}"""
    if not os.path.exists(path):
        return None
    with open(path, newline="") as fh:
        return list(csv.DictReader(fh))


_SHARED = {}


def shared_inputs(world):
    """the objects handed to SummaryOutputManager: ONE object per distinct value for the whole
    process (every manager built for an equal configuration gets the same dict / list), together
    with a pristine deep copy to compare with after the run"""
    import copy
    import json

    sw = world.get("summary_files") or {}
    key = json.dumps([world["programs"], world["econ"], world["years"], sw], sort_keys=True)
    if key not in _SHARED:
        programs = {p: {pdc.Program_Params.ECONOMICS: {pdc.Program_Params.GWP: world["econ"][p][0],
                                                       pdc.Program_Params.NATGAS: world["econ"][p][1]}}
                    for p in world["programs"]}
        cfg = output_config(sw.get("cost", True), sw.get("ts", True), sw.get("emis", True))
        live = (cfg, list(world["years"]), programs)
        _SHARED[key] = (live, copy.deepcopy(live))
    return _SHARED[key]


def period_of(world):
    """(start date, end date) of the simulated period; default: the whole calendar years of the world"""
    import datetime as _dt

    per = world.get("period")
    if per:
        return _dt.date.fromisoformat(per[0]), _dt.date.fromisoformat(per[1])
    return _dt.date(world["years"][0], 1, 1), _dt.date(world["years"][-1], 12, 31)


def real_simulation_years(start, end):
    """SimulationManager.calc_simulation_years (real) on a start and an end date"""
    class _S:
        pass

    st = _S()
    st.sim_start_date, st.sim_end_date = start, end
    SM.SimulationManager.calc_simulation_years(st)
    return list(st.simulation_years)


def class_state():
    """module- / class-level containers of the summary code (must not change during a process)"""
    from constants.file_processing_const import Multi_Sim_Output_Const as M
    from file_processing.output_processing.summary_output_mapper import SummaryOutputMapper as Mp

    def keys2(d):
        return {k: sorted(v) if isinstance(v, dict) else repr(v) for k, v in d.items()}

    return {
        "SUMMARY_MAPPINGS": keys2(Mp.SUMMARY_MAPPINGS), "YEARLY_MAPPINGS": keys2(Mp.YEARLY_MAPPINGS),
        "OUTPUT_FUNCTIONS_MAP": sorted(SummaryOutputManager.OUTPUT_FUNCTIONS_MAP),
        "mapper_defaults": repr(Mp.__init__.__defaults__),
        "patterns": [M.TS_PATTERN.pattern, M.EMIS_PATTERN.pattern, M.EST_PATTERN.pattern, M.EST_REP_PATTERN.pattern,
                     M.OUTPUTS_NAME_SIM_EXTRACTION_REGEX.pattern, M.OUTPUT_KEEP_STR, M.OUTPUT_KEEP_REGEX.pattern],
        "ts_columns": list(ofc.TS_SUMMARY_COLUMNS) if hasattr(ofc, "TS_SUMMARY_COLUMNS") else None,
    }


class _NoVis:
    def gen_visualizations(self):
        return None


class _StubManager:
    """the attributes SimulationManager.run_simulations / _run_simulations_debug /
    generate_summary_results read from `self`"""

    def __init__(self, world, out_dir, manager, hook):
        self.simulation_count = world["n"]
        self.keep_all_program_outputs = world["keep_all"]
        self.programs = {p: {pdc.Program_Params.ECONOMICS: None} for p in world["programs"]}
        self.base_program = world["baseline"]
        self.summary_stats_manager = manager
        self.summary_visualization_manager = _NoVis()
        self.sim_params = {pdc.Sim_Setting_Params.PROCESS: 2}
        self.out_dir = out_dir
        self._world = world
        self._out = out_dir
        self._hook = hook

    def _setup_programs(self, simulation_number, lock=None):
        # the write events are recorded here (parent process) so that both loops log alike
        for p in self._world["programs"]:
            self._hook("write", p, simulation_number, planned_files(self._world, p, simulation_number))
        return [(str(self._out), self._world, p, simulation_number) for p in self._world["programs"]]

    def _run_simulations_debug(self, sim_counts):
        return SM.SimulationManager._run_simulations_debug(self, sim_counts)

    def _run_simulation_multiprocessing(self, sim_counts):
        return SM.SimulationManager._run_simulation_multiprocessing(self, sim_counts)


def _fake_simulate(out_dir, world, program, sim):
    written = write_sim_files(out_dir, world, program, sim)
    assert written == planned_files(world, program, sim)


def run_world(world, rng, mode="shuffle", out=None):
    """One run as ldar_sim_run does it: SimulationManager.initialize_outputs (real), then the batch
    loop, then the cost summary.  `out`: an output folder that is kept afterwards (a history of runs
    into the same folder); default: a fresh path that does not exist yet, removed afterwards.
    returns dict(events=[...], batches=[...], final={ts, emis, cost}, error=None|str)
    events, in order:  ("write", program, sim, [(kind, name), ...])
                       ("gen", clear_flag, [(path, [names...]), ...] scandir log of that call,
                        snapshot {ts: rows, emis: rows, dirs: {program: sorted names}})
                       ("gen-crash", clear_flag, exception name)  the call raised; the run stops
    error: "gen:<Exception>" when gen_summary_outputs raised, "cost:<Exception>" when the cost
    summary raised"""
    tmp = None
    if out is None:
        tmp = tempfile.mkdtemp(prefix="c14_")
        out = Path(tmp) / "out"
    out = Path(out)
    events = []
    log = []
    try:
        (cfg, years, programs), pristine = shared_inputs(world)

        def hook(*ev):
            events.append(tuple(ev))

        # the year list is computed by the real code from the configured dates and handed to the summary
        # managers by the real wiring (calc_simulation_years -> initialize_summary_managers)
        stub = _StubManager(world, out, None, hook)
        start, end = period_of(world)
        stub.sim_start_date, stub.sim_end_date = start, end
        stub.output_params = cfg
        stub.programs = programs
        stub.virtual_world = {pdc.Virtual_World_Params.N_SITES: 1}
        SM.SimulationManager.calc_simulation_years(stub)
        real_years = list(stub.simulation_years)
        SM.SimulationManager.initialize_summary_managers(stub)
        stub.summary_visualization_manager = _NoVis()
        manager = stub.summary_stats_manager
        real_gen = manager.gen_summary_outputs

        def snapshot():
            dirs = {}
            for p in world["programs"]:
                d = out / p
                dirs[p] = sorted(os.listdir(d)) if d.exists() else None
            top = sorted((e.name + ("/" if e.is_dir() else "")) for e in _REAL_SCANDIR(out)) if out.exists() else []
            return {"ts": read_summary(out / (Output_Files.SummaryFileNames.TS_SUMMARY + ".csv")),
                    "emis": read_summary(out / (Output_Files.SummaryFileNames.EMIS_SUMMARY + ".csv")),
                    "dirs": dirs, "top": top}

        def gen(clear_outputs=False):
            start = len(log)
            try:
                real_gen(clear_outputs)
            except Exception as e:
                events.append(("gen-crash", bool(clear_outputs), type(e).__name__))
                raise
            calls = [(os.path.relpath(p, str(out)), names) for (p, names) in log[start:]]
            events.append(("gen", bool(clear_outputs), calls, snapshot()))

        manager.gen_summary_outputs = gen
        saved_sim = SM.simulate
        SM.simulate = _fake_simulate
        error = None
        import contextlib
        import io

        try:
            with permuted_scandir(rng, log, str(out), mode), contextlib.redirect_stdout(io.StringIO()):
                try:
                    SM.SimulationManager.initialize_outputs(stub, input_manager=None, write_parameters=False)
                    if world.get("logs", True):  # what setup_logging_to_output / write_parameters leave there
                        os.makedirs(out / "Logs", exist_ok=True)
                        with open(out / Output_Files.PARAMETER_FILE, "w") as fh:
                            fh.write("x: 1\n")
                    SM.SimulationManager.run_simulations(stub, not world.get("multiprocessing", False))
                except Exception as e:
                    if events and events[-1][0] == "gen-crash":
                        error = "gen:%s" % type(e).__name__
                    else:  # anything else the batch loop raises: reported with the world, not exit 2
                        error = "run:%s: %s" % (type(e).__name__, str(e)[:200])
                if error is None:
                    try:
                        SM.SimulationManager.generate_summary_results(stub)
                    except Exception as e:  # the cost summary of a degenerate world
                        error = "cost:%s" % type(e).__name__
        finally:
            SM.simulate = saved_sim
        final = snapshot()
        final["cost"] = read_summary(out / (Output_Files.SummaryFileNames.COST_SUMMARY + ".csv"))
        mutated = [name for name, a, b in zip(("output_config", "sim_years", "programs"), (cfg, years, programs), pristine)
                   if a != b]
        return {"events": events, "final": final, "error": error, "mutated_inputs": mutated, "real_years": real_years,
                "batches": list(batch_simulations(world["n"]))}
    finally:
        if tmp is not None:
            shutil.rmtree(tmp, ignore_errors=True)


def run_history(worlds, rng, mode="shuffle", junk=None):
    """several runs, one after the other, into the SAME output folder (what re-running a parameter
    file does).  junk: optional {relative path: text} put into the folder before the first run (an
    arbitrary prior folder state: summary files of a foreign run, stale program folders, ...).
    returns the list of run_world results"""
    tmp = tempfile.mkdtemp(prefix="c14h_")
    out = Path(tmp) / "out"
    try:
        if junk is not None:
            os.makedirs(out)
            for rel, text in junk.items():
                path = out / rel
                os.makedirs(path.parent, exist_ok=True)
                with open(path, "w") as fh:
                    fh.write(text)
        return [run_world(w, rng, mode, out=out) for w in worlds]
    finally:
        shutil.rmtree(tmp, ignore_errors=True)
