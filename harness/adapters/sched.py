"""Drive the REAL scheduling classes of LDAR-Sim day by day (C06, C07).

Real objects used: scheduling.generic_schedule.GenericSchedule (through MobileSchedule),
StationarySchedule, FollowUpMobileSchedule, Workplan, utils.queue.PriorityQueueWithFIFO,
ScheduledSurveyPlanner / StationarySurveyPlanner / FollowUpSurveyPlanner, Method.deploy_crews /
Method.survey_site (base `Method`, as used by site-level methods) and
ComponentLevelMethod.deploy_crews / survey_site, Method.check_weather, SiteSurveyReport.
Duck-typed: the site (StubSite), the weather cube (StubWeather), the sensor sees no emissions.

The order of one simulated day is the one of Program.do_daily_program_deployment:
    workplan = schedule.get_workplan(date); method.deploy_crews(workplan, weather, daylight);
    schedule.update(workplan, date, False)
A *case* is a JSON-able dict (see `routine_case` / `followup_case` in harness/props/_sched_common).
A *trace* is a list with one dict per day holding what the model must reproduce:
    plan        site ids of the work plan in iteration order
    outcomes    per planned site: state in {C completed, P in progress, U unattended}, minutes
                surveyed today (only meaningful for C / P), minutes accumulated
    queue       canonical queue content [(class, rate, site)] in pop order (popped from a copy)
    planners    per site: queued flag, surveys done per year, active report (None | in-progress, minutes)
    crash       None | "key_error"
"""
from __future__ import annotations

import contextlib
import copy
import io
from datetime import date, timedelta

import numpy as np

from harness import shim

shim.install()

import constants.param_default_const as pdc  # noqa: E402
from programs.method import Method  # noqa: E402
from programs.component_level_method import ComponentLevelMethod  # noqa: E402
from scheduling.generic_schedule import GenericSchedule  # noqa: E402
from scheduling.mobile_schedule import MobileSchedule  # noqa: E402
from scheduling.stationary_schedule import StationarySchedule  # noqa: E402
from scheduling.follow_up_mobile_schedule import FollowUpMobileSchedule  # noqa: E402
from scheduling.follow_up_survey_planner import FollowUpSurveyPlanner  # noqa: E402
from scheduling.scheduled_survey_planner import ScheduledSurveyPlanner  # noqa: E402
from scheduling.surveying_dataclasses import DetectionRecord  # noqa: E402
from scheduling.workplan import Workplan  # noqa: E402
from utils.queue import PriorityQueueWithFIFO  # noqa: E402

MP = pdc.Method_Params
METHOD = "M"

# names used for the current case: the model works with site indices 1..n and one method; the real classes
# get whatever names the case asks for (underscores, digits, prefixes of each other, marker-like names)
_CUR = {"method": METHOD, "to_idx": {}, "to_name": {}}


def set_names(case):
    _CUR["method"] = case.get("method_name") or METHOD
    names = case.get("site_names") or {}
    _CUR["to_name"] = {int(k): str(v) for k, v in names.items()}
    _CUR["to_idx"] = {str(v): int(k) for k, v in names.items()}


def M():
    return _CUR["method"]


def IDX(x):
    """real site id -> index used by the model / the traces"""
    x = str(x)
    return _CUR["to_idx"][x] if x in _CUR["to_idx"] else int(x)


def NAME(i):
    """index -> real site id"""
    return _CUR["to_name"].get(int(i), str(i))



# ------------------------------------------------------------------------------------------------
# stubs for the collaborators
# ------------------------------------------------------------------------------------------------
class StubSite:
    """what Method / ComponentLevelMethod / the schedules use of virtual_world.sites.Site"""

    def __init__(self, sid, freq, deploy, months, years, survey_time, cost=0.0, method=None, widx=0):
        method = method or M()
        self._site_ID = NAME(sid)
        self._survey_frequencies = {method: freq}
        self._deploy_method = {method: deploy}
        self._deployment_months = {method: list(months)}
        self._deployment_years = {method: list(years)}
        self._survey_time = {method: survey_time}
        self._survey_costs = {method: cost}
        self._latest_tagging_survey_date = date(1900, 1, 1)
        self._widx = widx
        self.visits = []  # (date) of completed surveys as seen by the sensor call

    def get_id(self):
        return self._site_ID

    def get_required_surveys(self, m):
        return self._survey_frequencies[m] or 1

    def get_method_survey_time(self, m):
        return self._survey_time[m]

    def get_survey_cost(self, m):
        return self._survey_costs[m]

    def do_site_deployment(self, m):
        return self._deploy_method[m]

    def get_detectable_emissions(self, method_name):
        return {}

    def get_latest_tagging_survey_date(self):
        return self._latest_tagging_survey_date

    def set_latest_tagging_survey_date(self, d):
        self._latest_tagging_survey_date = d

    def get_weather_lat(self):
        return self._widx

    def get_weather_long(self):
        return 0

    def tag_emissions_at_component(self, *a, **k):
        return None


class StubWeather:
    """the attributes Method.get_weather_segment reads: temps / winds / precip[hour-range, lat, long];
    a site-day is workable iff ok[day_of_year][site_widx]; the real check_weather does the comparison
    against the method's envelopes"""

    def __init__(self, nsites):
        n = 367 * 24
        self.temps = np.full((n, max(nsites, 1), 1), 10.0)
        self.winds = np.full((n, max(nsites, 1), 1), 1.0)
        self.precip = np.full((n, max(nsites, 1), 1), 0.0)
        self.bad = set()

    def set_bad(self, d: date, widx=None):
        t = d.timetuple().tm_yday - 1
        doy0 = (d - date(d.year, 1, 1)).days  # kept separately for the oracle (not read from the arrays)
        for w in (range(self.winds.shape[1]) if widx is None else [widx]):
            self.bad.add((doy0, w))
        if widx is None:
            self.winds[t * 24:(t + 1) * 24, :, 0] = 99.0
        else:
            self.winds[t * 24:(t + 1) * 24, widx, 0] = 99.0


def method_properties(deployment_type, follow_up, crews, travel, hours, per_day=0.0, per_site=0.0, daylight=False):
    return {
        MP.DEPLOYMENT_TYPE: deployment_type,
        MP.SENSOR: {MP.TYPE: "default", MP.MDL: 1.0,
                    MP.QE: {MP.QUANTIFICATION_PARAMETERS: [0, 0], MP.Q_TYPE: "default"}},
        MP.MAX_WORKDAY: hours,
        MP.CONSIDER_DAYLIGHT: bool(daylight),
        MP.WEATHER_ENVS: {MP.TEMP: [-50, 50], MP.WIND: [0, 10], MP.PRECIP: [0, 1]},
        MP.IS_FOLLOW_UP: follow_up,
        MP.T_BW_SITES: {pdc.Common_Params.VAL: travel},
        MP.REPORTING_DELAY: 0,
        MP.N_CREWS: crews,
        MP.COST: {MP.UPFRONT: 0.0, MP.PER_DAY: per_day, MP.PER_SITE: per_site},
    }


def make_method(cls_name, deployment_type, follow_up, crews, travel, hours, sites, consider_weather=True,
                daylight=False):
    props = method_properties(deployment_type, follow_up, crews, travel, hours, daylight=daylight)
    klass = {"site": Method, "component": ComponentLevelMethod}[cls_name]
    with contextlib.redirect_stdout(io.StringIO()):  # crew-shortage warnings are printed
        return klass(M(), props, consider_weather, sites, None)


def D(t):
    return date(t[0], t[1], t[2])


# ------------------------------------------------------------------------------------------------
# observation helpers (never mutate the observed objects)
# ------------------------------------------------------------------------------------------------
def queue_content(schedule):
    """canonical queue content in pop order, taken from a copy of the heap"""
    heap = sorted(schedule._survey_queue.queue)  # entries (priority, counter, item); counter unique
    out = []
    for prio, _cnt, plan in heap:
        if isinstance(prio, tuple):
            cls, rate = prio
        else:
            cls, rate = prio, 0
        out.append([int(cls), int(rate) if float(rate).is_integer() else rate, IDX(plan.get_site().get_id())])
    return out


def counter_value(q):
    """number of puts this queue object has seen (next value of its itertools.count, read from the repr)"""
    r = repr(q.counter)
    try:
        return int(r[r.index("(") + 1:r.index(")")])
    except ValueError:  # a counter of an unexpected shape: the number of puts is then not observable
        return 0


def queue_pop_order_check(schedule):
    """pop order of a *copy* equals the sorted heap list (the model's canonical form)"""
    q2 = PriorityQueueWithFIFO()
    q2.queue = list(schedule._survey_queue.queue)
    popped = []
    while not q2.empty():
        popped.append(q2.get())
    return [(p, c) for p, c, _ in popped] == [(p, c) for p, c, _ in sorted(schedule._survey_queue.queue)]


def MN(x):
    """a minute value of the real objects, exactly: int when integral, else the (dyadic) float itself -- never
    truncated (fractional daylight hours give fractional minutes)"""
    from fractions import Fraction

    f = Fraction(x)
    return int(f) if f.denominator == 1 else float(f)


class StubDaylight:
    """what Method.get_daylight_hours reads: daylight hours of a date (may be fractional)"""

    def __init__(self, hours):
        self.hours = hours

    def get_daylight(self, d):
        return self.hours


def report_state(rep):
    if rep is None:
        return None
    return [1 if rep.survey_in_progress else 0, MN(rep.time_surveyed)]


def planner_state(pl, years):
    if isinstance(pl, ScheduledSurveyPlanner):
        done = [[y, pl._surveys_this_year[y].Surveys_done] for y in sorted(pl._surveys_this_year)]
        queued = 1 if pl._queued else 0
    else:
        done = [[y, n] for y, n in sorted(pl._surveys_this_year.items())]
        queued = None
    return {"site": IDX(pl.get_site().get_id()), "queued": queued, "done": done,
            "report": report_state(pl._active_survey_report)}


# ------------------------------------------------------------------------------------------------
# routine / stationary schedules
# ------------------------------------------------------------------------------------------------
def build_routine(case):
    set_names(case)
    sites = [StubSite(s["id"], s["freq"], s["deploy"], s["months"], s["years"], s["S"], widx=i)
             for i, s in enumerate(case["sites"])]
    start, end = D(case["start"]), D(case["end"])
    stationary = case["kind"] == "stationary"
    dep = pdc.Deployment_Types.STATIONARY if stationary else pdc.Deployment_Types.MOBILE
    method = make_method(case.get("method_class", "site"), dep, False, case["crews"], case["T"],
                         case["hours"], sites, daylight=case.get("daylight") is not None)
    case["_crews_used"] = method.get_crew_count()
    case["_crew_reports"] = len(method._crew_reports)
    case["_crews_estimate"] = None if stationary else documented_crew_estimate(case)
    if stationary:
        # scheduling_utils.create_schedule: est_meth_daily_surveys = len(sites)
        case["_cap_used"] = len(sites)
        sched = StationarySchedule(M(), sites, start, end, len(sites), method.get_crew_count())
    else:
        cap = case["cap"] if case.get("cap") is not None else method.estimate_average_daily_surveys()
        case["_cap_used"] = cap
        case["_cap_method"] = method.estimate_average_daily_surveys()   # what the real Method would hand to its schedule
        case["_cap_documented"] = documented_daily_surveys(case)
        sched = MobileSchedule(M(), sites, start, end, cap, method.get_crew_count())
    weather = StubWeather(len(sites))
    return sites, method, sched, weather


def documented_daily_surveys(case):
    """surveys one crew is planned for per day as documented: ceil(workday minutes / average (survey + travel)
    minutes over the sites) -- from the configuration only"""
    import math

    t = case["T"]
    if isinstance(t, list):
        t = sum(t) / len(t)
    avg_s = sum(s["S"] + t for s in case["sites"]) / len(case["sites"])
    return math.ceil(case["hours"] * 60 / avg_s)


def documented_crew_estimate(case):
    """the year-round crew estimate as documented for a method without a configured crew count, computed from
    the configuration only: ceil(#sites / (sites per crew-day x days between two surveys of a site))"""
    import math

    n = len(case["sites"])
    t = case["T"]
    if isinstance(t, list):
        t = sum(t) / len(t)
    avg_s = sum(s["S"] + t for s in case["sites"]) / n
    avg_req = sum((s.get("freq") or 1) for s in case["sites"]) / n
    per_day = (case["hours"] * 60 - t) / avg_s
    return math.ceil(n / (per_day * (365 / avg_req)))


def shared_input_check(case):
    """several real schedules (and methods) built from ONE list of site objects and ONE properties source:
    (a) the planners they hold must be equal, (b) the shared input must be deep-equal before and after.
    Returns (static of first, static of second, list of input attributes that changed)"""
    set_names(case)
    sites = [StubSite(s["id"], s.get("freq"), s.get("deploy", True), s.get("months", list(range(1, 13))),
                      s.get("years", []), s["S"], widx=i) for i, s in enumerate(case["sites"])]
    attrs = ("_survey_frequencies", "_deploy_method", "_deployment_months", "_deployment_years", "_survey_time",
             "_survey_costs")
    snap = [copy.deepcopy({a: getattr(st, a) for a in attrs}) for st in sites]
    start, end = D(case["start"]), D(case["end"])
    stationary = case["kind"] == "stationary"
    dep = pdc.Deployment_Types.STATIONARY if stationary else pdc.Deployment_Types.MOBILE
    statics = []
    for _ in range(2):
        method = make_method(case.get("method_class", "site"), dep, case["kind"] == "followup", case["crews"],
                             case["T"], case["hours"], sites)
        klass = StationarySchedule if stationary else (FollowUpMobileSchedule if case["kind"] == "followup" else MobileSchedule)
        sched = klass(M(), sites, start, end, case.get("cap") or 1, method.get_crew_count())
        statics.append(planner_static(sched))
    changed = []
    for st, before in zip(sites, snap):
        for a in attrs:
            if getattr(st, a) != before[a]:
                changed.append([st.get_id(), a, before[a], getattr(st, a)])
    return statics[0], statics[1], changed


def plan_dates(sched):
    """the evenly spaced plan of every planner as [(month, day)] (None for stationary planners)"""
    out = []
    for pl in sched._survey_plans:
        sp = pl.get_survey_plan()
        out.append(None if sp is None else [[d.month, d.day] for d in sp])
    return out


def planner_static(sched):
    out = []
    for pl in sched._survey_plans:
        sp = pl.get_survey_plan()
        out.append({
            "site": IDX(pl.get_site().get_id()),
            "rs": int(pl._site_annual_rs),
            "months": list(pl._deployment_months),
            "dep_years": list(pl._deployment_years),
            "sim_years": list(pl._sim_years),
            "plan": [] if sp is None else [[d.month, d.day] for d in sp],
            "S": int(pl.get_site().get_method_survey_time(M())),
        })
    return out


def run_routine(case, forced=None):
    """returns (static, trace).  `weather` in the case: list per day of either 1/0 (all sites) or a
    list of 1/0 per site.  `forced` (C06 loops): dict day_index -> {site: 'C'|'U'} replaces the crew
    deployment by writing the outcome into the real report (the real schedule / planner / queue /
    work plan still do everything else)."""
    sites, method, sched, weather = build_routine(case)
    static = planner_static(sched)
    if forced is not None and not isinstance(forced, dict):
        fd = {}
        for k, sid, st in forced:  # list of [day, site, state]; everything not listed completes
            fd.setdefault(int(k), {})[int(sid)] = st
        forced = fd
    start = D(case["start"])
    wm = case.get("weather") or []
    for k, w in enumerate(wm):
        d = start + timedelta(days=k)
        if isinstance(w, list):
            for i, ok in enumerate(w):
                if not ok:
                    weather.set_bad(d, i)
        elif not w:
            weather.set_bad(d)
    years = None
    trace = []
    for k in range(case["ndays"]):
        cur = start + timedelta(days=k)
        rec = {"date": [cur.year, cur.month, cur.day], "crash": None}
        # the weather input as the real check_weather will index it (day of year, hour 8, the site's cell)
        doy0 = (cur - date(cur.year, 1, 1)).days
        rec["workable"] = [0 if (doy0, s_._widx) in weather.bad else 1 for s_ in sites]
        try:
            qflag = [pl._queued for pl in sched._survey_plans]
            qlen = sched._survey_queue.qsize()
            puts0 = counter_value(sched._survey_queue)
            wp = sched.get_workplan(cur)
            rec["n_puts"] = counter_value(sched._survey_queue) - puts0
            rec["issued"] = [IDX(pl.get_site().get_id()) for pl, was in zip(sched._survey_plans, qflag)
                             if pl._queued and not was]
            rec["plan"] = [IDX(x) for x in wp.site_survey_planners.keys()]
            # number of entries popped = queue before + issued - queue after
            rec["n_taken"] = qlen + rec["n_puts"] - sched._survey_queue.qsize()
            rec["queue_after_take"] = queue_content(sched)
            before = {sid: report_state(pl._active_survey_report) for sid, pl in wp.site_survey_planners.items()}
            if forced is not None:
                _forced_deploy(wp, forced.get(k, {}), cur, method)
            else:
                method.deploy_crews(wp, weather, None if case.get("daylight") is None else StubDaylight(case["daylight"]))
            reports, planners = wp.get_reports()
            rec["reports"] = sorted(IDX(x) for x in reports.keys())
            outs = []
            for sid, pl in planners.items():
                rep = reports.get(sid)
                if rep is None:
                    outs.append([IDX(sid), "?", 0, 0, 0])
                    continue
                b = before[sid]
                prev = 0 if b is None else b[1]
                if rep.survey_complete:
                    st = "C"
                elif rep.survey_in_progress and MN(rep.time_surveyed) != prev:
                    st = "P"
                elif rep.survey_in_progress and b is not None and b[0] == 1:
                    st = "U"  # in progress since an earlier day, not touched today
                elif rep.survey_in_progress:
                    st = "P"  # became in progress today with 0 minutes (possible when R == 2T+0?)
                else:
                    st = "U"
                today = MN(MN(rep.time_surveyed) - prev)
                outs.append([IDX(sid), st, today, MN(rep.time_surveyed),
                             MN(rep.time_surveyed_current_day)])
            rec["outcomes"] = outs
            returned = sched.update(wp, cur, False)
            # the survey reports the schedule hands back to the program: (site, completion date)
            rec["completed_reports"] = [
                [IDX(r.site_id), None if r.survey_completion_date is None else
                 [r.survey_completion_date.year, r.survey_completion_date.month, r.survey_completion_date.day]]
                for r in returned]
        except KeyError:
            rec["crash"] = "key_error"
            trace.append(rec)
            break
        except Exception as e:  # any other exception of the code under test ends the simulation too
            rec["crash"] = type(e).__name__
            trace.append(rec)
            break
        rec["queue"] = queue_content(sched)
        rec["heap_ok"] = queue_pop_order_check(sched)
        rec["planners"] = [planner_state(pl, years) for pl in sched._survey_plans]
        trace.append(rec)
    return static, trace


def _forced_deploy(wp, outcome, cur, method):
    """C06 multi-year loops: the day's outcome is an input.  Mirrors what deploy_crews leaves behind:
    one report per planned request (created by the planner's own get_current_survey_report)."""
    for sid, pl in wp.site_survey_planners.items():
        rep = pl.get_current_survey_report()
        st = outcome.get(IDX(sid), "C")
        if st == "C":
            if not rep.survey_in_progress:
                rep.survey_start_date = cur
            rep.survey_completion_date = cur
            rep.survey_complete = True
            rep.survey_in_progress = False
            rep.time_surveyed_current_day = pl.get_site().get_method_survey_time(M()) - rep.time_surveyed
            rep.time_surveyed = pl.get_site().get_method_survey_time(M())
        elif st == "P":
            if not rep.survey_in_progress:
                rep.survey_start_date = cur
            rep.survey_in_progress = True
            rep.time_surveyed_current_day = 1
            rep.time_surveyed += 1
        wp.add_survey_report(rep, pl)


# ------------------------------------------------------------------------------------------------
# follow-up schedule
# ------------------------------------------------------------------------------------------------
def run_followup(case, ops_fn=None):
    """case['ops'] is a list per day of operations executed *before* the day's deployment (this is
    where the screening method's update runs relative to the follow-up method, see
    Program._init_methods_and_schedules: follow-up methods are deployed last):
        ["add", cls, site, rate]      schedule.add_to_survey_queue (3) / add_previous_queued (2) of a
                                      new FollowUpSurveyPlanner (first flag of the site)
        ["redetect", site, rate, cls] what SiteLevelMethod.update_mobile does for a site already in
                                      the follow-up queue: get_plan_from_queue, update_with_latest_survey
                                      ('recent' filter), then add_previous_queued (cls 2) /
                                      add_to_survey_queue (cls 3) / dropped (cls 0)
    """
    set_names(case)
    sites = [StubSite(s["id"], None, True, list(range(1, 13)), [], s["S"], widx=i)
             for i, s in enumerate(case["sites"])]
    by_id = {s.get_id(): s for s in sites}
    start, end = D(case["start"]), D(case["end"])
    method = make_method(case.get("method_class", "component"), pdc.Deployment_Types.MOBILE, True,
                         case["crews"], case["T"], case["hours"], sites, daylight=case.get("daylight") is not None)
    cap = case["cap"] if case.get("cap") is not None else method.estimate_average_daily_surveys()
    case["_cap_used"] = cap
    case["_cap_method"] = method.estimate_average_daily_surveys()
    case["_cap_documented"] = documented_daily_surveys(case)
    sched = FollowUpMobileSchedule(M(), sites, start, end, cap, method.get_crew_count())
    flags = sched.get_site_id_queue_list()
    weather = StubWeather(len(sites))
    wm = case.get("weather") or []
    for k, w in enumerate(wm):
        if not w:
            weather.set_bad(start + timedelta(days=k))
    trace = []
    totals = {IDX(s_.get_id()): 0 for s_ in sites}
    for k in range(case["ndays"]):
        cur = start + timedelta(days=k)
        rec = {"date": [cur.year, cur.month, cur.day], "crash": None, "ops": []}
        if ops_fn is not None:
            while len(case["ops"]) <= k:
                case["ops"].append([])
            case["ops"][k] = ops_fn(k, sorted(IDX(s_) for s_, v in flags.items() if v))
        for op in (case["ops"][k] if k < len(case["ops"]) else []):
            if op[0] == "add":
                _, cls, sid, rate = op
                rec_ = DetectionRecord(NAME(sid), by_id[NAME(sid)], float(rate))
                pl = FollowUpSurveyPlanner(rec_, cur)
                if cls == 3:
                    sched.add_to_survey_queue(pl)
                else:
                    sched.add_previous_queued_to_survey_queue(pl)
                flags[NAME(sid)] = True
                rec["ops"].append(["add", cls, sid, rate, queue_content(sched)])
            elif op[0] == "redetect":
                _, sid, rate, cls = op
                pl = sched.get_plan_from_queue(NAME(sid))
                if pl is None:
                    rec["ops"].append(["redetect-miss", sid, rate, cls, queue_content(sched)])
                    continue
                pl.update_with_latest_survey(DetectionRecord(NAME(sid), by_id[NAME(sid)], float(rate)),
                                             "recent", M(), cur)
                if cls == 2:
                    sched.add_previous_queued_to_survey_queue(pl)
                elif cls == 3:
                    sched.add_to_survey_queue(pl)
                else:
                    flags[NAME(sid)] = False
                rec["ops"].append(["redetect", sid, rate, cls, queue_content(sched)])
        rec["queue_before"] = queue_content(sched)
        try:
            wp = sched.get_workplan(cur)
        except Exception as e:  # an exception of the code under test ends the simulation
            rec["crash"] = "key_error" if isinstance(e, KeyError) else type(e).__name__
            trace.append(rec)
            break
        rec["plan"] = [IDX(x) for x in wp.site_survey_planners.keys()]
        rec["queue_after_take"] = queue_content(sched)
        rec["n_taken"] = len(rec["queue_before"]) - len(rec["queue_after_take"])
        rec["issued"] = []
        before = {sid: report_state(pl._active_survey_report) for sid, pl in wp.site_survey_planners.items()}
        prior_counts = {IDX(sid): sum(pl._surveys_this_year.values()) for sid, pl in wp.site_survey_planners.items()}
        try:
            method.deploy_crews(wp, weather, None if case.get("daylight") is None else StubDaylight(case["daylight"]))
        except Exception as e:
            rec["crash"] = "key_error" if isinstance(e, KeyError) else type(e).__name__
            trace.append(rec)
            break
        reports, planners = wp.get_reports()
        rec["reports"] = sorted(IDX(x) for x in reports.keys())
        outs = []
        for sid, pl in planners.items():
            rep = reports.get(sid)
            if rep is None:
                outs.append([IDX(sid), "?", 0, 0, 0])
                continue
            b = before[sid]
            prev = 0 if b is None else b[1]
            if rep.survey_complete:
                st = "C"
            elif rep.survey_in_progress and (MN(rep.time_surveyed) != prev or not (b and b[0] == 1)):
                st = "P"
            else:
                st = "U"
            outs.append([IDX(sid), st, MN(MN(rep.time_surveyed) - prev), MN(rep.time_surveyed),
                         MN(rep.time_surveyed_current_day)])
        rec["outcomes"] = outs
        try:
            sched.update(wp, cur, False)
        except Exception as e:
            rec["crash"] = "key_error" if isinstance(e, KeyError) else type(e).__name__
            trace.append(rec)
            break
        # real completion counters of the planner objects (SurveyPlanner._surveys_this_year)
        rec["real_done"] = sorted([IDX(sid), sorted([y, n] for y, n in pl._surveys_this_year.items())]
                                  for sid, pl in planners.items())
        rec["queue"] = queue_content(sched)
        rec["heap_ok"] = queue_pop_order_check(sched)
        rec["flags"] = sorted(IDX(s) for s, v in flags.items() if v)
        # outstanding planners' reports
        rec["planners"] = sorted(
            [[IDX(pl.get_site().get_id()), report_state(pl._active_survey_report)]
             for _p, _c, pl in sched._survey_queue.queue], key=lambda x: x[0])
        rec["done"] = sorted([int(sid), sum(planners[NAME(sid)]._surveys_this_year.values())]
                             for sid, st, *_ in outs if st == "C")
        for sid, st, *_ in outs:
            # cumulative completions per site, read from the REAL counter of the planner object that was
            # planned today (a planner that completed has {year: 1}; one that did not has {})
            totals[int(sid)] += sum(planners[NAME(sid)]._surveys_this_year.values()) - prior_counts.get(int(sid), 0)
        rec["totals"] = dict(totals)
        trace.append(rec)
    return trace


# ------------------------------------------------------------------------------------------------
# the real plan-date generator (C06 plan hypothesis)
# ------------------------------------------------------------------------------------------------
def real_plan(months, freq):
    """(month, day, year) of every plan date produced by the real `_generate_evenly_spaced_dates`
    (through a real ScheduledSurveyPlanner); raises whatever the real code raises"""
    set_names({})
    site = StubSite(1, freq, True, months, [], 60)
    pl = ScheduledSurveyPlanner(site, freq, date(2024, 1, 1), date(2024, 12, 31), [], list(months))
    return [[d.month, d.day, d.year] for d in pl.get_survey_plan()]
