"""Drive the REAL follow-up work practice of LDAR-Sim with duck-typed stub sites.

Real objects used (nothing of the work practice is re-implemented here):
  programs.site_level_method.SiteLevelMethod       one per screening method: the real constructor,
                                                   the real Method.deploy_crews (which files the
                                                   DetectionRecord under the survey date), the real
                                                   update / update_mobile / update_stationary /
                                                   update_candidates_for_flags / _filter_candidates_by_proportion
  scheduling.follow_up_mobile_schedule.FollowUpMobileSchedule   the shared follow-up schedule (real queue,
                                                   get_workplan, update, get_plan_from_queue)
  scheduling.follow_up_survey_planner.*            the real planner objects (redundancy filters, rolling windows)
  programs.component_level_method.ComponentLevelMethod   the follow-up method: real deploy_crews / survey_site
                                                   (crew time budget decides complete / in progress /
                                                   unattended; a completed survey sets the site's latest
                                                   tagging survey date)
  scheduling.workplan.Workplan                     real
The binding of screening methods to the follow-up schedule is the one of programs/program.py:
the SiteLevelMethod receives the FollowUpMobileSchedule object of its follow-up method, and the day
order is the one of Program.do_daily_program_deployment (screening methods first, each:
workplan -> deploy_crews -> schedule.update -> method.update; follow-up methods last).

Stubs: StubSite (ids, survey time, latest tagging survey date), a stub sensor that writes the
scripted measured rate into the survey report (the real sensors are C05's subject).

A *history* is a JSON-able dict:
  {"nsites": n, "methods": [mparams...], "fu": {"crews": c, "workday": h, "times": [minutes per site]},
   "days": [ {"screen": [[method, site, num, den], ...], "tag": [site, ...]}, ... ],
   optional: "start": [y,m,d], "names": [screening method names], "fu_name", "ids": [site id strings]}
mparams = {"stationary","rd","delay","prop":[p,q],"thrFirst","thr":[p,q],"inst":[p,q]|None,
           "filter","sw","lw","sthr":[p,q],"lthr":[p,q]}
All rates / thresholds are rationals p/q handed to the real code as the double p/q; the grids are
chosen so that every value the code computes (sums, means over k entries) is the correctly rounded
double of a rational with a small denominator; `frac` recovers that rational *exactly* (it asserts
float(rational) == value, no tolerance).
"""
from __future__ import annotations

import io
import contextlib
from datetime import date, timedelta
from fractions import Fraction

from harness import shim

shim.install()

import constants.param_default_const as pdc  # noqa: E402
from programs.site_level_method import SiteLevelMethod  # noqa: E402
from programs.component_level_method import ComponentLevelMethod  # noqa: E402
from scheduling.follow_up_mobile_schedule import FollowUpMobileSchedule  # noqa: E402
from scheduling.survey_planner import SurveyPlanner  # noqa: E402
from scheduling.workplan import Workplan  # noqa: E402

SIM_START = date(2022, 1, 1)
MP = pdc.Method_Params


def frac(x):
    """the unique rational with denominator <= 10^6 whose correctly rounded double is x"""
    if isinstance(x, int):
        return Fraction(x)
    x = float(x)
    f = Fraction(x).limit_denominator(10 ** 6)
    if float(f) != x:
        raise AssertionError(f"rate {x!r} is not the double of a small rational")
    return f


def fs(fr):
    fr = Fraction(fr)
    return "%d/%d" % (fr.numerator, fr.denominator)


class StubSite:
    def __init__(self, sid, names, fu_time, fu_name="FU", start=SIM_START, scr_times=None):
        self._id = sid
        self._latest = start
        self._fu_time = fu_time
        self._fu_name = fu_name
        self._scr_times = scr_times or {}
        self._survey_frequencies = {n: None for n in names}
        self._deployment_years = {n: [] for n in names}
        self._deployment_months = {n: list(range(1, 13)) for n in names}
        self.tag_log = []

    def get_id(self):
        return self._id

    def get_required_surveys(self, name):
        return 1

    def get_method_survey_time(self, name):
        return self._fu_time if name == self._fu_name else self._scr_times.get(name, 10)

    def get_survey_cost(self, name):
        return 0

    def do_site_deployment(self, name):
        return True

    def get_detectable_emissions(self, method_name=None):
        return {}

    def get_latest_tagging_survey_date(self):
        return self._latest

    def set_latest_tagging_survey_date(self, d):
        self._latest = d
        self.tag_log.append(d)


class ScriptedSensor:
    """stands in for the site-level sensor: the measured rate of today's survey is scripted"""

    def __init__(self):
        self.rates = {}

    def detect_emissions(self, site, meth_name, survey_report):
        survey_report.site_measured_rate = self.rates.get(site.get_id(), 0.0)
        return True


class NullSensor:
    def detect_emissions(self, site, meth_name, survey_report):
        return False


def _base_props(deployment, is_fu, rd, crews, workday, travel=0):
    return {
        MP.DEPLOYMENT_TYPE: deployment,
        MP.MEASUREMENT_SCALE: "component" if is_fu else "site",
        MP.SENSOR: {MP.TYPE: "default", MP.MDL: 0.0,
                    MP.QE: {MP.QUANTIFICATION_PARAMETERS: [0.0, 0.0], MP.Q_TYPE: "default"}},
        MP.MAX_WORKDAY: workday,
        MP.CONSIDER_DAYLIGHT: False,
        MP.WEATHER_ENVS: {MP.TEMP: [-100, 100], MP.WIND: [0, 100], MP.PRECIP: [0, 100]},
        MP.IS_FOLLOW_UP: is_fu,
        MP.T_BW_SITES: {pdc.Common_Params.VAL: travel},
        MP.REPORTING_DELAY: rd,
        MP.N_CREWS: crews,
        MP.COST: {MP.UPFRONT: 0, MP.PER_DAY: 0, MP.PER_SITE: 0},
    }


def screening_props(mp, fu_name="FU"):
    scr = mp.get("scr") or {}
    pr = _base_props("stationary" if mp["stationary"] else "mobile", False, mp["rd"], 1,
                     scr.get("workday", 24), scr.get("travel", 0))
    inst = mp.get("inst")
    pr[MP.FOLLOW_UP] = {
        MP.PREFERRED_METHOD: fu_name,
        MP.INTERACTION_PRIORITY: "threshold" if mp["thrFirst"] else "proportion",
        MP.DELAY: mp["delay"],
        MP.PROPORTION: float(Fraction(*mp["prop"])),
        MP.INSTANT_THRESHOLD: None if inst is None else float(Fraction(*inst)),
        MP.REDUNDANCY_FILTER: mp["filter"],
        MP.THRESHOLD: float(Fraction(*mp["thr"])),
    }
    pr[MP.ROLLING_AVRG] = {
        MP.SMALL_WINDOW: mp["sw"], MP.LARGE_WINDOW: mp["lw"],
        MP.SMALL_WINDOW_THRESHOLD: float(Fraction(*mp["sthr"])),
        MP.LARGE_WINDOW_THRESHOLD: float(Fraction(*mp["lthr"])),
    }
    return pr


class World:
    """the real objects of one program: k screening methods bound to one follow-up method.
    Optional keys of the history: "start" [y,m,d] (first simulated day), "names" (screening method
    names), "fu_name", "ids" (site id strings, in site order), fu["travel"] (time between sites).
    Everything reported (logs, snapshots, dump) uses site *indices* and the labels M<i> / FU, whatever
    the real names are; dates are reported as day numbers relative to the start, computed here from
    the real `date` objects."""

    def __init__(self, hist, props=None):
        self.hist = hist
        n = hist["nsites"]
        k = len(hist["methods"])
        self.start = date(*hist["start"]) if hist.get("start") else SIM_START
        self.labels = ["M%d" % i for i in range(k)]
        self.mnames = list(hist.get("names") or self.labels)
        self.fu_name = hist.get("fu_name") or "FU"
        self.sid = list(hist.get("ids") or ["s%d" % i for i in range(n)])
        self.idx = {sid: i for i, sid in enumerate(self.sid)}
        names = self.mnames + [self.fu_name]
        fu = hist["fu"]
        scr_times = {nm: (mp.get("scr") or {}).get("time", 10) for nm, mp in zip(self.mnames, hist["methods"])}
        self.sites = [StubSite(self.sid[i], names, fu["times"][i], self.fu_name, self.start, scr_times)
                      for i in range(n)]
        end = self.start + timedelta(days=len(hist["days"]) + 5)
        self.props = props if props is not None else [screening_props(mp, self.fu_name) for mp in hist["methods"]]
        sink = io.StringIO()
        with contextlib.redirect_stdout(sink):
            # program.py: follow-up methods and their schedules are created first
            self.fu_method = ComponentLevelMethod(
                self.fu_name, _base_props("mobile", True, 0, fu["crews"], fu["workday"], fu.get("travel", 0)),
                False, self.sites, "")
            self.cap = self.fu_method.estimate_average_daily_surveys()
            self.fu_schedule = FollowUpMobileSchedule(
                self.fu_name, self.sites, self.start, end, self.cap, self.fu_method.get_crew_count())
            self.fu_method._sensor = NullSensor()
            # a routine tagging-capable (component-level) method: its completed surveys find nothing to tag
            # (every leak below its detection limit), the real survey_site stamps the site all the same
            self.tag_name = "OGI_routine" if "OGI_routine" not in names else "OGI_routine_x"
            for st_ in self.sites:
                st_._survey_frequencies[self.tag_name] = None
                st_._deployment_years[self.tag_name] = []
                st_._deployment_months[self.tag_name] = list(range(1, 13))
            self.tag_method = ComponentLevelMethod(
                self.tag_name, _base_props("mobile", False, 0, 1, 24), False, self.sites, "")
            self.tag_method._sensor = NullSensor()
            self.methods = []
            for nm, pr in zip(self.mnames, self.props):
                m = SiteLevelMethod(nm, pr, False, sites=self.sites,
                                    follow_up_schedule=self.fu_schedule, input_dir="")
                m._sensor = ScriptedSensor()
                self.methods.append(m)
        self.queue_log = []   # every put on the follow-up queue (observation only)
        self.visits = []      # every request planned by the follow-up method and what became of it
        self.fu_days = []     # queue content before each follow-up day and the plan taken from it
        self.decisions = []   # every call of _filter_candidates_by_proportion (observation only)
        self.ctx = "-"        # "decision" while update_candidates_for_flags runs
        self.who = "-"
        self.crash = None
        self.releases = []
        self.snaps = []
        self.tag_days = [[] for _ in range(n)]     # completion days of tagging-capable surveys per site, from the
        #                                            OBSERVED survey reports (whether or not anything was tagged)
        self.screen_log = []                       # every COMPLETED screening survey, from the survey reports
        self.carried = [dict() for _ in range(k)]  # screening surveys in progress: site -> (planner, rate)
        self._wrap_queue_puts()
        for i, m in enumerate(self.methods):
            self._wrap_method(i, m)
        self.today = None

    def day(self, i):
        return self.start + timedelta(days=i)

    def d2i(self, d):
        return None if d is None else (d - self.start).days

    # -- observation only: log every insertion into the follow-up queue ---------------------
    def _wrap_queue_puts(self):
        sched = self.fu_schedule
        world = self
        for attr, cls in (("add_to_survey_queue", 3), ("add_previous_queued_to_survey_queue", 2),
                          ("add_unfinished_to_survey_queue", 1)):
            orig = getattr(sched, attr)

            def wrapped(plan, _orig=orig, _cls=cls, _attr=attr):
                if world._nest == 0 and world.who.startswith("M") and id(plan) not in world.creator:
                    world.creator[id(plan)] = (world.who, plan)      # keeps the plan alive: ids stay unique
                if world._nest == 0:     # entry points may delegate to each other: log the outer call only
                    si = world.idx[plan.site_id]
                    world.queue_log.append({
                        "day": world.today, "site": si, "entry": _cls,
                        "rate": frac(plan.rate_at_site), "who": world.who, "ctx": world.ctx,
                        "latest": world.d2i(plan._latest_detection_date),
                        "rates": [frac(x) for x in plan._detected_rates],
                        "long": frac(getattr(plan, "rate_at_site_long", 0)),
                        "windows": (getattr(plan, "_small_window", None), getattr(plan, "_long_window", None)),
                        "tag": world.latest_tag(si),
                        "tag_attr": world.d2i(plan._site.get_latest_tagging_survey_date()),
                        # membership at the start of this update, read from the CONTENT of queue and pool
                        "was_queued": world.pre_queue_count.get(si, 0) > 0,
                        "was_pooled": si in world.pre_pool_sites,
                        "new_request": None,   # filled below: did the put add an entry for the site?
                        # the code's own flags at the same moment (only compared with the content)
                        "flag_queued": bool(world.pre_inq.get(plan.site_id, False)),
                        "flag_pooled": bool(world.pre_inpool.get(plan.site_id, False)),
                        "in_progress": bool(plan._active_survey_report is not None
                                            and plan._active_survey_report.survey_in_progress),
                    })
                outer = world._nest == 0
                world._nest += 1
                try:
                    return _orig(plan)
                finally:
                    world._nest -= 1
                    if outer:
                        # a new request = the site has more queue entries than when this update began
                        # (a re-insertion first takes the old entry out); read from the queue content
                        now = sum(1 for e in sched._survey_queue.queue if e[2].site_id == plan.site_id)
                        si = world.idx[plan.site_id]
                        world.queue_log[-1]["new_request"] = now > world.pre_queue_count.get(si, 0)

            setattr(sched, attr, wrapped)
        self._nest = 0
        self.pre_inq = {}
        self.pre_inpool = {}
        self.pre_queue_count = {}
        self.pre_pool_sites = set()
        self.creator = {}

    def _wrap_method(self, i, m):
        world = self
        orig_ucf = m.update_candidates_for_flags
        orig_flt = m._filter_candidates_by_proportion

        def ucf(current_date):
            world.ctx = "decision"
            try:
                return orig_ucf(current_date)
            finally:
                world.ctx = "-"

        def flt():
            before = [(world.idx[p.site_id], frac(p.rate_at_site)) for p in m._candidates_for_flags]
            rec = {"day": world.today, "method": i, "pool": before, "count": m._detection_count,
                   "first": world.d2i(m._first_candidate_date)}
            out = orig_flt()
            rec["kept"] = [(world.idx[p.site_id], frac(p.rate_at_site)) for p in m._candidates_for_flags]
            world.decisions.append(rec)
            return out

        m.update_candidates_for_flags = ucf
        m._filter_candidates_by_proportion = flt

    # -- operations --------------------------------------------------------------------------
    def screen(self, i, dn, screens):
        """the screening surveys of method i on day dn: the real deploy_crews on a work plan made of the
        surveys still in progress from earlier days (first) and today's new ones; a survey that does not
        fit into the crew's day stays in progress and is continued on the next day (the real crew
        arithmetic decides).  Returns the surveys COMPLETED today as (site, rate), read from the survey
        reports (start / completion date, measured rate) — the real code files their detection records."""
        m = self.methods[i]
        cur = self.day(dn)
        self.today = dn
        self.who = "-"
        car = self.carried[i]
        plan = [(s_, pl, r) for s_, (pl, r) in car.items()]
        for (s_, p, q) in screens:
            if s_ not in car:
                plan.append((s_, SurveyPlanner(self.sites[s_]), Fraction(p, q)))
        m._sensor.rates = {self.sid[s_]: float(r) for (s_, pl, r) in plan}
        done = []
        if plan:
            wp = Workplan([pl for (_, pl, _) in plan], cur)
            m.deploy_crews(wp, None, None)
            for (s_, pl, r) in plan:
                rep = pl.get_current_survey_report()
                if rep.survey_complete:
                    car.pop(s_, None)
                    self.screen_log.append({"method": i, "site": s_, "rate": frac(rep.site_measured_rate),
                                            "start": self.d2i(rep.survey_start_date),
                                            "completed": self.d2i(rep.survey_completion_date), "day": dn})
                    done.append((s_, frac(rep.site_measured_rate), self.d2i(rep.survey_completion_date)))
                elif rep.survey_in_progress:
                    car[s_] = (pl, r)
        return done

    def update(self, i, dn):
        """the real SiteLevelMethod.update(current_date) of method i"""
        m = self.methods[i]
        cur = self.day(dn)
        self.today = dn
        self.who = self.labels[i]
        self.pre_inq = dict(self.fu_schedule.get_site_id_queue_list())
        self.pre_inpool = dict(m._site_IDs_in_consideration_for_flag)
        self.pre_queue_count = {}
        for e in self.fu_schedule._survey_queue.queue:
            self.pre_queue_count[self.idx[e[2].site_id]] = self.pre_queue_count.get(self.idx[e[2].site_id], 0) + 1
        self.pre_pool_sites = {self.idx[p.site_id] for p in m._candidates_for_flags}
        tf = m.update(cur)
        self.who = "-"
        return tf.sites_flagged

    def latest_tag(self, s):
        """day of the site's latest completed tagging-capable survey according to the observed survey log
        (0 = the first simulated day, the value a site starts with) — never read from the site object"""
        return max(self.tag_days[s]) if self.tag_days[s] else 0

    def tagging_survey(self, s, dn):
        """a routine tagging-capable method surveys the site: the REAL ComponentLevelMethod.deploy_crews /
        survey_site on a one-site work plan; the survey completes and tags nothing"""
        cur = self.day(dn)
        pl = SurveyPlanner(self.sites[s])
        wp = Workplan([pl], cur)
        self.tag_method.deploy_crews(wp, None, None)
        rep = pl.get_current_survey_report()
        if rep.survey_complete:
            self.tag_days[s].append(self.d2i(rep.survey_completion_date))

    def follow_up_day(self, dn):
        """the follow-up method's day: real get_workplan, deploy_crews, schedule.update"""
        cur = self.day(dn)
        self.today = dn
        self.who = "FU"
        self.pre_inq = dict(self.fu_schedule.get_site_id_queue_list())
        queue_before = self.queue_in_pop_order()
        self.pre_queue_count = {}
        for (_, s_, _) in queue_before:
            self.pre_queue_count[s_] = self.pre_queue_count.get(s_, 0) + 1
        wp = self.fu_schedule.get_workplan(cur)
        plans = list(wp.site_survey_planners.values())
        planned = [p.site_id for p in plans]
        pre = [(self.d2i(p._latest_detection_date), self.latest_tag(self.idx[p.site_id]),
                [frac(x) for x in p._detected_rates], frac(p.rate_at_site),
                (getattr(p, "_small_window", None), getattr(p, "_long_window", None))) for p in plans]
        self.fu_method.deploy_crews(wp, None, None)
        reports, _ = wp.get_reports()
        outcomes = []
        for sid, (latest, tag_before, prates, prate, pwin) in zip(planned, pre):
            r = reports[sid]
            o = "c" if r.survey_complete else ("p" if r.survey_in_progress else "u")
            outcomes.append((self.idx[sid], o))
            if r.survey_complete:
                self.tag_days[self.idx[sid]].append(self.d2i(r.survey_completion_date))
            self.visits.append({"day": dn, "site": self.idx[sid], "outcome": o, "latest": latest,
                                "tag_before": tag_before, "rates": prates, "rate": prate, "windows": pwin,
                                "was_queued": self.pre_queue_count.get(self.idx[sid], 0) > 0,
                                "surveyed_today": r.time_surveyed_current_day})
        self.fu_days.append({"day": dn, "queue_before": queue_before, "planned": [self.idx[x] for x in planned]})
        self.fu_schedule.update(wp, cur, True)
        self.fu_method.update(cur)
        self.who = "-"
        return outcomes

    # -- canonical state (site indices) -------------------------------------------------------------
    def queue_in_pop_order(self):
        """content of the follow-up queue in pop order, taken from a copy of the heap"""
        heap = sorted(self.fu_schedule._survey_queue.queue, key=lambda e: (e[0], e[1]))
        return [(e[0][0], self.idx[e[2].site_id], frac(e[2].rate_at_site)) for e in heap]

    def method_state(self, i):
        m = self.methods[i]
        pool = [(self.idx[p.site_id], frac(p.rate_at_site)) for p in m._candidates_for_flags]
        inpool = [1 if m._site_IDs_in_consideration_for_flag.get(s.get_id(), False) else 0 for s in self.sites]
        return pool, inpool, self.d2i(m._first_candidate_date), m._detection_count

    def queue_creators(self):
        """for every queue entry in pop order: the screening method that first queued that plan object"""
        heap = sorted(self.fu_schedule._survey_queue.queue, key=lambda e: (e[0], e[1]))
        return [self.creator.get(id(e[2]), ("?", None))[0] for e in heap]

    def flag_events(self, i):
        """the flag events of screening method i in the format of the driver's `evs` reply: insertions of a
        new request (pool decision, instant route from the pool or for a site not queued)"""
        out = []
        dec_first = {(d["day"], d["method"]): d["first"] for d in self.decisions}
        for e in self.queue_log:
            if e["who"] != self.labels[i]:
                continue
            if e["ctx"] == "decision":
                route, first = "pool", dec_first.get((e["day"], i))
            elif e["new_request"]:
                route, first = "instant", e["day"]
            else:
                continue
            out.append("%d:%s:%s:%s:%d:%d:%s:%d:[%s]" % (
                e["site"], fs(e["rate"]), fs(e["long"]), route, e["latest"], e["day"],
                "-" if first is None else first, e["tag"], ";".join(fs(x) for x in e["rates"])))
        return "[" + ",".join(out) + "]"

    def visit_events(self):
        return "[" + ",".join("%d:%d:%d:%d:%s" % (v["site"], v["latest"], v["tag_before"], v["day"], v["outcome"])
                              for v in self.visits) + "]"

    def inq_bits(self):
        inq = self.fu_schedule.get_site_id_queue_list()
        return [1 if inq[s.get_id()] else 0 for s in self.sites]

    def site_plans(self, i, s):
        """the detected-rate lists of the plans of site s in method i's pool and in the queue"""
        sid = self.sid[s]
        m = self.methods[i]
        pool = [tuple(frac(x) for x in p._detected_rates) for p in m._candidates_for_flags if p.site_id == sid]
        queue = [tuple(frac(x) for x in e[2]._detected_rates) for e in self.fu_schedule._survey_queue.queue
                 if e[2].site_id == sid]
        return {"pool": pool, "queue": sorted(queue), "count": m._detection_count}

    def dump(self):
        parts = []
        for i in range(len(self.methods)):
            pool, inpool, fc, cnt = self.method_state(i)
            parts.append("M%d pool=[%s] inPool=%s first=%s count=%d" % (
                i, ",".join("%d:%s" % (s, fs(r)) for s, r in pool),
                "".join(map(str, inpool)), "-" if fc is None else fc, cnt))
        q = self.queue_in_pop_order()
        inq = self.fu_schedule.get_site_id_queue_list()
        parts.append("queue=[%s] inQueue=%s tag=[%s]" % (
            ",".join("%d:%d:%s" % (c, s, fs(r)) for c, s, r in q),
            "".join("1" if inq[s.get_id()] else "0" for s in self.sites),
            ",".join(str(self.d2i(s._latest)) for s in self.sites)))
        return " | ".join(parts)


# -- protocol lines for the Lean driver (same history) -------------------------------------------
def opt_frac(x):
    return "-" if x is None else fs(Fraction(*x))


def header_lines(hist, cap, crews):
    lines = ["new %d %d %d" % (len(hist["methods"]), hist["nsites"], cap * crews)]
    for i, mp in enumerate(hist["methods"]):
        lines.append("method %d %d %d %d %s %d %s %s %s %d %d %s %s" % (
            i, int(mp["stationary"]), mp["rd"], mp["delay"], fs(Fraction(*mp["prop"])), int(mp["thrFirst"]),
            fs(Fraction(*mp["thr"])), opt_frac(mp.get("inst")), mp["filter"], mp["sw"], mp["lw"],
            fs(Fraction(*mp["sthr"])), fs(Fraction(*mp["lthr"]))))
    return lines


def iter_history(hist, props=None):
    """generator form of `run_history`: builds the real objects, then yields once per simulated day
    (so that several histories can be interleaved in one process with all their objects alive);
    the final yield value is (lines, impl, world)."""
    w = World(hist, props)
    lines = header_lines(hist, w.cap, w.fu_method.get_crew_count())
    impl = ["ok"] * len(lines)
    sink = io.StringIO()
    yield None
    for dn, dd in enumerate(hist["days"]):
        for s in dd.get("tag", []):
            lines.append("tag %d %d" % (s, dn))
            try:
                with contextlib.redirect_stdout(sink), contextlib.redirect_stderr(sink):
                    w.tagging_survey(s, dn)
            except (Exception, SystemExit) as e:  # noqa: BLE001
                w.crash = {"day": dn, "method": "tag", "type": type(e).__name__, "msg": str(e)[:200]}
                impl.append("crash:" + type(e).__name__)
                yield (lines, impl, w)
                return
            impl.append("ok " + w.dump())
        for i in range(len(w.methods)):
            screens = [(s, p, q) for (mi, s, p, q) in dd.get("screen", []) if mi == i]
            try:
                with contextlib.redirect_stdout(sink), contextlib.redirect_stderr(sink):
                    done = w.screen(i, dn, screens)
            except (Exception, SystemExit) as e:  # noqa: BLE001
                w.crash = {"day": dn, "method": i, "type": type(e).__name__, "msg": str(e)[:200]}
                lines.append("update %d %d" % (i, dn))
                impl.append("crash:" + type(e).__name__)
                yield (lines, impl, w)
                return
            # the model is told the COMPLETED surveys, dated by the completion date of the survey report
            for (s, r, cday) in done:
                lines.append("screen %d %d %s %d" % (i, s, fs(r), cday))
                impl.append("ok")
            lines.append("update %d %d" % (i, dn))
            # records that are due today, from the observed survey log (completion day + reporting delay),
            # and what the site's plans look like before
            rd = hist["methods"][i]["rd"]
            rel = []
            for sv in w.screen_log:
                if sv["method"] == i and sv["completed"] == dn - rd:
                    rel.append({"day": dn, "method": i, "site": sv["site"], "rate": sv["rate"], "dc": dn - rd,
                                "tag": w.latest_tag(sv["site"]), "pre": w.site_plans(i, sv["site"])})
            try:
                with contextlib.redirect_stdout(sink), contextlib.redirect_stderr(sink):
                    nf = w.update(i, dn)
            except (Exception, SystemExit) as e:  # noqa: BLE001
                w.crash = {"day": dn, "method": i, "type": type(e).__name__, "msg": str(e)[:200]}
                impl.append("crash:" + type(e).__name__)
                yield (lines, impl, w)
                return
            for r in rel:
                r["post"] = w.site_plans(i, r["site"])
            w.releases += rel
            w.snaps.append({"day": dn, "op": "update", "method": i, "nflags": nf, "queue": w.queue_in_pop_order(),
                            "creators": w.queue_creators(),
                            "inq": w.inq_bits(), "pools": [w.method_state(k) for k in range(len(w.methods))]})
            impl.append("flags=%d " % nf + w.dump())
        try:
            with contextlib.redirect_stdout(sink), contextlib.redirect_stderr(sink):
                out = w.follow_up_day(dn)
        except (Exception, SystemExit) as e:  # noqa: BLE001
            w.crash = {"day": dn, "method": "FU", "type": type(e).__name__, "msg": str(e)[:200]}
            lines.append("fuday %d []" % dn)
            impl.append("crash:" + type(e).__name__)
            yield (lines, impl, w)
            return
        lines.append("fuday %d [%s]" % (dn, ",".join("[%d,%d]" % (si, "cpu".index(o)) for si, o in out)))
        w.snaps.append({"day": dn, "op": "fuday", "queue": w.queue_in_pop_order(), "inq": w.inq_bits(),
                        "creators": w.queue_creators(),
                        "pools": [w.method_state(k) for k in range(len(w.methods))]})
        impl.append("ok " + w.dump())
        yield None
    # the model's ghost flag events / visits against what the real objects were seen doing
    for i in range(len(w.methods)):
        lines.append("evs %d" % i)
        impl.append(w.flag_events(i))
    lines.append("visits")
    impl.append(w.visit_events())
    yield (lines, impl, w)


def run_history(hist, props=None):
    """runs the real objects over the history; returns (driver lines, implementation reply lines,
    world).  The follow-up day outcomes (decided by the real crew logic) become inputs of the model.
    If the real code raises or exits, the history stops there: the reply of that line is
    `crash:<exception type>` (the model answers `... err`; never equal)."""
    out = None
    for out in iter_history(hist, props):
        pass
    return out


def run_interleaved(hists, props_list=None):
    """all histories in ONE process with all their real objects alive at the same time, advanced one
    simulated day at a time in round-robin order; returns the list of (lines, impl, world)"""
    gens = [iter_history(h, None if props_list is None else props_list[k]) for k, h in enumerate(hists)]
    res = [None] * len(gens)
    live = list(range(len(gens)))
    while live:
        nxt = []
        for k in live:
            try:
                v = next(gens[k])
            except StopIteration:
                continue
            if v is not None:
                res[k] = v
            else:
                nxt.append(k)
        live = nxt
    return res


def binding_check():
    """the REAL binding rule of programs/program.py: Program._gen_method (called on a stub program that
    holds two follow-up schedules) must hand the screening method the schedule of its preferred
    follow-up method (the placeholder fallback "first schedule of the dict" is not exercised)"""
    from programs.program import Program

    names = ["M0", "FU", "FU_other"]
    sites = [StubSite("s%d" % i, names, 120) for i in range(2)]
    end = SIM_START + timedelta(days=10)
    sink = io.StringIO()
    with contextlib.redirect_stdout(sink):
        other = FollowUpMobileSchedule("FU_other", sites, SIM_START, end, 1, 1)
        mine = FollowUpMobileSchedule("FU", sites, SIM_START, end, 1, 1)

        class _P:
            _survey_schedules = {"FU_other": other, "FU": mine}
            _input_dir = ""

        mp = {"stationary": False, "rd": 0, "delay": 0, "prop": [1, 1], "thrFirst": True, "thr": [1, 1],
              "inst": None, "filter": "recent", "sw": 1, "lw": 1, "sthr": [1, 1], "lthr": [1, 1]}
        m = Program._gen_method(_P(), "M0", screening_props(mp), False, sites)
    ok = isinstance(m, SiteLevelMethod) and m._follow_up_schedule is mine \
        and m._site_IDs_in_follow_up_queue is mine.get_site_id_queue_list()
    return ok, {"bound_to": getattr(getattr(m, "_follow_up_schedule", None), "_method", None), "expected": "FU"}


def proportion_grid(cells):
    """the REAL SiteLevelMethod._filter_candidates_by_proportion on pools of n real planners:
    cells = iterable of (thrFirst, k, n, c) with proportion k/100 (the double k/100 as a user would write
    it); returns list of (thrFirst, k, n, c, kept, kept_is_prefix)"""
    from sortedcontainers import SortedList
    from scheduling.surveying_dataclasses import DetectionRecord
    from scheduling.follow_up_survey_planner import FollowUpSurveyPlanner

    names = ["M0", "FU"]
    site = StubSite("s0", names, 120)
    end = SIM_START + timedelta(days=10)
    sink = io.StringIO()
    with contextlib.redirect_stdout(sink):
        sched = FollowUpMobileSchedule("FU", [site], SIM_START, end, 1, 1)
        mp = {"stationary": False, "rd": 0, "delay": 0, "prop": [1, 1], "thrFirst": True, "thr": [1, 1],
              "inst": None, "filter": "recent", "sw": 1, "lw": 1, "sthr": [1, 1], "lthr": [1, 1]}
        m = SiteLevelMethod("M0", screening_props(mp), False, sites=[site], follow_up_schedule=sched, input_dir="")
    plans = [FollowUpSurveyPlanner(DetectionRecord("s%d" % i, site, float(1000 - i)), SIM_START) for i in range(201)]
    out = []
    for (tf, k, n, c) in cells:
        m._threshold_first = bool(tf)
        m._proportion = k / 100
        m._detection_count = c
        m._candidates_for_flags = SortedList(plans[:n], key=lambda x: -x.rate_at_site)
        m._site_IDs_in_consideration_for_flag = {pl.site_id: True for pl in plans[:n]}
        m._filter_candidates_by_proportion()
        kept = list(m._candidates_for_flags)
        out.append((tf, k, n, c, len(kept), kept == plans[:len(kept)]
                    and all(m._site_IDs_in_consideration_for_flag[pl.site_id] == (j < len(kept))
                            for j, pl in enumerate(plans[:n]))))
    return out
