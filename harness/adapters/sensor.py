"""Drive the REAL Default{Component,EquipmentGroup,Site}LevelSensor.detect_emissions on REAL Site
objects of a generated infrastructure, through the real `survey_site` of the real method classes.

World.  A configuration from harness/wholerun.make_config (granular infrastructure, own method
set: three measurement scales x three coverage variants incl. probabilities 0 and 1, the three
quantification predictors) is materialised into a scratch folder, read by the real InputManager
(defaults merged), and a real `Infrastructure` is built from it.  Real emission objects are created
by the real `Source._create_emission` (so they carry the propagated coverage probabilities), handed
to the sources as their pre-generated lists and activated / aged by the real
`Infrastructure.activate_emissions` / `update_emissions_state`.

Survey.  A real ComponentLevelMethod / EquipmentGroupLevelMethod / SiteLevelMethod object (created
without its scheduling collaborators; its sensor is built by its own real `_initialize_sensor` from
the real parameter dict) runs its real `survey_site` on a real Site: real `detect_emissions`, real
`Site.get_detectable_emissions`, and at component scale the real tagging path
`Site.tag_emissions_at_component` -> `Component.tag_emissions`.

Observation-only wrappers (class attributes restored afterwards) record: every Bernoulli draw
(`binomial` as imported by emission.py), which emission drew a spatial / temporal roll and its
outcome, the list returned by every `Component.get_detectable_emissions`, every `_rate_detected`
call, every predictor call (input, drawn shift, output), tag requests, emissions reached by
`tag_leak` / `record_emission`, detection records written by the sensor itself, and the return value
of `detect_emissions`.  The drawn quantification shift is snapped to a multiple of 25 % (the random
source is harness-side; the code under test is untouched) so that doubles are exact.
"""
from __future__ import annotations

import copy
import os
import pickle
import shutil
import tempfile
from datetime import date, timedelta
from fractions import Fraction
from pathlib import Path

from harness import shim

shim.install()

import numpy as np  # noqa: E402

from harness import wholerun as W  # noqa: E402
from harness.core import InfraError  # noqa: E402

import constants.param_default_const as pdc  # noqa: E402
from file_processing.input_processing.input_manager import InputManager  # noqa: E402
from file_processing.output_processing.output_utils import EmisInfo  # noqa: E402
from programs.component_level_method import ComponentLevelMethod  # noqa: E402
from programs.equipment_group_level_method import EquipmentGroupLevelMethod  # noqa: E402
from programs.site_level_method import SiteLevelMethod  # noqa: E402
from scheduling.schedule_dataclasses import CrewDailyReport, SiteSurveyReport  # noqa: E402
from scheduling.surveying_dataclasses import DetectionRecord  # noqa: E402
from sensors.default_sensor import DefaultSensor  # noqa: E402
from sensors.default_component_level_sensor import DefaultComponentLevelSensor  # noqa: E402
from sensors.default_equipment_group_level_sensor import DefaultEquipmentGroupLevelSensor  # noqa: E402
from sensors.default_site_level_sensor import DefaultSiteLevelSensor  # noqa: E402
from sensors import quantification as Q  # noqa: E402
from virtual_world.component import Component  # noqa: E402
from virtual_world.infrastructure import Infrastructure  # noqa: E402
from virtual_world.sites import Site  # noqa: E402
from virtual_world.emission_types import emission as emission_mod  # noqa: E402
from virtual_world.emission_types.emission import Emission  # noqa: E402
from virtual_world.emission_types.repairable_emission import RepairableEmission  # noqa: E402
from virtual_world.emission_types.non_repairable_emissions import NonRepairableEmission  # noqa: E402

SCALE = 64                       # the common unit of the model is 1/64 g/s
SHIFT_GRID = 25                  # percent
SCALES = {"component": ("c", ComponentLevelMethod), "equipment": ("g", EquipmentGroupLevelMethod),
          "site": ("s", SiteLevelMethod)}
QE_FILE = "qe.csv"
QE_COLUMNS = {"err_a": [-125, -100, -75, 0, 25, 150], "err_b": [0], "err_c": [-50, 50, 100]}
QE_COLUMNS_OFFGRID = {"err_d": [-100.0000001, -99.9, -33.333, 12.34, 0.1, 61.8]}   # unsnapped pass only
RATES = [0.125, 0.25, 0.375, 0.5, 1.0, 1.5, 2.0, 4.0, 8.0]
OFFGRID_RATES = [0.1, 0.2, 0.3, 0.7, 1.0 / 3.0, 2.2, 0.05, 0.001, 5.5, 1.1]
SIM_START = date(2022, 1, 1)
# first simulated day of a world: New Year's Eve into a leap year, Feb 28/29/Mar 1 of a leap year,
# day-of-year 366, an ordinary Jan 1, a mid-year start
BOUNDARY_STARTS = [date(2023, 12, 30), date(2024, 2, 27), date(2024, 12, 29), date(2022, 1, 1), date(2021, 7, 15),
                   date(2023, 2, 27)]
# method names: underscores, digits, prefixes of each other, names that look like markers / columns /
# keywords of the code base, a leading digit, a blank
NAME_POOL = ["OGI", "OGI_FU", "OGI_FU_2", "A", "A_spatial", "A_temporal", "kept", "Logs", "M1", "M10", "1M",
             "x y", "Placeholder", "site", "Spatial Coverage", "N_A", "default", "sample"]


def to_units(x, mult=SCALE):
    f = Fraction(float(x)) * mult
    if f.denominator != 1:
        raise InfraError(f"value {x!r} is not on the exact grid (x{mult})")
    return int(f)


# ------------------------------------------------------------------------------------------------
# world
# ------------------------------------------------------------------------------------------------
class World:
    def __init__(self, infra_blob, methods, in_dir, root, cfg):
        self.blob = infra_blob
        self.methods = methods          # name -> real (default-merged) parameter dict
        self.in_dir = in_dir
        self.root = root
        self.cfg = cfg
        self.names = [m for m in methods if methods[m]["measurement_scale"] in SCALES and m != "FU"]
        self.mindex = {m: i + 1 for i, m in enumerate(methods)}
        self.start = date(*cfg["start"])
        self.methods_snapshot = copy.deepcopy(methods)
        self.source_cfg = {sc["source"]: sc for sc in cfg["sources"]}
        self.problems = []              # shared-input / repeated-construction findings of build_world

    def expected_prob(self, kind, method, site_id, source_id):
        """coverage probability of `method` for emissions of `source_id` at `site_id`, read from the
        CONFIGURATION (sources-file override > sites-file override > method parameter)"""
        col = method + "_" + kind
        v = self.cfg.get("source_extra_cols", {}).get(col, {}).get(source_id)
        if v is None:
            ov = self.cfg.get("site_extra_cols", {}).get(col, {})
            v = ov.get(site_id, ov.get(str(site_id)))
        if v is None:
            v = self.cfg["methods"][method][kind]
        return float(v)

    def expected_mdl(self, method, override):
        return float(override[0] if override is not None else self.cfg["methods"][method]["mdl"])

    def methods_unchanged(self):
        return self.methods == self.methods_snapshot

    def fresh(self) -> Infrastructure:
        return pickle.loads(self.blob)

    def cleanup(self):
        shutil.rmtree(self.root, ignore_errors=True)


def _method_variants(rng, base):
    qtypes = ["default", "uniform", "sample"]
    rng.shuffle(qtypes)
    out = {}
    fu = copy.deepcopy(base["OGI_FU"])
    out["FU"] = fu
    names = rng.sample(NAME_POOL, 9)
    k = 0
    for scale, tmpl in (("component", "OGI"), ("equipment", "AIR"), ("site", "AIR")):
        variants = [(1.0, 1.0),
                    (rng.choice([0.25, 0.5, 0.75]), rng.choice([0.5, 0.75, 1.0])),
                    rng.choice([(0.0, 1.0), (1.0, 0.0), (0.0, 0.5)])]
        # the same method NAME gets a different coverage from world to world (0 / 1 / in between)
        rot = rng.randrange(3)
        variants = variants[rot:] + variants[:rot]
        for vi, (sp, tp) in enumerate(variants):
            m = copy.deepcopy(base[tmpl])
            m["measurement_scale"] = scale
            m["spatial"], m["temporal"] = sp, tp
            m["mdl"] = rng.choice([0.0, 0.125, 0.5, 1.0, 2.0, 4.0])
            qt = qtypes[(k + vi) % 3]
            m["qe_type"] = qt
            if qt == "sample":
                m["qe"] = [QE_FILE, rng.choice(sorted(QE_COLUMNS))]
            else:
                lo = rng.choice([-150.0, -50.0, -25.0, 0.0])
                m["qe"] = [lo, lo + rng.choice([0.0, 25.0, 100.0])]
            if "follow_up" in m:
                m["follow_up"]["preferred_method"] = "FU"
            out[names.pop()] = m
        k += 1
    return out


def build_world(rng) -> World:
    cfg = W.make_config(rng, granular=True, n_sites=rng.randint(2, 3), ndays=60)
    start = rng.choice(BOUNDARY_STARTS)
    cfg["start"] = [start.year, start.month, start.day]
    end = start + timedelta(days=59)
    cfg["end"] = [end.year, end.month, end.day]
    # site ids: unsorted integers, or strings whose natural and lexicographic orders differ
    ids = rng.choice([[12, 3, 7], ["s10", "s9", "s2a"], [1, 2, 3], [100, 20, 3]])
    for i, st in enumerate(cfg["sites"]):
        st["id"] = ids[i]
    cfg["rep"]["duration"] = rng.choice([3, 4, 6])
    cfg["nonrep"]["duration"] = rng.choice([2, 4, 7])
    cfg["repair_delay"] = rng.choice([[0], [1], [2]])
    cfg["sources"] = [
        {"component": "compA", "source": "sA", "repairable": True, "persistent": True, "active": 1, "inactive": 0},
        # inactive_duration 0 is the value the loader itself fills in when the column is absent
        {"component": "compA", "source": "sD", "repairable": False, "persistent": False,
         "active": rng.choice([1, 1, 2]), "inactive": rng.choice([0, 0, 1, 3])},
        {"component": "compB", "source": "sB", "repairable": False, "persistent": True, "active": 1, "inactive": 0},
        {"component": "compB", "source": "sC", "repairable": True, "persistent": False,
         "active": rng.choice([1, 2, 3]), "inactive": rng.choice([0, 1, 2])},
    ]
    cfg["methods"] = _method_variants(rng, cfg["methods"])
    cfg["programs"] = [{"name": "P_none", "methods": []}, {"name": "P_all", "methods": list(cfg["methods"])}]
    # per-site `<method>_spatial` / `_temporal` overrides in the sites file: within one world the same
    # method has different coverage probabilities at different sites (incl. 0 and 1)
    extra = {}
    for m in rng.sample([k for k in cfg["methods"] if k != "FU"], 4):
        vals = [0.0, 1.0, rng.choice([0.25, 0.5, 0.75])]
        rng.shuffle(vals)
        extra[m + "_spatial"] = {s["id"]: vals[i % 3] for i, s in enumerate(cfg["sites"])}
    m = rng.choice([k for k in cfg["methods"] if k != "FU"])
    extra[m + "_temporal"] = {s["id"]: rng.choice([0.0, 0.5, 1.0]) for s in cfg["sites"]}
    cfg["site_extra_cols"] = extra
    # per-source overrides in the sources file (blank = not specified): they win over the site's
    m2 = rng.choice([k for k in cfg["methods"] if k != "FU"])
    cfg["source_extra_cols"] = {m2 + "_spatial": {"sC": rng.choice([0.0, 1.0, 0.5]), "sD": rng.choice([0.0, 1.0])},
                                m2 + "_temporal": {"sA": rng.choice([0.0, 1.0, 0.5])}}
    root = tempfile.mkdtemp(prefix="ldarverif_c05_")
    try:
        files, in_dir, _ = W.materialize(cfg, root)
        spath = os.path.join(in_dir, "sources.csv")
        rows = [ln.rstrip("\n").split(",") for ln in open(spath)]
        scol = rows[0].index("source")
        for col, vals in cfg["source_extra_cols"].items():
            rows[0].append(col)
            for r in rows[1:]:
                r.append("" if r[scol] not in vals else repr(vals[r[scol]]))
        with open(spath, "w") as fh:
            fh.write("\n".join(",".join(r) for r in rows) + "\n")
        with open(os.path.join(in_dir, QE_FILE), "w") as fh:
            allc = dict(QE_COLUMNS)
            allc.update(QE_COLUMNS_OFFGRID)
            cols = sorted(allc)
            n = max(len(allc[c]) for c in cols)
            fh.write(",".join(cols) + "\n")
            for i in range(n):
                fh.write(",".join(repr(allc[c][i]) if i < len(allc[c]) else "" for c in cols) + "\n")
        import contextlib
        import io

        with contextlib.redirect_stdout(io.StringIO()):
            sp = InputManager().read_and_validate_parameters([Path(f) for f in files])
            programs = sp.pop(pdc.Levels.PROGRAM)
            vw = sp.pop(pdc.Levels.VIRTUAL)
            methods = {m: programs[p][pdc.Levels.METHOD][m] for p in programs
                       for m in programs[p][pdc.Program_Params.METHODS]}
            seed = rng.randrange(1 << 31)
            vw0, methods0 = copy.deepcopy(vw), copy.deepcopy(methods)
            np.random.seed(seed)
            infra = Infrastructure(vw, methods, Path(in_dir))
            # several real objects from the SAME input dicts: equal results, inputs deep-equal before/after
            np.random.seed(seed)
            infra2 = Infrastructure(vw, methods, Path(in_dir))
        world = World(pickle.dumps(infra), methods, Path(in_dir), root, cfg)
        if vw != vw0 or methods != methods0:
            world.problems.append("building an Infrastructure changed its input parameter dictionaries")
        if coverage_signature(infra) != coverage_signature(infra2):
            world.problems.append("two Infrastructures built from the same inputs differ: %r vs %r" % (
                coverage_signature(infra)[:3], coverage_signature(infra2)[:3]))
        return world
    except BaseException:
        shutil.rmtree(root, ignore_errors=True)
        raise


def emitting_pattern(start_day, adur, idur, d):
    """on/off cycle of an intermittent emission from (active_duration, inactive_duration, first active day):
    emitting from the day it becomes active for `adur` days, then a pause of `idur` days - at least ONE day: the
    daily bookkeeping (IntermittencyMixin.update; Lean `Emission.toggle`) switches the emission off at the end of
    an emitting period and back on only with a later update, so inactive_duration 0 still gives one day on
    which nothing is emitted (the emitted volume does not grow that day)"""
    d0 = max(start_day, 0)
    if d < d0:
        return False
    return ((d - d0) % (adur + max(idur, 1))) < adur


def coverage_signature(infra):
    """(site, group, component, source, spatial probabilities, temporal probabilities) of every source"""
    out = []
    for site in infra._sites:
        for eqg in site._equipment_groups:
            for comp in eqg._component:
                for src in comp._sources:
                    out.append((str(site.get_id()), str(eqg.get_id()), str(comp.get_id()), str(src.get_id()),
                                sorted((k, float(v)) for k, v in src._meth_spat_covs.items()),
                                sorted((k, float(v)) for k, v in src._meth_temp_covs.items())))
    return out


# ------------------------------------------------------------------------------------------------
# emissions of a case
# ------------------------------------------------------------------------------------------------
class _RateSource:
    def __init__(self):
        self.next = 1.0

    def get_a_rate(self):
        return self.next


class Scene:
    """one infrastructure copy populated with real emissions; knows the identity of every object"""

    def __init__(self, world: World, plan):
        """plan: list of (site_idx, eqg_idx, comp_idx, src_idx, start_day, rate)"""
        self.world = world
        self.infra = world.fresh()
        self.sites = list(self.infra._sites)
        self.eqg_index = {}
        self.comp_index = {}
        self.em_id = {}          # id(obj) -> model id
        self.em_obj = {}         # model id -> obj
        self.em_place = {}       # model id -> (site_idx, eqg name, comp name, source id, site id)
        self.em_cfg = {}         # model id -> (start day, rate, persistent, active dur, inactive dur) from the plan / cfg
        self.start = world.start
        self.day = None
        self.round_trips = 0
        self.booked = {}         # (model id, day) -> (emitting days booked that day, status before, status after)
        self.spatial_draws = {}  # (model id, method) -> number of spatial rolls drawn so far
        self.stored = {}         # (model id, method) -> first stored outcome
        rs = _RateSource()
        per_src = {}
        for (si, gi, ci, ki, start, rate) in plan:
            site = self.sites[si % len(self.sites)]
            eqgs = site._equipment_groups
            eqg = eqgs[gi % len(eqgs)]
            comps = eqg._component
            comp = comps[ci % len(comps)]
            srcs = comp._sources
            src = srcs[ki % len(srcs)]
            rs.next = rate
            rates = {src._emis_rate_source: rs}
            n = len(self.em_id) + 1
            # `_emissions_id` restarts at 0 for every source (as in Source.generate_emissions): ids
            # coincide across sources, sites, scenes and worlds of this process; `n` is the harness's own id
            k_src = len(per_src.get(id(src), (src, []))[1])
            em = src._create_emission(k_src, self.start + timedelta(days=start), self.start, rates,
                                      self.infra.repair_delay_dataframe)
            self.em_id[id(em)] = n
            self.em_obj[n] = em
            self.em_place[n] = (self.sites.index(site), eqg.get_id(), comp.get_id(), src.get_id(), site.get_id())
            sc = world.source_cfg[src.get_id()]
            self.em_cfg[n] = (start, rate, bool(sc["persistent"]), int(sc["active"]), int(sc["inactive"]))
            per_src.setdefault(id(src), (src, []))[1].append(em)
        for site in self.sites:
            for eqg in site._equipment_groups:
                self.eqg_index.setdefault(eqg.get_id(), len(self.eqg_index) + 1)
                for comp in eqg._component:
                    self.comp_index.setdefault(comp.get_id(), len(self.comp_index) + 1)
                    for src in comp._sources:
                        lst = per_src.get(id(src), (src, []))[1]
                        # pending lists are kept latest-first: pop() yields the earliest
                        lst.sort(key=lambda e: e._start_date, reverse=True)
                        src.set_pregen_emissions(lst, 0)
                        src._next_emission = None

    def day_start(self, d):
        self.day = d
        self.infra.activate_emissions(self.start + timedelta(days=d), 0)

    def expected_emitting(self, n, d):
        """is emission n in an emitting period on day d, from the CONFIGURATION: persistent sources always;
        intermittent ones are on for `active` days from their first active day, off for `inactive`, and so on"""
        start, _, persistent, adur, idur = self.em_cfg[n]
        if persistent:
            return True
        return emitting_pattern(start, adur, idur, d)

    def _walk(self, infra):
        out = []
        for site in infra._sites:
            for eqg in site._equipment_groups:
                for comp in eqg._component:
                    out.extend(comp._active_emissions)
                    out.extend(comp._inactive_emissions)
                    for src in comp._sources:
                        if src._next_emission is not None:
                            out.append(src._next_emission)
                        for lst in src._generated_emissions.values():
                            out.extend(lst)
        return out

    def round_trip(self, how):
        """what `simulate()` / a worker pool do to the world between programs: copy.deepcopy or a pickle
        round trip of the whole infrastructure (through every `__reduce__` / `_reconstruct`); the harness
        re-identifies the emission objects by their position"""
        old = self._walk(self.infra)
        new_infra = copy.deepcopy(self.infra) if how == "deepcopy" else pickle.loads(pickle.dumps(self.infra))
        new = self._walk(new_infra)
        if len(old) != len(new):
            raise RuntimeError("round trip (%s) changed the number of emissions: %d -> %d" % (how, len(old), len(new)))
        ids = [self.em_id[id(e)] for e in old]
        self.infra = new_infra
        self.sites = list(new_infra._sites)
        self.em_id = {id(e): n for e, n in zip(new, ids)}
        self.em_obj = {n: e for e, n in zip(new, ids)}
        self.round_trips += 1

    def day_end(self):
        """the daily update; what each emission BOOKS for the day is kept: +1 emitting day or +0 (emitted volume
        of the day = that x rate x 86.4), and whether it is still active afterwards"""
        before = {n: (em.get_days_emitting(), em.get_status()) for n, em in self.em_obj.items()}
        self.infra.update_emissions_state(EmisInfo())
        for n, em in self.em_obj.items():
            self.booked[(n, self.day)] = (em.get_days_emitting() - before[n][0], before[n][1], em.get_status())

    def layout(self, si):
        site = self.sites[si]
        return [(self.eqg_index[g.get_id()], [self.comp_index[c.get_id()] for c in g._component])
                for g in site._equipment_groups]

    def listing(self):
        """every emission of the world in the order site -> group -> component -> active list, then
        the component's inactive list, then the still pending ones: (model id, active?)"""
        out = []
        seen = set()
        for site in self.sites:
            for eqg in site._equipment_groups:
                for comp in eqg._component:
                    for em in comp._active_emissions:
                        out.append((self.em_id[id(em)], True))
                        seen.add(id(em))
                    for em in comp._inactive_emissions:
                        out.append((self.em_id[id(em)], False))
                        seen.add(id(em))
        for n, em in self.em_obj.items():
            if id(em) not in seen:
                out.append((n, False))
        return out


# ------------------------------------------------------------------------------------------------
# recorder
# ------------------------------------------------------------------------------------------------
class Recorder:
    """observation-only wrappers; `with Recorder(scene) as rec:` around one survey"""

    def __init__(self, scene: Scene, snap: bool = True):
        self.scene = scene
        self.snap = snap          # False: the draws of normal/uniform are only recorded, not altered
        self.binomial = []        # (p, result)
        self.spatial = {}         # model id -> (outcome, drew_roll)
        self.temporal = {}        # model id -> outcome
        self.temporal_draws = {}  # model id -> [(p, result)] Bernoulli draws made inside the temporal check
        self.detectable = []      # (comp obj, [model ids])
        self.units = []           # {"rate", "result", "predict": (input, shift, output) | None}
        self.tags = []            # (eqg name, comp name)
        self.tagged = []          # model ids reached by tag_leak / record_emission
        self.sensor_records = []  # model ids whose detection records the sensor updated
        self.ret = None
        self._in_tag = 0
        self._shift = None
        self._saved = []

    def _patch(self, obj, name, new):
        self._saved.append((obj, name, obj.__dict__[name] if isinstance(obj, type) else getattr(obj, name),
                            isinstance(obj, type)))
        setattr(obj, name, new)

    def _snap(self, v):
        g = SHIFT_GRID
        s = int(round(float(v) / g)) * g
        return float(max(-200, min(200, s)))

    def __enter__(self):
        rec = self
        sc = self.scene
        real_binomial = emission_mod.binomial

        def binomial(n, p, *a, **k):
            r = real_binomial(n, p, *a, **k)
            rec.binomial.append((float(p), int(r)))
            return r

        self._patch(emission_mod, "binomial", binomial)

        o_sp = Emission.check_spatial_cov

        def check_spatial_cov(self_, method):
            n0 = len(rec.binomial)
            r = o_sp(self_, method)
            draws = rec.binomial[n0:]
            # (returned outcome, number of Bernoulli draws, probability argument and result of the
            #  first draw made inside this call) -- the draw, not the returned value, is the model's input
            rec.spatial[sc.em_id[id(self_)]] = (int(r), len(draws), draws[0][0] if draws else None,
                                                draws[0][1] if draws else None)
            return r

        self._patch(Emission, "check_spatial_cov", check_spatial_cov)

        o_tp = Emission.check_temporal_cov

        def check_temporal_cov(self_, method):
            n0 = len(rec.binomial)
            r = o_tp(self_, method)
            rec.temporal[sc.em_id[id(self_)]] = int(r)
            rec.temporal_draws[sc.em_id[id(self_)]] = list(rec.binomial[n0:])
            return r

        self._patch(Emission, "check_temporal_cov", check_temporal_cov)

        o_gd = Component.get_detectable_emissions

        def get_detectable_emissions(self_, method_name):
            r = o_gd(self_, method_name)
            rec.detectable.append((self_, [sc.em_id[id(e)] for e in r]))
            return r

        self._patch(Component, "get_detectable_emissions", get_detectable_emissions)

        o_rd = DefaultSensor._rate_detected

        def _rate_detected(self_, emis_rate):
            r = o_rd(self_, emis_rate)
            rec.units.append({"rate": emis_rate, "result": bool(r), "predict": None})
            return r

        self._patch(DefaultSensor, "_rate_detected", _rate_detected)

        for cls in (Q.DefaultQuantificationPredictor, Q.UniformQuantificationPredictor,
                    Q.SamplingQuantificationPredictor):
            def mk(orig):
                def predict(self_, true_rate):
                    rec._shift = None
                    out = orig(self_, true_rate)
                    entry = (true_rate, rec._shift, out)
                    if rec.units and rec.units[-1]["predict"] is None:
                        rec.units[-1]["predict"] = entry
                    else:
                        rec.units.append({"rate": None, "result": None, "predict": entry})
                    return out
                return predict
            self._patch(cls, "predict", mk(cls.__dict__["predict"]))

        for fn in ("normal", "uniform"):
            def mk2(orig):
                def draw(*a, **k):
                    v = orig(*a, **k)
                    if rec.snap:
                        v = rec._snap(v)
                    rec._shift = v
                    return v
                return draw
            self._patch(np.random, fn, mk2(getattr(np.random, fn)))

        o_choice = np.random.choice

        def choice(a, *args, **k):
            v = o_choice(a, *args, **k)
            rec._shift = v
            return v

        self._patch(np.random, "choice", choice)

        o_tag = Site.tag_emissions_at_component

        def tag_emissions_at_component(self_, equipment_group, component, tagging_info):
            rec.tags.append((equipment_group, component))
            rec._in_tag += 1
            try:
                return o_tag(self_, equipment_group, component, tagging_info)
            finally:
                rec._in_tag -= 1

        self._patch(Site, "tag_emissions_at_component", tag_emissions_at_component)

        o_tl = RepairableEmission.tag_leak

        def tag_leak(self_, *a, **k):
            rec.tagged.append(sc.em_id[id(self_)])
            return o_tl(self_, *a, **k)

        self._patch(RepairableEmission, "tag_leak", tag_leak)

        o_re = NonRepairableEmission.record_emission

        def record_emission(self_, *a, **k):
            rec.tagged.append(sc.em_id[id(self_)])
            return o_re(self_, *a, **k)

        self._patch(NonRepairableEmission, "record_emission", record_emission)

        o_ud = Emission.update_detection_records

        def update_detection_records(self_, *a, **k):
            if not rec._in_tag:
                rec.sensor_records.append(sc.em_id[id(self_)])
            return o_ud(self_, *a, **k)

        self._patch(Emission, "update_detection_records", update_detection_records)

        for cls in (DefaultComponentLevelSensor, DefaultEquipmentGroupLevelSensor, DefaultSiteLevelSensor):
            def mk3(orig):
                def detect_emissions(self_, *a, **k):
                    r = orig(self_, *a, **k)
                    rec.ret = r
                    return r
                return detect_emissions
            self._patch(cls, "detect_emissions", mk3(cls.__dict__["detect_emissions"]))
        return self

    def __exit__(self, *exc):
        for obj, name, old, _ in reversed(self._saved):
            setattr(obj, name, old)
        self._saved = []
        return False


# ------------------------------------------------------------------------------------------------
# one survey
# ------------------------------------------------------------------------------------------------
TRAVEL = 30          # minutes; an int, so `_get_travel_time` draws nothing


def make_method(world: World, name: str, sensor_info=None, mobile=False):
    """a real method object of the right class without its scheduling collaborators; the sensor is
    built by the class's own `_initialize_sensor` from the (real, possibly grid-varied) sensor dict"""
    params = world.methods[name]
    code, cls = SCALES[params["measurement_scale"]]
    mm = cls.__new__(cls)
    mm._name = name
    mm._weather = False
    # stationary: no crew-time accounting in survey_site; mobile: the three-way budget decision of
    # survey_site decides whether the survey completes today or is left in progress
    mm._deployment_type = pdc.Deployment_Types.MOBILE if mobile else pdc.Deployment_Types.STATIONARY
    mm._travel_times = TRAVEL
    mm._reporting_delay = params[pdc.Method_Params.REPORTING_DELAY]
    mm._emissions_tagged_daily = 0
    mm._initialize_sensor(sensor_info if sensor_info is not None else params[pdc.Method_Params.SENSOR],
                          world.in_dir)
    return mm, code


def sensor_info_variant(world: World, name: str, mdl, qtype, qparams, tail=()):
    """`tail`: further entries of the minimum_detection_limit list (the default has one value; the list
    forms with 3 / 4 values belong to other sensor types, a 4th value sets DefaultSensor._min_threshold,
    which the default sensors must not consult)"""
    info = copy.deepcopy(world.methods[name][pdc.Method_Params.SENSOR])
    info[pdc.Method_Params.MDL] = [mdl] + list(tail)
    info[pdc.Method_Params.QE][pdc.Method_Params.Q_TYPE] = qtype
    info[pdc.Method_Params.QE][pdc.Method_Params.QUANTIFICATION_PARAMETERS] = qparams
    return info


class SurveyResult:
    pass


def new_report(scene: Scene, si):
    return SiteSurveyReport(site_id=scene.sites[si].get_id())


def run_partial(scene: Scene, mm, report, si, day):
    """one day of a multi-day survey that must NOT complete: the crew's remaining time is chosen from the
    site's survey time (configuration) so that `survey_site` takes its "cannot finish, but can survey" branch.
    Returns the Recorder (everything the sensor / tagging path did that day: nothing is expected) or None if
    the remaining survey time is too short to be split."""
    site = scene.sites[si]
    s_time = site.get_method_survey_time(mm._name)
    left = s_time - report.time_surveyed
    if left < 2:
        return None
    crew = CrewDailyReport(crew_id=1, day_time_remaining=2 * TRAVEL + max(1, left // 2))
    cur = scene.start + timedelta(days=day)
    with Recorder(scene, snap=True) as rec:
        mm.survey_site(crew=crew, survey_report=report, site_to_survey=site, weather=None, curr_date=cur)
    rec.left_in_progress = bool(report.survey_in_progress and not report.survey_complete)
    rec.report_state = (report.site_true_rate, report.site_measured_rate, report.survey_completion_date)
    return rec


def run_survey(scene: Scene, mm, code, si, day, rng, model=True, report=None):
    """runs the real survey; returns (model request line, implementation reply line, facts for the oracle).
    model=False (unsnapped / off-grid pass): nothing is altered or snapped, no protocol lines are built,
    only the facts for the oracle are returned"""
    world = scene.world
    site = scene.sites[si]
    name = mm._name
    midx = world.mindex[name]
    key = f"{name} Spatial Coverage"
    before = scene.listing()
    state_before = {}
    for (n, act) in before:
        em = scene.em_obj[n]
        state_before[n] = (act, bool(em.is_emitting()), em._tech_spat_covs.get(key),
                           bool(getattr(em, "_tagged", False) or getattr(em, "_record", False)),
                           em._init_detect_by)
    cur = scene.start + timedelta(days=day)
    if report is None:
        report = SiteSurveyReport(site_id=site.get_id())
    # enough time to finish whatever is left of the site (mobile) / irrelevant (stationary)
    crew = CrewDailyReport(crew_id=1, day_time_remaining=100000)
    with Recorder(scene, snap=model) as rec:
        mm.survey_site(crew=crew, survey_report=report, site_to_survey=site, weather=None, curr_date=cur)
    if not report.survey_complete:
        raise RuntimeError("survey_site did not complete the survey although the crew had the time")
    mdl = mm._sensor._mdl
    if not model:
        res = SurveyResult()
        res.name, res.code, res.si, res.day, res.mdl = name, code, si, day, mdl
        res.report, res.rec, res.before, res.state_before = report, rec, before, state_before
        res.key, res.layout = key, scene.layout(si)
        res.tested = [u for u in rec.units if u["rate"] is not None]
        res.cov_after = {n: scene.em_obj[n]._tech_spat_covs.get(key) for (n, _) in before}
        return None, None, res
    # ---- model request -------------------------------------------------------------------
    layout = scene.layout(si)
    n_units = {"c": sum(len(cs) for _, cs in layout), "g": len(layout), "s": 1}[code]
    if len([u for u in rec.units if u["rate"] is not None]) != n_units:
        # the number of threshold tests differs from the number of units: scale confusion; the
        # model line is still produced (shifts in call order), the diff will show it
        pass
    errs = []
    tested = [u for u in rec.units if u["rate"] is not None]
    for k in range(n_units):
        u = tested[k] if k < len(tested) else None
        if u is not None and u["predict"] is not None and u["predict"][1] is not None:
            try:
                errs.append(to_units(u["predict"][1], 1))
            except InfraError:
                errs.append(0)      # a shift off the percent grid: the reply line will differ
        else:
            errs.append(rng.choice([-150, -100, -25, 0, 25, 75, 200]))   # must be ignored by the model
    emis = []
    for (n, act) in before:
        em = scene.em_obj[n]
        s_idx, g_name, c_name = scene.em_place[n][:3]
        sp = rec.spatial.get(n)
        sroll = sp[3] if (sp is not None and sp[1] > 0) else rng.randint(0, 1)
        troll = rec.temporal.get(n, rng.randint(0, 1))
        emis.append("[%d,%d,%d,%d,%d,%d,%d,%d,%d,[]]" % (
            n, s_idx, scene.eqg_index[g_name], scene.comp_index[c_name], to_units(em.get_rate()),
            1 if act else 0,
            # "emitting" handed to the model: from the configured on / off cycle (for emissions in an active list),
            # not from the emission's own is_emitting()
            1 if (scene.expected_emitting(n, day) if act else state_before[n][1]) else 0, sroll, troll))
    req = "survey %s %d %d %d %s %s %s 1" % (
        code, midx, si, to_units(mdl),
        "[" + ",".join("[%d,[%s]]" % (g, ",".join(map(str, cs))) for g, cs in layout) + "]",
        "[" + ",".join(map(str, errs)) + "]",
        "[" + ",".join(emis) + "]")
    res = SurveyResult()
    res.name, res.code, res.si, res.day, res.mdl = name, code, si, day, mdl
    res.report, res.rec, res.before, res.state_before = report, rec, before, state_before
    res.key, res.layout, res.tested = key, layout, tested
    res.cov_after = {n: scene.em_obj[n]._tech_spat_covs.get(key) for (n, _) in before}
    try:
        rep = _impl_reply(scene, code, report, rec, before, tested, key)
    except InfraError as e:
        # an output off the exact grid is a difference from the model, not a harness failure
        rep = "impl-output-off-grid: %s" % e
    return req, rep, res


def _impl_reply(scene, code, report, rec, before, tested, key):
    # ---- implementation reply --------------------------------------------------------------
    vis_ids = set()
    for _, ids in rec.detectable:
        vis_ids.update(ids)
    units_txt = []
    k = 0
    if code in ("c", "g"):
        for er in report.equipment_groups_surveyed:
            comps_txt = []
            if code == "c":
                for cr in er.emissions_detected:
                    u = tested[k] if k < len(tested) else {"predict": None}
                    k += 1
                    comps_txt.append("%d:%d:%d:%d" % (scene.comp_index[cr.component], to_units(cr.true_rate),
                                                      to_units(cr.measured_rate, SCALE * 100),
                                                      1 if u["predict"] is not None else 0))
                det = "-"
            else:
                u = tested[k] if k < len(tested) else {"predict": None}
                k += 1
                det = "1" if u["predict"] is not None else "0"
            units_txt.append("%d/%d/%d/%s/%s" % (scene.eqg_index[er.equipment_group], to_units(er.true_rate),
                                                 to_units(er.measured_rate, SCALE * 100), det, ",".join(comps_txt)))
    obs_txt = []
    for (n, act) in before:
        em = scene.em_obj[n]
        sp = rec.spatial.get(n)
        after = em._tech_spat_covs.get(key)
        obs_txt.append("%d:%d:%d:%d:%s" % (n, 1 if n in vis_ids else 0, 1 if (sp and sp[1] > 0) else 0,
                                           1 if n in rec.temporal else 0, "-" if after is None else int(after)))
    tagged = set(rec.tagged)
    recorded = set(rec.sensor_records)
    order = [n for (n, _) in before]
    rep = "%d %d %d | %s | %s | %s | %s | %s" % (
        1 if rec.ret else 0, to_units(report.site_true_rate), to_units(report.site_measured_rate, SCALE * 100),
        ";".join(units_txt) if units_txt else "-",
        ";".join(obs_txt) if obs_txt else "-",
        ",".join("%d.%d" % (scene.eqg_index[g], scene.comp_index[c]) for g, c in rec.tags) if rec.tags else "-",
        "[" + ",".join(str(n) for n in order if n in tagged) + "]",
        "[" + ",".join(str(n) for n in order if n in recorded) + "]")
    return rep


# ------------------------------------------------------------------------------------------------
# follow-up candidate decision of the real SiteLevelMethod (fresh site)
# ------------------------------------------------------------------------------------------------
class _FUStub:
    def __init__(self):
        self.calls = []

    def add_previous_queued_to_survey_queue(self, plan):
        self.calls.append(("prev", plan.site_id))

    def add_to_survey_queue(self, plan):
        self.calls.append(("queue", plan.site_id))


def flag_decision(site, inst, thr, measured):
    """real `SiteLevelMethod.update_mobile` for a site not yet in processing: does the detection enter
    the follow-up machinery (candidate list or queue)?"""
    from sortedcontainers import SortedList

    mm = SiteLevelMethod.__new__(SiteLevelMethod)
    mm._name = "S"
    mm._inst_threshold = float("inf") if inst is None else inst
    mm._threshold = thr
    mm._redund_filter = "recent"
    mm._detection_count = 0
    mm._candidates_for_flags = SortedList(key=lambda x: -x.rate_at_site)
    mm._site_IDs_in_consideration_for_flag = {}
    mm._site_IDs_in_follow_up_queue = {site.get_id(): False}
    mm._follow_up_schedule = _FUStub()
    mm.update_mobile(site.get_latest_tagging_survey_date(),
                     DetectionRecord(site_id=site.get_id(), site=site, rate_detected=measured))
    return bool(mm._site_IDs_in_consideration_for_flag.get(site.get_id(), False)
                or mm._site_IDs_in_follow_up_queue.get(site.get_id(), False)
                or len(mm._candidates_for_flags) > 0 or mm._follow_up_schedule.calls)


def flag_decision_stationary(site, small_thr, large_thr, measured, delay=0):
    """real stationary `SiteLevelMethod.update` (-> update_stationary -> update_candidates_for_flags) on
    the first detection record of a site: is the site queued for follow-up in that same update?"""
    from sortedcontainers import SortedList

    mm = SiteLevelMethod.__new__(SiteLevelMethod)
    mm._name = "FIX"
    mm._deployment_type = pdc.Deployment_Types.STATIONARY
    mm._reporting_delay = 0
    mm._inst_threshold = float("inf")
    mm._small_window, mm._large_window = 3, 10
    mm._small_window_threshold, mm._large_window_threshold = small_thr, large_thr
    mm._redund_filter = pdc.Method_Params.ROLLING_AVRG
    mm._detection_count = 0
    mm._first_candidate_date = None
    mm._delay = delay
    mm._proportion = 1.0
    mm._threshold_first = True
    mm._candidates_for_flags = SortedList(key=lambda x: -x.rate_at_site)
    mm._site_IDs_in_consideration_for_flag = {}
    mm._site_IDs_in_follow_up_queue = {site.get_id(): False}
    mm._follow_up_schedule = _FUStub()
    day = site.get_latest_tagging_survey_date()     # the first simulated day of the site's world
    mm._detection_records = {day: [DetectionRecord(site_id=site.get_id(), site=site, rate_detected=measured)]}
    stats = mm.update(day)
    return bool(mm._follow_up_schedule.calls), stats.sites_flagged
