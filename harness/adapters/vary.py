"""Drive the REAL sensitivity-variation code of LDAR-Sim.

Real functions / classes used (nothing re-implemented):
  parameters.parameters_holder.ParametersHolder, parameters.genric_parameters.GenericParameters
  (+ update_nested_dictionary), parameters.high_level_parameters.HighLevelParameters,
  sensitivity_analysis.sensitivity_processing.process_parameter_variations / get_sensitivity_info,
  sensitivity_analysis.parameter_variator.vary_parameter_values (+ _merge_variation).
The sub-parameter mappings handed to the Lean model are read from the ParametersHolder class.
"""
from __future__ import annotations

import copy
import os

from harness import shim

shim.install(chdir=False)

from harness.adapters import tree as T  # noqa: E402
from parameters.parameters_holder import ParametersHolder  # noqa: E402
from parameters.genric_parameters import GenericParameters  # noqa: E402
from parameters import genric_parameters as _gp  # noqa: E402
from parameters.high_level_parameters import HighLevelParameters  # noqa: E402
from sensitivity_analysis import parameter_variator as _pv  # noqa: E402
from sensitivity_analysis import sensitivity_processing as _sp  # noqa: E402
from constants.sensitivity_analysis_constants import (  # noqa: E402
    SensitivityAnalysisMapping as _sm,
    ParameterVariationConstants as _pvc,
)

canon = T.canon
to_line = T.to_line


def maps():
    return {
        "vw": copy.deepcopy(ParametersHolder.VIRTUAL_WORLD_SUB_PARAMETER_MAPPING),
        "out": copy.deepcopy(ParametersHolder.OUTPUTS_SUB_PARAMETER_MAPPING),
        "method": copy.deepcopy(ParametersHolder.METHOD_SUB_PARAMETER_MAPPING),
        "prog": copy.deepcopy(ParametersHolder.PROGRAM_SUB_PARAMETER_MAPPING),
    }


def constants_table():
    return {
        "method_name": _sm.METHOD_NAME, "method_params": _sm.Method_SENS_PARAMS,
        "program_name": _sm.PROGRAM_NAME, "program_params": _sm.PROGRAM_SENS_PARAMS,
        "method_rename": _pvc.METHOD_RENAMING_STR, "program_rename": _pvc.PROGRAM_RENAMING_STR,
        "mapping": dict(_sm.SENS_PARAM_MAPPING),
    }


def _guard(fn):
    r = T.guarded(fn)
    if r[0] == "reject" and r[1].startswith("crash:"):
        k = {"crash:IndexError": "index_error", "crash:ValueError": "value_error",
             "crash:ZeroDivisionError": "zero_division"}.get(r[1])
        if k:
            return ("reject", k, r[2])
    return r


def real_upd(cur, new):
    """update_nested_dictionary and _merge_variation (must agree on the merged dictionary)"""
    a, b = copy.deepcopy(cur), copy.deepcopy(cur)
    _gp.update_nested_dictionary(a, copy.deepcopy(new))
    _pv._merge_variation(b, copy.deepcopy(new))
    return a, b


def real_alter(mapping, d, key, value):
    d2, v2 = copy.deepcopy(d), copy.deepcopy(value)

    def f():
        h = GenericParameters(d2) if mapping is None else HighLevelParameters(d2, copy.deepcopy(mapping))
        h.alter_parameter(key, v2)
        return h.to_dict()

    return _guard(f)


def real_unpack(level, n, pv):
    p = copy.deepcopy(pv)
    return _guard(lambda: _sp.process_parameter_variations(p, level, n))


def holder_dicts(h):
    return {"sim": h.get_simulation_settings(), "programs": h.get_programs(),
            "vw": h.get_virtual_world(), "out": h.get_output()}


def _mutable_ids(obj, seen):
    """ids of every mutable object (dict, list, holder) reachable from obj"""
    if isinstance(obj, (str, int, float, bool, type(None))):
        return
    if id(obj) in seen:
        return
    if isinstance(obj, dict):
        seen[id(obj)] = obj
        for v in obj.values():
            _mutable_ids(v, seen)
    elif isinstance(obj, (list, tuple)):
        seen[id(obj)] = obj
        for v in obj:
            _mutable_ids(v, seen)
    elif hasattr(obj, "__dict__"):
        seen[id(obj)] = obj
        for v in vars(obj).values():
            _mutable_ids(v, seen)


def shared_objects(base_holder, set_holders):
    """mutable objects shared BY IDENTITY between the base holder and any produced set"""
    b = {}
    _mutable_ids(base_holder, b)
    out = []
    for i, s in enumerate(set_holders):
        t = {}
        _mutable_ids(s, t)
        for k in t:
            if k in b:
                o = b[k]
                out.append((i, type(o).__name__, repr(o if not hasattr(o, "to_dict") else o.to_dict())[:80]))
    return out


def real_vary(base, level, n, variations, sens="auto"):
    """base = {sim, programs, vw, out} (plain dictionaries, `baseline_program` inside sim).
    Returns (outcome, info): outcome = ('ok', [set dicts]) | ('reject', kind, detail);
    info = sens program used, canonical text of the base dictionaries and of the base holder before
    and after the call."""
    sim, progs = copy.deepcopy(base["sim"]), copy.deepcopy(base["programs"])
    vw, out = copy.deepcopy(base["vw"]), copy.deepcopy(base["out"])
    vars_in = copy.deepcopy(variations)
    holder = ParametersHolder(sim, progs, vw, out, sim.get("baseline_program"))
    before_d = canon([sim, progs, vw, out])
    before_h = canon(holder_dicts(holder))
    before_v = canon(vars_in)
    sp = holder.get_non_baseline_program() if sens == "auto" else sens

    shared = []

    def f():
        sets = _pv.vary_parameter_values(holder, sp, level, n, vars_in)
        shared.extend(shared_objects(holder, sets))
        return [holder_dicts(s) for s in sets]

    r = _guard(f)
    info = {
        "shared_with_base": shared,
        "sens": sp,
        "base_dicts_unchanged": before_d == canon([sim, progs, vw, out]),
        "base_holder_unchanged": before_h == canon(holder_dicts(holder)),
        "description_unchanged": before_v == canon(vars_in),
    }
    return r, info


def real_roundtrip(base):
    sim, progs = copy.deepcopy(base["sim"]), copy.deepcopy(base["programs"])
    vw, out = copy.deepcopy(base["vw"]), copy.deepcopy(base["out"])
    return _guard(lambda: holder_dicts(ParametersHolder(sim, progs, vw, out, sim.get("baseline_program"))))


def real_sens_info(scratch_dir, description):
    """the file route: write sens_info.yml, read it with get_sensitivity_info (as
    ldar_sim_sensitivity_analysis.py does); returns the dictionary handed to vary_parameter_values"""
    import yaml
    from pathlib import Path

    p = os.path.join(scratch_dir, "sens_info.yml")
    with open(p, "w") as fh:
        fh.write(yaml.safe_dump(description, sort_keys=False))

    def f():
        info = _sp.get_sensitivity_info(Path(scratch_dir), "sens_info.yml", [])
        info.pop(_sm.SENS_SUMMARY_INFO)
        return info

    return _guard(f)


def real_manager(paths, level, n, variations):
    """the route a sensitivity run really takes: SensitivitySimulationManager reads the files,
    builds the holder (generate_parameters_holder), setup_for_sensitivity_analysis varies it, and
    set_simulation_parameters hands the dictionaries of each set to the simulation.  The results
    manager and the output-folder initialisation are stubbed (they only touch the file system)."""
    import contextlib
    import io
    import simulation.sensitivity_simulation_manager as ssm
    from file_processing.input_processing.input_manager import InputManager

    class _StubResults:
        def __init__(self, **kw):
            self.kw = kw

    orig = ssm.SensitivityAnalysisResultsManager
    ssm.SensitivityAnalysisResultsManager = _StubResults

    def f():
        with T.in_repo(), contextlib.redirect_stdout(io.StringIO()):
            mgr = ssm.SensitivitySimulationManager(InputManager(), list(paths))
            mgr.initialize_original_outputs = lambda: None
            info = {_sm.PARAM_LEVEL: level, _sm.NUM_SENS_SETS: n,
                    _sm.PARAM_VARIATIONS: copy.deepcopy(variations),
                    _sm.SENS_SUMMARY_INFO: {"Confidence Interval": [85]}}
            mgr.setup_for_sensitivity_analysis(info)
            out = []
            for sp in mgr.sensitivity_simulation_parameters:
                mgr.set_simulation_parameters(sp)
                out.append({"sim": copy.deepcopy(mgr.sim_params), "programs": copy.deepcopy(mgr.programs),
                            "vw": copy.deepcopy(mgr.virtual_world), "out": copy.deepcopy(mgr.output_params),
                            "methods": sorted(map(str, mgr.methods)), "base_program": mgr.base_program})
            return {"sets": out, "sens": mgr.sensitivity_program}

    try:
        return _guard(f)
    finally:
        ssm.SensitivityAnalysisResultsManager = orig


C19_SOURCES = ["parameters/parameters_holder.py", "parameters/genric_parameters.py",
               "parameters/high_level_parameters.py", "sensitivity_analysis/parameter_variator.py",
               "sensitivity_analysis/sensitivity_processing.py", "constants/sensitivity_analysis_constants.py"]


def independent_sens(base):
    """the sensitivity program as the configuration defines it: the first program whose name is not
    the baseline's (computed from the dictionaries, not asked of the holder)"""
    baseline = base["sim"].get("baseline_program")
    for name, prog in base["programs"].items():
        if prog.get("program_name") != baseline:
            return name
    return None


def real_vary_history(base, calls):
    """ONE base holder built ONCE from ONE set of dictionaries, several vary calls in a row
    (calls = [(level, n, unpacked variations)]); returns the outcome of every call, whether the holder /
    the dictionaries it was built from are unchanged at the end, and a second holder built from the
    SAME dictionary objects before the calls (it must still render the base)."""
    sim, progs = copy.deepcopy(base["sim"]), copy.deepcopy(base["programs"])
    vw, out = copy.deepcopy(base["vw"]), copy.deepcopy(base["out"])
    holder = ParametersHolder(sim, progs, vw, out, sim.get("baseline_program"))
    twin = ParametersHolder(sim, progs, vw, out, sim.get("baseline_program"))   # same input objects
    before = canon([sim, progs, vw, out])
    sp = holder.get_non_baseline_program()
    outs = []
    for (level, n, variations) in calls:
        v = copy.deepcopy(variations)

        def f():
            return [holder_dicts(s) for s in _pv.vary_parameter_values(holder, sp, level, n, v)]

        outs.append(_guard(f))
    return outs, {
        "inputs_unchanged": before == canon([sim, progs, vw, out]),
        "holder_unchanged": canon(holder_dicts(holder)) == canon(base),
        "twin_unchanged": canon(holder_dicts(twin)) == canon(base),
    }


def real_roundtrips(base):
    """deepcopy and pickle round trips of the holder (vary relies on deepcopy; copy hooks that share
    sub-objects or drop attributes show here): rendered dictionaries equal, no object shared"""
    import pickle

    sim, progs = copy.deepcopy(base["sim"]), copy.deepcopy(base["programs"])
    vw, out = copy.deepcopy(base["vw"]), copy.deepcopy(base["out"])

    def f():
        h = ParametersHolder(sim, progs, vw, out, sim.get("baseline_program"))
        d = copy.deepcopy(h)
        p = pickle.loads(pickle.dumps(h))
        return {"deepcopy_equal": canon(holder_dicts(d)) == canon(holder_dicts(h)),
                "pickle_equal": canon(holder_dicts(p)) == canon(holder_dicts(h)),
                "deepcopy_shared": len(shared_objects(h, [d])), "pickle_shared": len(shared_objects(h, [p])),
                "baseline_kept": d.baseline_program_name == h.baseline_program_name == p.baseline_program_name}

    return _guard(f)
