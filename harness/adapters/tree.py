"""Drive the REAL parameter-intake code of LDAR-Sim on JSON-like trees.

Real functions used (nothing re-implemented):
  utils.check_parameter_types.check_types
  file_processing.input_processing.input_manager.InputManager
      .retain_update / .remove_type_placeholders / .validate_names / .read_and_validate_parameters
The default trees are the repo's own YAML files in src/default_parameters (loaded with the same
yaml.SafeLoader the InputManager uses).

Outcomes are either a tree (returned as Python data) or `reject:<kind>`; the kind of a `sys.exit()`
is recovered from the logged error message (matched against the repo's own message templates).

Trees travel to the Lean driver as one JSON value; `canon` is the type-strict canonical text used
for diffing (sorted keys, bool / int / float kept apart).
"""
from __future__ import annotations

import copy
import json
import logging
import os
import re
import shutil
import tempfile
from pathlib import Path

from harness import shim

shim.install(chdir=False)   # the working directory is switched only around calls that need it

import yaml  # noqa: E402
from utils.check_parameter_types import check_types  # noqa: E402
from file_processing.input_processing.input_manager import InputManager  # noqa: E402
from constants.error_messages import (  # noqa: E402
    Initialization_Messages as _im,
    Input_Processing_Messages as _ipm,
)
from constants.general_const import Placeholder_Constants as _phc  # noqa: E402
from constants.file_name_constants import Default_Files as _df  # noqa: E402
from constants.file_processing_const import ParameterProcessingConst as _ppc  # noqa: E402
import constants.param_default_const as _pc  # noqa: E402

DEFAULT_DIR = os.path.join(shim.REPO_SRC, "default_parameters")
PLACEHOLDERS = [_phc.PLACEHOLDER_INT, _phc.PLACEHOLDER_FLOAT, _phc.PLACEHOLDER_STR]
DEF_FILES = {
    "simulation_settings": _df.SIM_SETTING_DEF_FILE,
    "virtual_world": _df.VIRTUAL_DEF_FILE,
    "programs": _df.PROG_DEF_FILE,
    "mobile": _df.METH_MOBILE_DEF_FILE,
    "stationary": _df.METH_STATIONARY_DEF_FILE,
    "outputs": _df.OUTPUT_DEF_FILE,
}


def load_defaults():
    """filename -> tree, for every YAML file in src/default_parameters (fresh on every call)"""
    out = {}
    for f in sorted(os.listdir(DEFAULT_DIR)):
        if f.endswith((".yml", ".yaml")):
            with open(os.path.join(DEFAULT_DIR, f)) as fh:
                out[f] = yaml.load(fh.read(), Loader=yaml.SafeLoader)
    return out


def constants_table():
    """the constants the Lean model hard-codes, read from the repo (checked on every run)"""
    return {
        "placeholders": PLACEHOLDERS,
        "def_files": DEF_FILES,
        "default_key": _ppc.DEFAULT_PARAM_STRING,
        "default_path": _ppc.DEFAULT_PARAM_PATHWAY,
        "levels": [_pc.Levels.SIMULATION, _pc.Levels.VIRTUAL, _pc.Levels.PROGRAM, _pc.Levels.METHOD,
                   _pc.Levels.OUTPUTS],
        "keys": [_pc.Common_Params.PARAM_LEVEL, _pc.Common_Params.VERSION, _pc.Program_Params.NAME,
                 _pc.Program_Params.METHODS, _pc.Method_Params.NAME, _pc.Method_Params.DEPLOYMENT_TYPE,
                 _pc.Method_Params.QUANTIFICATION_PARAMETERS],
        "deployment": [_pc.Deployment_Types.MOBILE, _pc.Deployment_Types.STATIONARY],
    }


# ----------------------------------------------------------------------------------------------
# canonical text
# ----------------------------------------------------------------------------------------------
def canon(x):
    """type-strict canonical JSON text: sorted keys; True/1/1.0 stay distinct"""
    return json.dumps(x, sort_keys=True, ensure_ascii=False, allow_nan=False)


def to_line(x):
    """JSON for the Lean driver: key order preserved (Python dict order = file order)"""
    return json.dumps(x, ensure_ascii=False, allow_nan=False)


# ----------------------------------------------------------------------------------------------
# classification of rejections
# ----------------------------------------------------------------------------------------------
def _tmpl_re(t):
    parts = re.split(r"\{[^}]*\}", t)
    return re.compile(".*".join(re.escape(p) for p in parts), re.S)


_MSG_KINDS = [
    (_tmpl_re(_im.PARAMETER_CREATION_ERROR_MESSAGE), "unknown_key"),
    (_tmpl_re(_im.PARAMETER_TYPE_MISMATCH_ERROR_MESSAGE), "type_mismatch"),
    (_tmpl_re(_ipm.MISSING_METHOD_ERROR), "missing_method"),
    (_tmpl_re(_ipm.INVALID_NAME_ERROR), "reserved_name"),
]


class _Capture(logging.Handler):
    def __init__(self):
        super().__init__(level=logging.ERROR)
        self.msgs = []

    def emit(self, record):
        try:
            self.msgs.append(record.getMessage())
        except Exception:  # pragma: no cover
            self.msgs.append(str(record.msg))


_EXC_KINDS = [
    (KeyError, "key_error"),
    (TypeError, "type_error"),
    (AttributeError, "attr_error"),
    (UnboundLocalError, "unbound"),
    (OSError, "io_error"),
]


def guarded(fn):
    """run fn(); returns ('ok', value) or ('reject', kind, detail)"""
    cap = _Capture()
    root = logging.getLogger()
    root.addHandler(cap)
    old_disable = logging.root.manager.disable
    logging.disable(logging.NOTSET)
    try:
        return ("ok", fn())
    except SystemExit:
        kind = "exit"
        last = cap.msgs[-1] if cap.msgs else ""
        for rx, k in _MSG_KINDS:
            if rx.fullmatch(last) or rx.search(last):
                kind = k
                break
        return ("reject", kind, last[:300])
    except UnboundLocalError as e:
        return ("reject", "unbound", repr(e)[:300])
    except Exception as e:  # noqa: BLE001
        for cls, k in _EXC_KINDS:
            if isinstance(e, cls):
                return ("reject", k, repr(e)[:300])
        return ("reject", "crash:" + type(e).__name__, repr(e)[:300])
    finally:
        root.removeHandler(cap)
        logging.disable(old_disable)


def show(res):
    return canon(res[1]) if res[0] == "ok" else "reject:" + res[1]


# ----------------------------------------------------------------------------------------------
# the real functions
# ----------------------------------------------------------------------------------------------
# inputs a pure function was seen to modify: (function, argument, canonical text before, after)
INPUT_MUTATIONS = []
# ONE shared object per distinct default tree: every call on that default gets the same object, as
# the real code hands its loaded defaults on.  A call that scribbles on it is seen by the
# before/after comparison here and by every later case (the model has no history).
_SHARED_DEFAULTS = {}


def _shared(default):
    key = canon(default)
    if key not in _SHARED_DEFAULTS:
        _SHARED_DEFAULTS[key] = copy.deepcopy(default)
    return _SHARED_DEFAULTS[key], key


def omit_call_sites():
    """every `check_types(...)` call of input_manager.py in source order: (line, source text of the
    `omit_keys` argument or None, AST node type of that argument, its VALUE evaluated in the module's own
    namespace - exactly the object the call hands to check_types: a list, a tuple, or, with a missing
    comma, a bare string)"""
    import ast as _ast
    import file_processing.input_processing.input_manager as _imod

    path = os.path.join(shim.REPO_SRC, "file_processing", "input_processing", "input_manager.py")
    tree = _ast.parse(open(path).read())
    rows = []
    for node in _ast.walk(tree):
        if isinstance(node, _ast.Call) and isinstance(node.func, _ast.Name) and node.func.id == "check_types":
            kw = next((k for k in node.keywords if k.arg == "omit_keys"), None)
            if kw is None:
                rows.append((node.lineno, None, None, None))
                continue
            try:
                val = eval(compile(_ast.Expression(kw.value), "<omit_keys>", "eval"), vars(_imod))
            except Exception as e:  # noqa: BLE001
                val = ("unevaluable", repr(e))
            elts = getattr(kw.value, "elts", None)
            rows.append((node.lineno, _ast.unparse(kw.value), type(kw.value).__name__ + (f"[{len(elts)}]" if elts is not None else ""), val))
    return sorted(rows, key=lambda r: r[0])


def real_check(omit, default, test):
    """`omit` is handed to check_types as the object it is (list / tuple / whatever a call site passes)"""
    d, dkey = _shared(default)
    t = copy.deepcopy(test)
    tkey = canon(t)
    om = copy.copy(omit)
    r = guarded(lambda: check_types(d, t, "verif", omit_keys=om) or "ok")
    if canon(d) != dkey:
        INPUT_MUTATIONS.append(("check_types", "default", dkey[:300], canon(d)[:300]))
        _SHARED_DEFAULTS.pop(dkey, None)
    if canon(t) != tkey:
        INPUT_MUTATIONS.append(("check_types", "test", tkey[:300], canon(t)[:300]))
    if om != omit:
        INPUT_MUTATIONS.append(("check_types", "omit_keys", repr(omit), repr(om)))
    return r


class in_repo:
    """cwd = <repo>/LDAR_Sim while the InputManager opens ./src/default_parameters/..."""

    def __enter__(self):
        self._old = os.getcwd()
        os.chdir(shim.REPO_SIM)

    def __exit__(self, *a):
        os.chdir(self._old)
        return False


_IM = None


def _im_obj():
    global _IM
    if _IM is None:
        with in_repo():
            _IM = InputManager()
    return _IM


def real_merge(default, user):
    d, u = copy.deepcopy(default), copy.deepcopy(user)
    ukey = canon(u)

    def f():
        _im_obj().retain_update(d, u)
        return d

    r = guarded(f)
    if canon(u) != ukey:
        INPUT_MUTATIONS.append(("retain_update", "new_parameters", ukey[:300], canon(u)[:300]))
    return r


def real_strip(tree):
    t = copy.deepcopy(tree)

    def f():
        _im_obj().remove_type_placeholders(t)
        return t

    return guarded(f)


def real_names(sim):
    with in_repo():
        m = InputManager()
    m.simulation_parameters = copy.deepcopy(sim)
    return guarded(lambda: m.validate_names() or "ok")


class Scratch:
    """a temp dir outside /repo and /verif for generated parameter files"""

    def __init__(self):
        self.dir = tempfile.mkdtemp(prefix="ldar_c18_")
        self.n = 0

    def write(self, trees, as_json=()):
        """writes each tree as YAML (indices in `as_json`: as a .json file, the other format
        read_parameter_file accepts); returns (paths, trees as the InputManager's loader reads them)"""
        paths, seen = [], []
        sub = os.path.join(self.dir, f"s{self.n}")
        self.n += 1
        os.makedirs(sub)
        for i, t in enumerate(trees):
            if i in as_json:
                p = os.path.join(sub, f"f{i}.json")
                with open(p, "w") as fh:
                    fh.write(json.dumps(t, allow_nan=False))
                with open(p) as fh:
                    seen.append(json.loads(fh.read()))
            else:
                p = os.path.join(sub, f"f{i}.yaml")
                with open(p, "w") as fh:
                    fh.write(yaml.safe_dump(t, sort_keys=False, allow_unicode=True))
                with open(p) as fh:
                    seen.append(yaml.load(fh.read(), Loader=yaml.SafeLoader))
            paths.append(Path(p))
        self._last = sub
        return paths, seen

    def drop_last(self):
        shutil.rmtree(self._last, ignore_errors=True)

    def close(self):
        shutil.rmtree(self.dir, ignore_errors=True)


def real_intake_paths(paths):
    """end to end: a fresh InputManager reads and validates the files (as ldar_sim_run does)"""
    import contextlib
    import io

    def f():
        with in_repo():
            m = InputManager()
            with contextlib.redirect_stdout(io.StringIO()):
                return m.read_and_validate_parameters(list(paths))

    return guarded(f)


# ----------------------------------------------------------------------------------------------
# state that could survive between cases: class- / module-level mutable containers, copy hooks
# ----------------------------------------------------------------------------------------------
def mutable_state_table(rel_files):
    """AST table of what could carry state from one case to the next in the given source files:
    module-level and class-level assignments of mutable containers (dict / list / set displays,
    comprehensions, calls of dict/list/set/defaultdict/OrderedDict/deque), functools caches,
    __copy__ / __deepcopy__ / __reduce__ / __getstate__ / __setstate__ hooks, `global` statements.
    Returns sorted rows "file:scope:name:kind"."""
    import ast as _ast

    rows = []
    ctor = {"dict", "list", "set", "defaultdict", "OrderedDict", "deque", "Counter"}
    hooks = {"__copy__", "__deepcopy__", "__reduce__", "__reduce_ex__", "__getstate__", "__setstate__"}

    def kind(v):
        if isinstance(v, (_ast.Dict, _ast.DictComp)):
            return "dict"
        if isinstance(v, (_ast.List, _ast.ListComp)):
            return "list"
        if isinstance(v, (_ast.Set, _ast.SetComp)):
            return "set"
        if isinstance(v, _ast.Call):
            f = v.func
            nm = f.id if isinstance(f, _ast.Name) else (f.attr if isinstance(f, _ast.Attribute) else None)
            if nm in ctor:
                return nm
        return None

    def scan(body, scope, rel):
        for node in body:
            targets, value = [], None
            if isinstance(node, _ast.Assign):
                targets, value = node.targets, node.value
            elif isinstance(node, _ast.AnnAssign) and node.value is not None:
                targets, value = [node.target], node.value
            k = kind(value) if value is not None else None
            if k:
                for t in targets:
                    if isinstance(t, _ast.Name):
                        rows.append(f"{rel}:{scope}:{t.id}:{k}")
            if isinstance(node, _ast.ClassDef):
                scan(node.body, node.name, rel)
            if isinstance(node, (_ast.FunctionDef, _ast.AsyncFunctionDef)):
                if node.name in hooks:
                    rows.append(f"{rel}:{scope}:{node.name}:hook")
                for dec in node.decorator_list:
                    txt = _ast.unparse(dec)
                    if "cache" in txt:
                        rows.append(f"{rel}:{scope}:{node.name}:cache")
                for sub in _ast.walk(node):
                    if isinstance(sub, _ast.Global):
                        for nm in sub.names:
                            rows.append(f"{rel}:{scope}.{node.name}:{nm}:global")

    for rel in rel_files:
        with open(os.path.join(shim.REPO_SRC, rel)) as fh:
            tree = _ast.parse(fh.read())
        scan(tree.body, "<module>", rel)
    return sorted(set(rows))


def snapshot_state(rows):
    """canonical text of the current value of every container of the table (import + getattr)"""
    import importlib

    out = {}
    for row in rows:
        rel, scope, name, k = row.split(":")
        if k in ("hook", "cache", "global"):
            continue
        mod = importlib.import_module(rel[:-3].replace("/", "."))
        obj = mod if scope == "<module>" else getattr(mod, scope, None)
        if obj is None:   # a class nested in another class
            for outer in vars(mod).values():
                if isinstance(outer, type) and isinstance(getattr(outer, scope, None), type):
                    obj = getattr(outer, scope)
                    break
        try:
            out[row] = json.dumps(getattr(obj, name), sort_keys=True, default=repr)
        except Exception as e:  # noqa: BLE001
            out[row] = "unreadable:" + type(e).__name__
    return out


def intake_alone(trees):
    """the same intake in a FRESH interpreter (no history at all): canonical outcome text"""
    import subprocess
    import sys

    code = (
        "import sys, json\n"
        "sys.path.insert(0, %r)\n"
        "from harness.adapters import tree as T\n"
        "trees = json.loads(sys.stdin.read())\n"
        "sc = T.Scratch()\n"
        "try:\n"
        "    p, _ = sc.write(trees)\n"
        "    r = T.real_intake_paths(p)\n"
        "finally:\n"
        "    sc.close()\n"
        "sys.stdout.write('RESULT ' + T.show(r))\n"
    ) % os.path.dirname(os.path.dirname(os.path.dirname(os.path.abspath(__file__))))
    p = subprocess.run([sys.executable, "-c", code], input=json.dumps(trees), text=True, stdout=subprocess.PIPE,
                       stderr=subprocess.PIPE, timeout=600, env=dict(os.environ, PYTHONDONTWRITEBYTECODE="1"))
    for line in p.stdout.splitlines():
        if line.startswith("RESULT "):
            return line[len("RESULT "):]
    return "crash:" + (p.stderr or p.stdout)[-300:]
