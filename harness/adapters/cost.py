"""Drive the real cost booking: Method.initialize_cost_tracking (through the real constructors of
all four method classes), Method.deploy_crews / ComponentLevelMethod.deploy_crews (through
adapters.crew), ProgramOutputManager._init_ts_row / _update_ts_row_w_emis_info /
_update_ts_row_w_methods_info, the `first_day` wiring of LdarSim.run_simulation (read from the
source), and the repair-cost booking of RepairableEmission.update through the real Component.
"""
from __future__ import annotations

import ast
import datetime as dt
import os
from pathlib import Path

from harness import shim

shim.install()

from harness.adapters import crew as C  # noqa: E402
from file_processing.output_processing.output_utils import EmisInfo, TsEmisData, TsMethodData  # noqa: E402
from file_processing.output_processing.program_output_manager import ProgramOutputManager  # noqa: E402
from constants.output_file_constants import TIMESERIES_COL_ACCESSORS as tca  # noqa: E402
from constants.param_default_const import Output_Params as op  # noqa: E402
from scheduling.survey_planner import SurveyPlanner  # noqa: E402
from scheduling.workplan import Workplan  # noqa: E402


def _num(x):
    assert float(x) == int(x), x
    return int(x)


def opt(x):
    return "-" if x is None else str(x)


# ------------------------------------------------------------------------------------------------
# cost type selection
# ------------------------------------------------------------------------------------------------
def impl_select(per_day, per_site, upfront, stationary, crews, cls="method"):
    m = C.make_method(cls, stationary=stationary, crews=crews, per_day=per_day, per_site=per_site,
                      upfront=upfront)
    return m.cost_type, m.cost, m.get_upfront_cost(), m.get_crew_count()


def impl_constructs(per_day, per_site, upfront, builds):
    """builds = [(cls, stationary, crews)]: the real constructors run one after another on the SAME
    properties dict where possible (deployment type and crew count are keys of that dict, so they are
    set in place between constructions, the `cost` block is never touched by the harness).
    Returns ([upfront_cost of each method], cost block before, cost block after)"""
    import copy

    props = C.properties(per_day=per_day, per_site=per_site, upfront=upfront)
    before = copy.deepcopy(props[C.MP.COST])
    out = []
    for (cls, stationary, crews) in builds:
        props[C.MP.DEPLOYMENT_TYPE] = C.pdc.Deployment_Types.STATIONARY if stationary else C.pdc.Deployment_Types.MOBILE
        props[C.MP.N_CREWS] = crews
        m = C.make_method_from(cls, props)
        out.append(m.get_upfront_cost())
    return out, before, copy.deepcopy(props[C.MP.COST])


def constructs_line(per_day, per_site, upfront, builds):
    return "constructs %d %s %d [%s]" % (per_day, opt(per_site), upfront,
                                         ",".join("[%d,%d]" % (int(st), n) for (_, st, n) in builds))


def constructs_reply(res):
    return "[%s] %d" % (",".join(str(_num(u)) for u in res[0]), _num(res[2][C.MP.UPFRONT]))


def select_line(per_day, per_site, upfront, stationary, crews):
    return "select %d %s %d %d %d" % (per_day, opt(per_site), upfront, int(stationary), crews)


def select_reply(res):
    return "%s %d %d" % (res[0], _num(res[1]), _num(res[2]))


# ------------------------------------------------------------------------------------------------
# one method day with an explicit cost block
# ------------------------------------------------------------------------------------------------
def mday_case_to_day(case):
    """(cls, stationary, per_day, per_site, upfront, budget, crews, consider_weather, reqs) ->
    crew-adapter day case + cost block"""
    (cls, stationary, per_day, per_site, upfront, budget, crews, cw, reqs) = case[:9]
    day = (cls, stationary, "none", 0, budget, crews, cw, reqs, upfront) + tuple(case[9:])
    return day, {"per_day": per_day, "per_site": per_site, "upfront": upfront}


def impl_mday(case):
    day, cost_kw = mday_case_to_day(case)
    return C.impl_day(day, cost_kw=cost_kw)


def mday_line(case):
    (cls, stationary, per_day, per_site, upfront, budget, crews, cw, reqs) = case[:9]
    rq = C.reqs_token(reqs)
    e = C.ENV
    crews = C.configured_crews(mday_case_to_day(case)[0])   # from the configuration, never from the object
    return "mday %d %s %d %d %d %d %d %d [%d,%d,%d,%d,%d,%d] %s" % (
        per_day, opt(per_site), upfront, C.SCALE_CODE[cls], int(stationary), budget, crews, int(cw),
        e["temp"][0], e["temp"][1], e["wind"][0], e["wind"][1], e["precip"][0], e["precip"][1], rq)


def mday_reply(r):
    return "%s %d %d %d" % (r.cost_type, _num(r.unit_cost), _num(r.upfront), _num(r.stats.deployment_cost))


# ------------------------------------------------------------------------------------------------
# the daily row
# ------------------------------------------------------------------------------------------------
_POM = None


def _pom(names):
    pom = ProgramOutputManager(Path("/nonexistent-verif-out"), "P", list(names), {op.PROGRAM_VISUALIZATIONS: {}})
    return pom


def impl_row(first, ms, rep, nat, day=dt.date(2021, 3, 1), names=None):
    """ms = [(deploy, upfront)]; returns (cost, rep, nat, [method columns], full row).  `names`: the
    method names (default m0, m1, ...)"""
    names = list(names) if names else ["m%d" % i for i in range(len(ms))]
    pom = _pom(names)
    row = pom._init_ts_row(day)
    pom._update_ts_row_w_emis_info(new_row=row, ts_emis_info=TsEmisData(),
                                   ts_emis_rep_info=EmisInfo(repair_cost=rep, nat_repair_cost=nat))
    info = [TsMethodData(method_name=n, upfront_cost=u, daily_deployment_cost=d) for n, (d, u) in zip(names, ms)]
    pom._update_ts_row_w_methods_info(new_row=row, ts_methods_info=info, include_upfront_cost=first)
    cols = [row[tca.METH_DAILY_DEPLOY_COST.format(method=n)] for n in names]
    return row[tca.COST], row[tca.REP_COST], row[tca.NAT_REP_COST], cols, row


def row_line(first, ms, rep, nat):
    return "row %d [%s] %d %d" % (int(first), ",".join("[%d,%d]" % m for m in ms), rep, nat)


def row_reply(res):
    return "%d %d %d [%s]" % (_num(res[0]), _num(res[1]), _num(res[2]), ",".join(str(_num(c)) for c in res[3]))


# ------------------------------------------------------------------------------------------------
# the first_day wiring of LdarSim.run_simulation, read from the source
# ------------------------------------------------------------------------------------------------
def first_day_flags(n):
    """value of `include_upfront_cost` in each of the first n iterations of the day loop of
    LdarSim.run_simulation, obtained by interpreting the assignments to the flag variable found in
    the source (raises if the expected shape is not there)"""
    src = open(os.path.join(shim.REPO_SRC, "ldar_sim.py")).read()
    tree = ast.parse(src)
    fn = None
    for node in ast.walk(tree):
        if isinstance(node, ast.FunctionDef) and node.name == "run_simulation":
            fn = node
    if fn is None:
        raise RuntimeError("ldar_sim.py: run_simulation not found")

    def find_kw(stmt):
        for node in ast.walk(stmt):
            if isinstance(node, ast.Call) and isinstance(node.func, ast.Attribute) \
                    and node.func.attr == "_update_ts_row_w_methods_info":
                for kw in node.keywords:
                    if kw.arg == "include_upfront_cost":
                        return kw.value
                return ast.Constant(False)   # parameter default
        return None

    env = {}

    def assign(stmt):
        tgt = None
        if isinstance(stmt, ast.Assign) and len(stmt.targets) == 1 and isinstance(stmt.targets[0], ast.Name):
            tgt, val = stmt.targets[0].id, stmt.value
        elif isinstance(stmt, ast.AnnAssign) and isinstance(stmt.target, ast.Name) and stmt.value is not None:
            tgt, val = stmt.target.id, stmt.value
        if tgt is not None and isinstance(val, ast.Constant) and isinstance(val.value, bool):
            env[tgt] = val.value

    def value(expr):
        if isinstance(expr, ast.Constant):
            return bool(expr.value)
        if isinstance(expr, ast.Name) and expr.id in env:
            return env[expr.id]
        raise RuntimeError("ldar_sim.py: include_upfront_cost expression not understood: " + ast.unparse(expr))

    flags = []
    loop = None
    for stmt in fn.body:
        if isinstance(stmt, ast.While):
            loop = stmt
            break
        assign(stmt)
    if loop is None:
        raise RuntimeError("ldar_sim.py: day loop not found")
    if not any(find_kw(s) is not None for s in loop.body):
        raise RuntimeError("ldar_sim.py: call of _update_ts_row_w_methods_info not found in the day loop")
    for _ in range(n):
        for stmt in loop.body:
            kw = find_kw(stmt)
            if kw is not None:
                flags.append(value(kw))
            else:
                assign(stmt)
    return flags


def impl_prog(days):
    """days = [([(deploy, upfront)], rep, nat)]; rows produced the way the day loop does"""
    flags = first_day_flags(len(days))
    out = []
    for k, ((ms, rep, nat), first) in enumerate(zip(days, flags)):
        out.append(impl_row(first, ms, rep, nat, day=dt.date(2021, 3, 1) + dt.timedelta(days=k)))
    return out


def prog_line(days):
    return "prog [" + ",".join("[[%s],%d,%d]" % (",".join("[%d,%d]" % m for m in ms), rep, nat)
                               for (ms, rep, nat) in days) + "]"


def prog_reply(rows):
    costs = [_num(r[0]) for r in rows]
    return ";".join(str(c) for c in costs) + " | " + str(sum(costs))


# ------------------------------------------------------------------------------------------------
# repair cost of one emission
# ------------------------------------------------------------------------------------------------
def impl_repair(start, nrd, delay, n, cost, events, intermittent=False, adur=1, idur=0):
    """per day (repair_cost, nat_repair_cost) booked in that day's EmisInfo by the real
    RepairableEmission driven through the real Component; plus the emission.  `cost` may be a list
    (the code then draws one member with random.choice at booking time)"""
    from harness.adapters import emission as E
    from scheduling.schedule_dataclasses import TaggingInfo

    em = E.make_emission(start, nrd, delay, True, intermittent, adur, idur, cost=cost)
    comp = E.make_component([em])
    per_day = []
    status = []
    for dn in range(n):
        cur = E.SIM_START + dt.timedelta(days=dn)
        comp.activate_emissions(cur, 0)
        for (ed, c, trd) in events:
            if ed == dn and comp._active_emissions:
                comp.tag_emissions(TaggingInfo(2.0, cur, 5, f"c{c}", "1", trd))
        info = EmisInfo()
        comp.update_emissions_state(info, TsEmisData())
        per_day.append((info.repair_cost, info.nat_repair_cost, info.leaks_repaired, info.leaks_nat_repaired))
        status.append(em.get_status())
    return per_day, status, em


def repair_summary(em, n):
    """the emission's own output record (what goes to emissions_summary.csv): status, tagged by, and
    the day index of 'Date Repaired or Expired'"""
    from harness.adapters import emission as E
    from constants.output_file_constants import EMIS_DATA_COL_ACCESSORS as eca

    sd = em.get_summary_dict(E.summary_end_date(n))
    d = sd[eca.DATE_REP_EXP]
    return sd[eca.STATUS], sd[eca.TAGGED_BY], (None if d is None else (d - E.SIM_START).days)


def repair_line(start, nrd, delay, n, cost, events, intermittent=False, adur=1, idur=0):
    base = "repair %d %d %d %d %d [%s]" % (start, nrd, delay, n, cost, ",".join("[%d,%d,%d]" % e for e in events))
    return base + (" 1 %d %d" % (adur, idur) if intermittent else "")


def repair_reply(per_day):
    return ";".join("%d:%d" % (_num(a), _num(b)) for (a, b, _, _) in per_day) + " | %d %d" % (
        sum(_num(a) for (a, _, _, _) in per_day), sum(_num(b) for (_, b, _, _) in per_day))


# ------------------------------------------------------------------------------------------------
# one survey over several days with a per-site method
# ------------------------------------------------------------------------------------------------
def impl_mcost(S, stationary, charge, days, cls="method", site_cost=0):
    """real deploy_crews day after day for one site; the report is carried by the real
    SurveyPlanner, completed surveys are booked by the real GenericSchedule.update.
    days = [(R, T, workable, served)].  Returns (total charged, complete, per-day costs)"""
    site = C.StubSite("s0", S, site_cost)
    m = C.make_method(cls, sites=[site], stationary=stationary, consider_weather=True, workday=1, crews=1,
                      per_day=0, per_site=charge)
    crew_reports = m._crew_reports
    C.TravelScript(m, [])
    planner = SurveyPlanner(site)
    total = 0
    per_day = []
    complete = False
    for k, (R, T, workable, served) in enumerate(days):
        if complete:
            per_day.append(0)
            continue
        day = C.DATE0 + dt.timedelta(days=k)
        m._max_work_hours = C.hours_for(R)
        m._crew_reports = crew_reports if served else []
        m._get_travel_time.seq = [T]
        m._get_travel_time.i = 0
        wx = (15, 1, 0) if workable else C.UNWORKABLE_WX[(k + S) % len(C.UNWORKABLE_WX)]
        weather = C.StubWeather([wx], day.timetuple().tm_yday - 1)
        wp = Workplan([planner], day)
        stats = m.deploy_crews(wp, weather, C.StubDaylight(24))
        queued, done = C.requeue_classes(wp, day)
        c = _num(stats.deployment_cost)
        total += c
        per_day.append(c)
        if done:
            complete = True
    return total, complete, per_day


def mcost_line(S, stationary, charge, days):
    ds = "[" + ",".join("[%d,%d,%d,%d]" % (R, T, int(w), int(s)) for (R, T, w, s) in days) + "]"
    return "mcost %d %d %d %s" % (S, int(stationary), charge, ds)


def mcost_reply(res):
    return "%d %d" % (res[0], int(res[1]))
