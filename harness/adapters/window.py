"""Drive the REAL estimation-window code of LDAR-Sim on generated survey tables.

A table case is (mode, f, S, E, scale, recs): mode 0 = measurement-based (per site), 1 =
component-based (per site/equipment/component); f a Python float (the duration factor handed to
the code unchanged); S, E day numbers relative to EPOCH; recs = [(site, eqg, comp, day, rate_num)]
with eqg/comp = -1 for a site-level report and measured rate = rate_num / scale g/s.

Real objects used:
  scheduling.schedule_dataclasses.MinimalSurveyReport.to_report_summary  (rows exactly as
      Program.aggregate_method_survey_reports builds them)
  program_output.gen_estimated_emissions_report / gen_estimated_comp_emissions_report
      (sentinel rows, zero filling, sort, determine_start_and_end_dates, calculate_volume_emitted)
  program_output_helpers.calculate_start_date / calculate_end_date (directly, for the float grid)
  program_output_manager.ProgramOutputManager.summarize_program_outputs (whole path down to the
      <program>_<sim>_estimated_emissions.csv file)
determine_start_and_end_dates is wrapped (harness side, no repo edit) only to read the frame it
returns (survey dates of the rows next to their windows).
"""
from __future__ import annotations

import os
import shutil
import tempfile
import warnings
from datetime import date, timedelta
from fractions import Fraction

from harness import shim

# none of the window code opens files relative to the working directory: do not chdir (keeps a
# relative --replay path of the CLI valid)
shim.install(chdir=False)

import numpy as np  # noqa: E402
import pandas as pd  # noqa: E402

from file_processing.output_processing import program_output as po  # noqa: E402
from file_processing.output_processing import program_output_helpers as poh  # noqa: E402
from scheduling.schedule_dataclasses import MinimalSurveyReport  # noqa: E402
from constants.output_file_constants import EMIS_DATA_COL_ACCESSORS as eca  # noqa: E402
from constants.general_const import Conversion_Constants as conv_const  # noqa: E402

EPOCH = date(2000, 1, 1)
_EPOCH_TS = pd.Timestamp(EPOCH)


def day2date(n):
    return EPOCH + timedelta(days=int(n))


def ts2day(ts):
    """calendar date of a window boundary as a day number, by Python's own date arithmetic (the code
    under test subtracts pandas Timestamps); a boundary that is not at midnight is an error"""
    t = pd.Timestamp(ts).to_pydatetime()
    if (t.hour, t.minute, t.second, t.microsecond) != (0, 0, 0, 0):
        raise RuntimeError(f"window boundary {ts} is not a whole day")
    return (t.date() - EPOCH).days


def repo_constant():
    """the conversion constant the code multiplies with (must be the double nearest 864/10)"""
    return conv_const.GRAMS_PER_SECOND_TO_KG_PER_DAY


# ----------------------------------------------------------------------------------------------
# whole tables through the real report functions
# ----------------------------------------------------------------------------------------------
# names chosen to collide in every way a name can: prefixes of each other, digits whose natural and
# lexicographic orders differ, underscores, blanks, commas, marker-like and NA-like strings
WEIRD_SITES = ["A", "A_1", "A_10", "A_2", "10", "9", "1", "01", "100", "kept", "keptA", "Logs", "NA", "nan",
               "None", "null", "Placeholder_0", "site", "site_1", "site_1_1", "site_11", "a b", "x,y", "Ä1",
               "_", "__", "0", "-1", "1.0", "1e3", "True", "NaT", "inf", "start", "end", "Site ID", "S_", "s",
               "S", "z" * 40, "q"]
WEIRD_EQG = ["eq", "eq_1", "eq_10", "eq_2", "1", "kept", "NA", "E", "e q", "None"]
WEIRD_COMP = ["c", "c_1", "c_10", "c_2", "1", "Placeholder_0", "nan", "C", "c,d", "null"]


def _site_name(site, style):
    if style == "int":
        return int(site)
    if style == "weird":
        return WEIRD_SITES[int(site) % len(WEIRD_SITES)]
    return f"site_{site}"


def _eqg_name(e, style):
    return WEIRD_EQG[e % len(WEIRD_EQG)] if style == "weird" else f"E{e}"


def _comp_name(c, style):
    return WEIRD_COMP[c % len(WEIRD_COMP)] if style == "weird" else f"C{c}"


def _missing(x):
    return x is None or x is pd.NA or (isinstance(x, float) and np.isnan(x))


def _site_back(x, style="str"):
    if style == "weird":
        return WEIRD_SITES.index(str(x))
    if isinstance(x, str):
        return int(x.split("_")[1])
    return int(x)


def _id_back(x, style="str", pool=None):
    if _missing(x) or (style != "weird" and x == ""):
        return -1
    if style == "weird":
        return pool.index(str(x))
    return int(str(x)[1:])


def survey_frame(recs, scale, style="str"):
    """the frame Program.aggregate_method_survey_reports would hand over"""
    rows = []
    for (site, eqg, comp, day, rn) in recs:
        rep = MinimalSurveyReport(
            site_id=_site_name(site, style),
            equipment_id=None if eqg < 0 else _eqg_name(eqg, style),
            component_id=None if comp < 0 else _comp_name(comp, style),
            measured_rate=rn / scale,
            survey_completion_date=day2date(day),
        )
        rows.append(rep.to_report_summary())
    return pd.DataFrame(rows)


def _call_report(mode, df, S, E, f):
    captured = []
    orig = po.determine_start_and_end_dates

    def wrapped(frame, grouped, factor):
        out = orig(frame, grouped, factor)
        captured.append(out)
        return out

    fn = po.gen_estimated_emissions_report if mode == 0 else po.gen_estimated_comp_emissions_report
    po.determine_start_and_end_dates = wrapped
    try:
        with warnings.catch_warnings():
            warnings.simplefilter("ignore")
            res = fn(df, pd.DataFrame(), day2date(S), day2date(E), f)
    finally:
        po.determine_start_and_end_dates = orig
    return res, captured


SHAPE_ISSUES = []   # unexpected shapes of the code met by the adapter (reported as broken obligations)
HISTORY_ISSUES = []  # input frames mutated by the call / a repeated call giving another result


def impl_report(case, style="str", audit=False):
    """-> dict key(site,eqg,comp) -> list of windows dict(start, stop, [date], rate_num, vol);
    {} when the code produces no report.  Site / equipment / component / dates are read from the
    report itself where it carries them, else from the frame determine_start_and_end_dates returned.
    `audit`: also check that the input frame is left untouched and that a second call on the same
    frame gives the same report."""
    (mode, f, S, E, scale, recs) = case
    df = survey_frame(recs, scale, style)
    if df.empty:
        df = pd.DataFrame(columns=[eca.SITE_ID, eca.EQG, eca.COMP, eca.M_RATE, eca.SURVEY_COMPLETION_DATE])
    before = df.copy(deep=True) if audit else None
    res, captured = _call_report(mode, df, S, E, f)
    if audit:
        if not (df.equals(before) and list(df.columns) == list(before.columns)):
            HISTORY_ISSUES.append(("input survey frame mutated by the report function", case))
        res2, _ = _call_report(mode, df, S, E, f)
        same = (res is None and res2 is None) or (res is not None and res2 is not None and res[0].equals(res2[0]))
        if not same:
            HISTORY_ISSUES.append(("second call on the same frame gives another report", case))
    if res is None:
        return {}
    est = res[0]
    full = captured[-1] if captured else None
    if full is None:
        SHAPE_ISSUES.append("determine_start_and_end_dates was not called by the report function")
    elif len(est) != len(full):
        SHAPE_ISSUES.append("report and frame of determine_start_and_end_dates differ in length")
        full = None

    def col(name):
        if name in est.columns:
            return est[name].tolist()
        if full is not None and name in full.columns:
            return full[name].tolist()
        return None

    sites = col(eca.SITE_ID)
    eqgs = col(eca.EQG) if mode == 1 else None
    comps = col(eca.COMP) if mode == 1 else None
    dates = col(eca.SURVEY_COMPLETION_DATE)
    if full is not None and eca.SITE_ID in est.columns and est[eca.SITE_ID].tolist() != full[eca.SITE_ID].tolist():
        SHAPE_ISSUES.append("site ids of the report and of the window frame differ row by row")
    starts = est[eca.START_DATE].tolist()
    stops = est[eca.END_DATE].tolist()
    rates = est[eca.M_RATE].tolist()
    vols = est[eca.EST_VOL_EMIT].tolist()
    prevs = col(eca.PREV_CONDITION)   # the two condition columns as the code computed them
    nexts = col(eca.NEXT_CONDITION)
    out = {}
    for i in range(len(est)):
        key = (_site_back(sites[i], style),
               _id_back(eqgs[i], style, WEIRD_EQG) if eqgs is not None else -1,
               _id_back(comps[i], style, WEIRD_COMP) if comps is not None else -1)
        rn = Fraction(float(rates[i])) * scale
        if rn.denominator != 1:
            raise RuntimeError(f"rate {rates[i]} off the grid")
        w = {"start": ts2day(starts[i]), "stop": ts2day(stops[i]), "rate_num": int(rn), "vol": float(vols[i])}
        if dates is not None:
            w["date"] = ts2day(dates[i])
        if prevs is not None and nexts is not None:
            w["prev"], w["next"] = bool(prevs[i]), bool(nexts[i])
        out.setdefault(key, []).append(w)
    return out


def run_cases_fresh(cases, style="str"):
    """the cases, in this order, in ONE fresh Python process (nothing of this process's history);
    -> list of reports (keys as strings 'site,eqg,comp')"""
    import json
    import subprocess
    import sys as _sys

    env = dict(os.environ)
    env["PYTHONPATH"] = os.path.dirname(os.path.dirname(os.path.dirname(os.path.abspath(__file__)))) + os.pathsep + env.get("PYTHONPATH", "")
    env["PYTHONDONTWRITEBYTECODE"] = "1"
    p = subprocess.run([_sys.executable, "-m", "harness.adapters.window"], input=json.dumps({"cases": cases, "style": style}),
                       stdout=subprocess.PIPE, stderr=subprocess.PIPE, text=True, env=env, timeout=600)
    if p.returncode != 0:
        raise RuntimeError("fresh-process run failed: " + p.stderr[-800:])
    return json.loads(p.stdout.strip().splitlines()[-1])


def report_to_json(rep):
    return {"%d,%d,%d" % k: [[w["start"], w["stop"], w.get("date"), w["rate_num"], w["vol"]] for w in ws]
            for k, ws in sorted(rep.items())}


# ----------------------------------------------------------------------------------------------
# the two helpers directly, vectorised over gaps (float confrontation)
# ----------------------------------------------------------------------------------------------
_PAIR_CACHE = {}


def _pair_frame(g0, g1):
    """rows (A, B) per gap with B = A + gap days, once with the condition True and once False"""
    key = (g0, g1)
    if key not in _PAIR_CACHE:
        gaps = np.arange(g0, g1 + 1)
        n = len(gaps)
        base = np.datetime64(EPOCH, "ns")
        dates = np.empty(2 * n, dtype="datetime64[ns]")
        dates[0::2] = base
        dates[1::2] = base + gaps.astype("timedelta64[D]").astype("timedelta64[ns]")
        dates = np.concatenate([dates, dates])
        cond = np.concatenate([np.ones(2 * n, dtype=bool), np.zeros(2 * n, dtype=bool)])
        _PAIR_CACHE[key] = (gaps, dates, cond)
    return _PAIR_CACHE[key]


def helper_offsets(f, g0=0, g1=2000):
    """real calculate_end_date / calculate_start_date for every gap g0..g1 and both conditions.
    -> gaps, eT, eF, sT, sF (numpy int64 arrays): end offset of the earlier row when its next
    condition is True / False, start offset of the later row when its previous condition is
    True / False"""
    gaps, dates, cond = _pair_frame(g0, g1)
    n = len(gaps)
    df_e = pd.DataFrame({eca.NEXT_CONDITION: cond, eca.SURVEY_COMPLETION_DATE: dates})
    ends = poh.calculate_end_date(df_e, f)
    e = ((ends.to_numpy() - dates) // np.timedelta64(1, "D")).astype(np.int64)
    df_s = pd.DataFrame({eca.PREV_CONDITION: cond, eca.SURVEY_COMPLETION_DATE: dates})
    starts = poh.calculate_start_date(df_s, f)
    s = ((dates - starts.to_numpy()) // np.timedelta64(1, "D")).astype(np.int64)
    exact_e = (ends.to_numpy() - dates) == e.astype("timedelta64[D]")
    exact_s = (dates - starts.to_numpy()) == s.astype("timedelta64[D]")
    if not (exact_e.all() and exact_s.all()):
        raise RuntimeError("window offset is not a whole number of days")
    eT, eF = e[0:2 * n:2], e[2 * n::2]      # A rows
    sT, sF = s[1:2 * n:2], s[2 * n + 1::2]  # B rows
    return gaps, eT, eF, sT, sF


def helper_offsets_many(fs, g0=0, g1=2000):
    """the same two real helpers, one call each for a whole list of factors: the `factor`
    argument is a float64 array (one factor per row) instead of a Python float — numpy evaluates
    `1 - factor`, `np.where(...)`, `duration * factor` element-wise with the same IEEE double
    operations as for a scalar (cross-checked against scalar calls by the check).
    -> gaps, eT, eF, sT, sF as int64 arrays of shape (len(fs), number of gaps)"""
    gaps, dates1, cond1 = _pair_frame(g0, g1)
    n = len(gaps)
    m = len(fs)
    dates = np.tile(dates1, m)
    cond = np.tile(cond1, m)
    factor = np.repeat(np.asarray(fs, dtype=np.float64), 4 * n)
    df_e = pd.DataFrame({eca.NEXT_CONDITION: cond, eca.SURVEY_COMPLETION_DATE: dates})
    ends = poh.calculate_end_date(df_e, factor).to_numpy()
    df_s = pd.DataFrame({eca.PREV_CONDITION: cond, eca.SURVEY_COMPLETION_DATE: dates})
    starts = poh.calculate_start_date(df_s, factor).to_numpy()
    day = np.timedelta64(1, "D")
    e = ((ends - dates) // day).astype(np.int64)
    s = ((dates - starts) // day).astype(np.int64)
    if not (((ends - dates) == e * day).all() and ((dates - starts) == s * day).all()):
        raise RuntimeError("window offset is not a whole number of days")
    e = e.reshape(m, 4 * n)
    s = s.reshape(m, 4 * n)
    eT, eF = e[:, 0:2 * n:2], e[:, 2 * n::2]
    sT, sF = s[:, 1:2 * n:2], s[:, 2 * n + 1::2]
    return gaps, eT, eF, sT, sF


def pair_conditions(pairs):
    """the REAL calculate_next_condition / calculate_prev_condition on two-row groups (earlier rate,
    later rate): -> list of (next condition of the earlier row, previous condition of the later row)"""
    n = len(pairs)
    rates = np.empty(2 * n, dtype=np.float64)
    rates[0::2] = [p[0] for p in pairs]
    rates[1::2] = [p[1] for p in pairs]
    df = pd.DataFrame({eca.SITE_ID: np.repeat(np.arange(n), 2), eca.M_RATE: rates})
    g = df.groupby(eca.SITE_ID)
    df = poh.calculate_prev_condition(df, g)
    df = poh.calculate_next_condition(df, g)
    nx = df[eca.NEXT_CONDITION].to_numpy()
    pv = df[eca.PREV_CONDITION].to_numpy()
    edge = [(bool(pv[2 * i]), bool(nx[2 * i + 1])) for i in range(n)]   # first row's prev, last row's next
    return [(bool(nx[2 * i]), bool(pv[2 * i + 1])) for i in range(n)], edge


def helper_offsets_pairs(fs, conds, g0=0, g1=2000):
    """calculate_end_date on the earlier row and calculate_start_date on the later row of an interval,
    for every factor, every gap g0..g1 and every pair of conditions in `conds` (list of (next condition
    of the earlier row, previous condition of the later row) AS THE REAL CONDITION FUNCTIONS gave them for
    a pair of rates).  -> gaps, end offsets, start offsets, each of shape (len(fs), len(conds), gaps)"""
    gaps = np.arange(g0, g1 + 1)
    n = len(gaps)
    m, c = len(fs), len(conds)
    base = np.datetime64(EPOCH, "ns")
    d1 = np.empty(2 * n, dtype="datetime64[ns]")
    d1[0::2] = base
    d1[1::2] = base + gaps.astype("timedelta64[D]").astype("timedelta64[ns]")
    dates = np.tile(d1, m * c)
    nxt = np.tile(np.concatenate([np.repeat(bool(a), 2 * n) for a, _ in conds]), m)
    prv = np.tile(np.concatenate([np.repeat(bool(b), 2 * n) for _, b in conds]), m)
    factor = np.repeat(np.asarray(fs, dtype=np.float64), 2 * n * c)
    ends = poh.calculate_end_date(pd.DataFrame({eca.NEXT_CONDITION: nxt, eca.SURVEY_COMPLETION_DATE: dates}), factor).to_numpy()
    starts = poh.calculate_start_date(pd.DataFrame({eca.PREV_CONDITION: prv, eca.SURVEY_COMPLETION_DATE: dates}), factor).to_numpy()
    day = np.timedelta64(1, "D")
    e = ((ends - dates) // day).astype(np.int64)
    s = ((dates - starts) // day).astype(np.int64)
    if not (((ends - dates) == e * day).all() and ((dates - starts) == s * day).all()):
        raise RuntimeError("window offset is not a whole number of days")
    e = e.reshape(m, c, 2 * n)[:, :, 0::2]   # earlier rows
    s = s.reshape(m, c, 2 * n)[:, :, 1::2]   # later rows
    return gaps, e, s


# ----------------------------------------------------------------------------------------------
# whole path: ProgramOutputManager.summarize_program_outputs -> estimated_emissions.csv
# ----------------------------------------------------------------------------------------------
class _StubProgram:
    """what summarize_program_outputs reads from a Program"""

    def __init__(self, mode, f, frame):
        from constants.param_default_const import Duration_Method as dm

        self.duration_method = dm.MEASUREMENT_CONSERVATIVE if mode == 0 else dm.COMPONENT
        self.duration_factor = f
        self._frame = frame
        self.name = "P"

    def aggregate_method_survey_reports(self):
        return self._frame


def manager_report(case, style="str", repeat_tf_site=None):
    """run the real output manager on the case and read the windows back from the CSV it writes.
    `repeat_tf_site`: list that site twice in measured_tf_df (an infrastructure with a repeated site
    id — invalid input, used to document what the pd.merge before the CSV does with it)"""
    from file_processing.output_processing.program_output_manager import ProgramOutputManager
    from constants.param_default_const import Output_Params as op
    from constants.file_name_constants import Output_Files
    from constants.infrastructure_const import Deployment_TF_Sites_Constants as DTSC
    from constants.output_file_constants import EMIS_INFO_COLUMNS_TO_KEEP_FOR_DURATION_ESTIMATION
    from pathlib import Path

    (mode, f, S, E, scale, recs) = case
    frame = survey_frame(recs, scale, style)
    tmp = tempfile.mkdtemp(prefix="c13_mgr_")
    try:
        mgr = ProgramOutputManager(Path(tmp) / "out", "P_0", ["M"], {op.PROGRAM_VISUALIZATIONS: {}})
        emis = pd.DataFrame({c: pd.Series([], dtype=object) for c in EMIS_INFO_COLUMNS_TO_KEEP_FOR_DURATION_ESTIMATION})
        emis[eca.REPAIRABLE] = pd.Series([], dtype=bool)
        sites = sorted({r[0] for r in recs})
        if repeat_tf_site is not None:
            sites = sites + [repeat_tf_site]
        tf = pd.DataFrame({DTSC.SITE_ID: [_site_name(s, style) for s in sites],
                           DTSC.SITE_TYPE: ["T"] * len(sites)})
        with warnings.catch_warnings():
            warnings.simplefilter("ignore")
            mgr.summarize_program_outputs(emis, pd.DataFrame({"x": []}), day2date(S), day2date(E),
                                          _StubProgram(mode, f, frame), tf)
        path = Path(tmp) / "out" / mgr.generate_file_names(Output_Files.EST_EMISSIONS_FILE)
        if not path.exists():
            return {}
        csv = pd.read_csv(path, float_precision="round_trip", keep_default_na=False, dtype={eca.SITE_ID: str, eca.EQG: str, eca.COMP: str} if style != "int" else None)
        out = {}
        for _, row in csv.iterrows():
            key = (_site_back(row[eca.SITE_ID], style),
                   _id_back(row[eca.EQG], style, WEIRD_EQG) if mode == 1 else -1,
                   _id_back(row[eca.COMP], style, WEIRD_COMP) if mode == 1 else -1)
            rn = Fraction(float(row[eca.M_RATE])) * scale
            out.setdefault(key, []).append({
                "start": ts2day(row[eca.START_DATE]), "stop": ts2day(row[eca.END_DATE]),
                "rate_num": int(rn) if rn.denominator == 1 else float(rn),
                "vol": float(row[eca.EST_VOL_EMIT]),
            })
        return out
    finally:
        shutil.rmtree(tmp, ignore_errors=True)


if __name__ == "__main__":
    import json
    import sys as _sys

    job = json.load(_sys.stdin)
    outs = []
    for c in job["cases"]:
        case = (c[0], c[1], c[2], c[3], c[4], [tuple(r) for r in c[5]])
        outs.append(report_to_json(impl_report(case, job.get("style", "str"))))
    print(json.dumps(outs))
