"""ast extractor for the generator-folder cache (C17): regenerates lean/LdarModel/Generated/Cache.lean.

Read from the CURRENT sources (shim.REPO_SRC/initialization):
  initialize_infrastructure.py  which (dictionary key, input) pairs are hashed into the hash file in
                                each regenerating branch, which are compared on reuse, which files
                                must exist before anything is reused, the file effects of both
                                regenerating branches in source order
  initialize_emissions.py       order of "emission files loop" / "count file" writes in the
                                regenerate-all branch and in the add-simulations branch
  preseed.py                    files written by gen_seed_emis / gen_seed_timeseries
Every entry carries its source line.  A pattern that is not found raises ExtractError (the check
reports it as a broken obligation and keeps the previous table) - never a silent default.
"""
from __future__ import annotations

import ast
import os

from harness import shim


class ExtractError(Exception):
    pass


FILE_CONST = {  # Generator_Files attribute -> model FileId
    "EMISSION_PRESEED_FILE": "seeds",
    "HASH_FILE": "hashes",
    "INFRA_FILE": "infra",
    "N_SIM_SAVE_FILE": "count",
    "PRESEED_FILE": "ts",
    "GEN_INFRA_EMISS": "emis",
}

# path of attribute names inside virtual_world[...]... -> model Input
VW_PATH_INPUT = {
    ("INFRA", "SITE"): "site",
    ("INFRA", "SITE_TYPE"): "siteType",
    ("INFRA", "EQUIP"): "equip",
    ("INFRA", "SOURCE"): "source",
    ("EMIS", "EMIS_FILE"): "emisRate",
    ("REPAIR", "REPAIR_DELAY", "FILE"): "repairDelay",
}
DICT_INPUT = {"virtual_world": "vw", "programs": "prog"}

# harness convention (not extracted): content number v of the virtual-world dictionary carries the
# simulated period PERIODS[min(v // 4, len - 1)] = (first day as offset from 2021-01-01, number of days);
# the repair cost is 200 + v.  cache.py builds the dictionaries from this, render() writes it as
# `periodOf` into the generated table.
# on purpose: same length shifted by two days; shorter; shifted by exactly one year; straddling New Year;
# Feb 28 - Mar 1 of a leap year (2024); one day; two days Dec 31 - Jan 1
PERIODS = [(0, 25), (2, 25), (0, 20), (365, 25), (353, 25), (1153, 3), (0, 1), (364, 2)]


def period_of(v):
    return PERIODS[min(v // 4, len(PERIODS) - 1)]


def _src(name):
    path = os.path.join(shim.REPO_SRC, "initialization", name)
    return path, open(path).read()


def _func(tree, name, path):
    for n in tree.body:
        if isinstance(n, ast.FunctionDef) and n.name == name:
            return n
    raise ExtractError(f"{path}: function {name} not found")


def _attr_tail(e):
    """pc.Virtual_World_Params.SITE -> 'SITE'"""
    if isinstance(e, ast.Attribute):
        return e.attr
    raise ExtractError(f"line {getattr(e, 'lineno', '?')}: expected a constant attribute, got {ast.unparse(e)}")


def _key_text(e):
    """dictionary key expression -> stable text ('Virtual_World_Params.SITE')"""
    txt = ast.unparse(e)
    return txt[3:] if txt.startswith("pc.") else txt


def _file_of_path_expr(e):
    """generator_dir / Generator_Files.X[.format(...)] -> FileId"""
    if isinstance(e, ast.BinOp) and isinstance(e.op, ast.Div):
        r = e.right
        if isinstance(r, ast.Call) and isinstance(r.func, ast.Attribute) and r.func.attr == "format":
            r = r.func.value
        if isinstance(r, ast.Attribute) and isinstance(r.value, ast.Name) and r.value.id == "Generator_Files":
            if r.attr in FILE_CONST:
                return FILE_CONST[r.attr]
    return None


def _file_vars(fn):
    """names assigned `generator_dir / Generator_Files.X` anywhere in the function -> FileId"""
    out = {}
    for n in ast.walk(fn):
        if isinstance(n, ast.Assign) and len(n.targets) == 1 and isinstance(n.targets[0], ast.Name):
            f = _file_of_path_expr(n.value)
            if f is not None:
                out[n.targets[0].id] = f
    return out


def _open_call(with_node):
    """`with open(X, "wb") as f:` -> (name of X, mode) or None"""
    if not isinstance(with_node, ast.With) or len(with_node.items) != 1:
        return None
    c = with_node.items[0].context_expr
    if isinstance(c, ast.Call) and isinstance(c.func, ast.Name) and c.func.id == "open" and len(c.args) >= 2 \
            and isinstance(c.args[0], ast.Name) and isinstance(c.args[1], ast.Constant):
        return c.args[0].id, c.args[1].value
    return None


def _isfile_arg(e):
    """os.path.isfile(X) -> 'X'"""
    if isinstance(e, ast.Call) and ast.unparse(e.func) == "os.path.isfile" and len(e.args) == 1 \
            and isinstance(e.args[0], ast.Name):
        return e.args[0].id
    return None


def _effects(stmts, files, where):
    """top-level file effects of a statement list, in source order:
    ('wr', file, node) | ('rm', file, node) | ('loop', [effects], node) | ('rd', file, node)"""
    out = []
    for s in stmts:
        oc = _open_call(s)
        if oc is not None:
            var, mode = oc
            if var not in files:
                raise ExtractError(f"{where}:{s.lineno}: open() of an unknown location {var}")
            out.append(("wr" if "w" in mode else "rd", files[var], s))
            continue
        if isinstance(s, ast.If):
            t = _isfile_arg(s.test)
            if t is not None and len(s.body) == 1 and isinstance(s.body[0], ast.Expr) \
                    and isinstance(s.body[0].value, ast.Call) \
                    and ast.unparse(s.body[0].value.func) in ("os.remove", "os.unlink") \
                    and ast.unparse(s.body[0].value.args[0]) == t and not s.orelse:
                if t not in files:
                    raise ExtractError(f"{where}:{s.lineno}: removal of an unknown location {t}")
                out.append(("rm", files[t], s))
                continue
        if isinstance(s, ast.For):
            inner = _effects(s.body, files, where)
            if inner:
                out.append(("loop", inner, s))
            continue
        if isinstance(s, ast.Try):
            out += _effects(s.body, files, where)
            continue
        # any other statement must not hide a file effect
        for n in ast.walk(s):
            if isinstance(n, ast.Call):
                fn = ast.unparse(n.func)
                if fn in ("os.remove", "os.unlink", "shutil.rmtree", "os.rename", "os.replace") or fn.endswith(".unlink"):
                    raise ExtractError(f"{where}:{n.lineno}: file effect in an unsupported position: {ast.unparse(n)}")
                if fn == "open" and len(n.args) >= 2 and isinstance(n.args[1], ast.Constant) and "w" in str(n.args[1].value):
                    raise ExtractError(f"{where}:{n.lineno}: write in an unsupported position: {ast.unparse(n)}")
    return out


# ------------------------------------------------------------------------------------------------
def extract_infrastructure():
    path, src = _src("initialize_infrastructure.py")
    tree = ast.parse(src)
    fn = _func(tree, "initialize_infrastructure", path)
    files = _file_vars(fn)
    # hash variables: name -> (input, line)
    hashvar = {}
    for n in fn.body:
        if isinstance(n, (ast.Assign, ast.AnnAssign)):
            tgt = n.targets[0] if isinstance(n, ast.Assign) else n.target
            val = n.value
            if not isinstance(tgt, ast.Name) or val is None:
                continue
            if isinstance(val, ast.IfExp):
                val = val.body
            if isinstance(val, ast.Call) and isinstance(val.func, ast.Name):
                if val.func.id == "hash_file" and len(val.args) == 1:
                    a = val.args[0]
                    if not (isinstance(a, ast.BinOp) and isinstance(a.op, ast.Div)):
                        raise ExtractError(f"{path}:{n.lineno}: unexpected hash_file argument")
                    sub = a.right
                    chain = []
                    while isinstance(sub, ast.Subscript):
                        chain.append(_attr_tail(sub.slice))
                        sub = sub.value
                    if not (isinstance(sub, ast.Name) and sub.id == "virtual_world"):
                        raise ExtractError(f"{path}:{n.lineno}: hashed file name does not come from virtual_world")
                    chain = tuple(reversed(chain))
                    if chain not in VW_PATH_INPUT:
                        raise ExtractError(f"{path}:{n.lineno}: hashed file {chain} is not a known input")
                    hashvar[tgt.id] = (VW_PATH_INPUT[chain], n.lineno)
                elif val.func.id == "hash_dict" and len(val.args) == 1 and isinstance(val.args[0], ast.Name):
                    if val.args[0].id not in DICT_INPUT:
                        raise ExtractError(f"{path}:{n.lineno}: hashed dictionary {val.args[0].id} is not a known input")
                    hashvar[tgt.id] = (DICT_INPUT[val.args[0].id], n.lineno)
    # the outer if / else
    outer = [n for n in fn.body if isinstance(n, ast.If) and any(
        _isfile_arg(x.operand) for x in ast.walk(n.test) if isinstance(x, ast.UnaryOp) and isinstance(x.op, ast.Not))]
    if len(outer) != 1:
        raise ExtractError(f"{path}: the `if not os.path.isfile(...) or ... or force_remake` statement was not found")
    outer = outer[0]
    test = outer.test
    if not (isinstance(test, ast.BoolOp) and isinstance(test.op, ast.Or)):
        raise ExtractError(f"{path}:{outer.lineno}: regeneration condition is not a disjunction")
    required, has_force = [], False
    for v in test.values:
        if isinstance(v, ast.UnaryOp) and isinstance(v.op, ast.Not) and _isfile_arg(v.operand):
            var = _isfile_arg(v.operand)
            if var not in files:
                raise ExtractError(f"{path}:{v.lineno}: isfile() of an unknown location {var}")
            required.append((files[var], v.lineno))
        elif isinstance(v, ast.Name) and v.id == "force_remake":
            has_force = True
        else:
            raise ExtractError(f"{path}:{v.lineno}: unexpected disjunct {ast.unparse(v)}")
    if not has_force:
        raise ExtractError(f"{path}:{outer.lineno}: force_remake is not part of the regeneration condition")

    def branch_ops(stmts):
        ops, hashed = [], None
        for kind, f, node in _effects(stmts, files, path):
            if kind == "rm":
                ops.append((f"rm {f}", node.lineno))
            elif kind == "wr" and f == "hashes":
                ops.append(("wrHashes", node.lineno))
                dump = [c for c in ast.walk(node) if isinstance(c, ast.Call) and ast.unparse(c.func) == "pickle.dump"]
                if len(dump) != 1 or not isinstance(dump[0].args[0], ast.Dict):
                    raise ExtractError(f"{path}:{node.lineno}: hash file content is not a dictionary literal")
                hashed = []
                for k, v in zip(dump[0].args[0].keys, dump[0].args[0].values):
                    if not isinstance(v, ast.Name) or v.id not in hashvar:
                        raise ExtractError(f"{path}:{k.lineno}: stored value {ast.unparse(v)} is not a hash of a known input")
                    hashed.append((_key_text(k), hashvar[v.id][0], k.lineno))
            elif kind == "wr" and f == "infra":
                ops.append(("wrInfra", node.lineno))
            elif kind == "rd":
                continue
            else:
                raise ExtractError(f"{path}:{node.lineno}: unexpected file effect {kind} {f} in a regenerating branch")
        if hashed is None:
            raise ExtractError(f"{path}: a regenerating branch does not write the hash file")
        return ops, hashed

    fresh_ops, hashed_fresh = branch_ops(outer.body)
    # else branch: reads, hashes_match, inner if
    stored = {}      # gen_x -> key text
    match_node, inner = None, None
    for n in outer.orelse:
        if isinstance(n, (ast.Assign, ast.AnnAssign)):
            tgt = n.targets[0] if isinstance(n, ast.Assign) else n.target
            val = n.value
            if isinstance(tgt, ast.Name) and tgt.id == "hashes_match":
                match_node = n
            elif isinstance(tgt, ast.Name) and isinstance(val, ast.Subscript) and isinstance(val.value, ast.Name) \
                    and val.value.id == "gen_infra_hash_dict":
                stored[tgt.id] = _key_text(val.slice)
            elif isinstance(tgt, ast.Name) and isinstance(val, ast.Call) and isinstance(val.func, ast.Attribute) \
                    and val.func.attr == "get" and isinstance(val.func.value, ast.Name) \
                    and val.func.value.id == "gen_infra_hash_dict" and len(val.args) == 1:
                stored[tgt.id] = _key_text(val.args[0])
        elif isinstance(n, ast.If) and isinstance(n.test, ast.Name) and n.test.id == "hashes_match":
            inner = n
    if match_node is None or inner is None:
        raise ExtractError(f"{path}: `hashes_match = ...` / `if hashes_match:` not found")
    mv = match_node.value
    if not (isinstance(mv, ast.BoolOp) and isinstance(mv.op, ast.And)):
        raise ExtractError(f"{path}:{match_node.lineno}: hashes_match is not a conjunction of comparisons")
    compared = []
    for c in mv.values:
        if not (isinstance(c, ast.Compare) and len(c.ops) == 1 and isinstance(c.ops[0], ast.Eq)
                and isinstance(c.left, ast.Name) and isinstance(c.comparators[0], ast.Name)):
            raise ExtractError(f"{path}:{c.lineno}: unexpected conjunct {ast.unparse(c)}")
        a, b = c.left.id, c.comparators[0].id
        if a in stored and b in hashvar:
            compared.append((stored[a], hashvar[b][0], c.lineno))
        elif b in stored and a in hashvar:
            compared.append((stored[b], hashvar[a][0], c.lineno))
        else:
            raise ExtractError(f"{path}:{c.lineno}: {ast.unparse(c)} does not compare a stored hash with a current one")
    # reuse branch must not write; mismatch branch regenerates
    for kind, f, node in _effects(inner.body, files, path):
        if kind != "rd":
            raise ExtractError(f"{path}:{node.lineno}: the reuse branch has a file effect")
    regen_ops, hashed_regen = branch_ops(inner.orelse)
    # hash_file_exist must be True exactly in the reuse branch
    def hfe_value(stmts):
        vals = [n.value.value for n in stmts if isinstance(n, ast.Assign) and isinstance(n.targets[0], ast.Name)
                and n.targets[0].id == "hash_file_exist" and isinstance(n.value, ast.Constant)]
        return vals
    if hfe_value(outer.body) != [False] or hfe_value(inner.body) != [True] or hfe_value(inner.orelse) != [False]:
        raise ExtractError(f"{path}: hash_file_exist is not False/True/False in the fresh/reuse/mismatch branches")
    return {
        "path": path, "hashedFresh": hashed_fresh, "hashedRegen": hashed_regen, "compared": compared,
        "required": required, "freshOps": fresh_ops, "regenOps": regen_ops,
    }


def extract_emissions():
    path, src = _src("initialize_emissions.py")
    tree = ast.parse(src)
    fn = _func(tree, "initialize_emissions", path)
    files = _file_vars(fn)
    outer = [n for n in fn.body if isinstance(n, ast.If) and "hash_file_exist" in ast.unparse(n.test)]
    if len(outer) != 1:
        raise ExtractError(f"{path}: `if not hash_file_exist or force_remake` not found")
    outer = outer[0]
    if ast.unparse(outer.test) != "not hash_file_exist or force_remake":
        raise ExtractError(f"{path}:{outer.lineno}: unexpected condition {ast.unparse(outer.test)}")

    def phases(stmts, lo_expected):
        out = []
        for kind, f, node in _effects(stmts, files, path):
            if kind == "loop":
                if [(k, ff) for k, ff, _ in f] != [("wr", "emis")]:
                    raise ExtractError(f"{path}:{node.lineno}: unexpected effects inside the loop")
                it = ast.unparse(node.iter)
                if it != lo_expected:
                    raise ExtractError(f"{path}:{node.lineno}: loop range is {it}, expected {lo_expected}")
                out.append(("emisLoop", node.lineno))
            elif kind == "wr" and f == "count":
                dump = [c for c in ast.walk(node) if isinstance(c, ast.Call) and ast.unparse(c.func) == "pickle.dump"]
                if len(dump) != 1 or ast.unparse(dump[0].args[0]) != "n_sims":
                    raise ExtractError(f"{path}:{node.lineno}: the count file does not store n_sims")
                out.append(("count", node.lineno))
            elif kind == "rd":
                continue
            else:
                raise ExtractError(f"{path}:{node.lineno}: unexpected file effect {kind} {f}")
        return out

    regen = phases(outer.body, "range(n_sims)")
    ext_if = [n for n in outer.orelse if isinstance(n, ast.If)]
    if len(ext_if) != 1 or ast.unparse(ext_if[0].test) != "n_simulation_saved < n_sims":
        raise ExtractError(f"{path}: `if n_simulation_saved < n_sims` not found in the reuse branch")
    for n in outer.orelse:
        if n is not ext_if[0]:
            for kind, f, node in _effects([n], files, path):
                if kind != "rd":
                    raise ExtractError(f"{path}:{node.lineno}: file effect outside the add-simulations block")
    extend = phases(ext_if[0].body, "range(n_simulation_saved, n_sims)")
    if ext_if[0].orelse:
        raise ExtractError(f"{path}:{ext_if[0].lineno}: unexpected else of the add-simulations block")
    def gen_args(stmts, what):
        calls = [n for s0 in stmts if isinstance(s0, ast.For) for n in ast.walk(s0)
                 if isinstance(n, ast.Call) and isinstance(n.func, ast.Attribute) and n.func.attr == "generate_emissions"]
        if len(calls) != 1:
            raise ExtractError(f"{path}: {len(calls)} generate_emissions calls in the {what} loop")
        c = calls[0]
        if c.args:
            raise ExtractError(f"{path}:{c.lineno}: positional arguments in a generate_emissions call")
        return sorted((f"{k.arg}={ast.unparse(k.value)}", c.lineno) for k in c.keywords)

    return {"path": path, "emisRegen": regen, "emisExtend": extend,
            "genArgsRegen": gen_args(outer.body, "regenerate-all"),
            "genArgsExtend": gen_args(ext_if[0].body, "add-simulations")}


def extract_preseed():
    path, src = _src("preseed.py")
    tree = ast.parse(src)
    out = {"path": path}
    for name, key in (("gen_seed_emis", "seedWrites"), ("gen_seed_timeseries", "tsWrites")):
        fn = _func(tree, name, path)
        files = _file_vars(fn)
        ws = []
        for n in ast.walk(fn):
            oc = _open_call(n)
            if oc and "w" in oc[1]:
                if oc[0] not in files:
                    raise ExtractError(f"{path}:{n.lineno}: write to an unknown location")
                ws.append((files[oc[0]], n.lineno))
        out[key] = sorted(ws, key=lambda x: x[1])
    # where the emission preseeds are drawn from: the process-wide generator (every draw is a fresh one),
    # or a generator object built inside gen_seed_emis from a fixed seed (the stream restarts on every call)
    fn = _func(tree, "gen_seed_emis", path)
    built = {}
    for n in ast.walk(fn):
        if isinstance(n, ast.Assign) and len(n.targets) == 1 and isinstance(n.targets[0], ast.Name) \
                and isinstance(n.value, ast.Call) and any(w in ast.unparse(n.value.func) for w in
                                                          ("RandomState", "default_rng", "Generator", "Random")):
            built[n.targets[0].id] = bool(n.value.args or n.value.keywords)
    draws = []
    for n in ast.walk(fn):
        if isinstance(n, (ast.Assign, ast.AnnAssign)):
            tgt = n.targets[0] if isinstance(n, ast.Assign) else n.target
            if isinstance(tgt, ast.Name) and tgt.id == "emis_preseed" and isinstance(n.value, ast.Call):
                draws.append(n.value)
    if not draws:
        raise ExtractError(f"{path}:{fn.lineno}: the draws of the emission preseeds were not found in gen_seed_emis")
    restart = False
    for c in draws:
        f = ast.unparse(c.func)
        if f in ("np.random.randint", "numpy.random.randint", "np.random.random_integers"):
            continue
        base = c.func.value if isinstance(c.func, ast.Attribute) else None
        if isinstance(base, ast.Name) and base.id in built:
            restart = restart or built[base.id]
            continue
        raise ExtractError(f"{path}:{c.lineno}: unexpected source of an emission preseed: {ast.unparse(c)}")
    for n in ast.walk(fn):      # re-seeding the process-wide generator inside gen_seed_emis restarts it as well
        if isinstance(n, ast.Call) and ast.unparse(n.func) in ("np.random.seed", "numpy.random.seed"):
            restart = True
    out["seedRestart"] = (restart, draws[0].lineno)
    # reuse rule of the daily seed series
    fn = _func(tree, "gen_seed_timeseries", path)
    outer = [n for n in fn.body if isinstance(n, ast.If) and "os.path.isfile(preseed_loc)" in ast.unparse(n.test)]
    if len(outer) != 1 or ast.unparse(outer[0].test) != "os.path.isfile(preseed_loc) and (not force_remake)":
        raise ExtractError(f"{path}: `if os.path.isfile(preseed_loc) and not force_remake` not found in gen_seed_timeseries")
    inner = [n for n in outer[0].body if isinstance(n, ast.If)]
    if len(inner) != 1 or not (len(inner[0].body) == 1 and isinstance(inner[0].body[0], ast.Return)):
        raise ExtractError(f"{path}:{outer[0].lineno}: reuse test of the stored seed series not found")
    test = inner[0].test
    conj = [ast.unparse(c) for c in (test.values if isinstance(test, ast.BoolOp) and isinstance(test.op, ast.And) else [test])]
    want_len = "(sim_end_date - sim_start_date).days + 1 == len(seed_ts_dict)"
    if want_len not in conj:
        raise ExtractError(f"{path}:{inner[0].lineno}: the reuse test does not compare the length: {conj}")
    rest = sorted(c for c in conj if c != want_len)
    reset = any(isinstance(n, ast.Assign) and ast.unparse(n) == "seed_ts_dict = {}" for n in outer[0].body
                if n.lineno > inner[0].lineno)
    if rest == ["sim_end_date in seed_ts_dict", "sim_start_date in seed_ts_dict"] and reset:
        out["tsExact"] = (True, inner[0].lineno)
    elif rest == []:
        out["tsExact"] = (False, inner[0].lineno)
    else:
        raise ExtractError(f"{path}:{inner[0].lineno}: unexpected reuse test of the stored seed series: {conj}, reset={reset}")
    return out


STATE_MODULES = ["initialization/initialize_infrastructure.py", "initialization/initialize_emissions.py",
                 "initialization/preseed.py"]
PICKLED_MODULES = ["virtual_world/infrastructure.py", "virtual_world/sites.py", "virtual_world/equipment_groups.py",
                   "virtual_world/component.py", "virtual_world/sources.py"]
_MUTABLE_CALLS = {"list", "dict", "set", "defaultdict", "OrderedDict", "deque", "Counter"}


def _is_mutable_literal(v):
    return isinstance(v, (ast.List, ast.Dict, ast.Set, ast.ListComp, ast.DictComp, ast.SetComp)) or (
        isinstance(v, ast.Call) and ast.unparse(v.func).split(".")[-1] in _MUTABLE_CALLS)


def extract_state():
    """state that survives between runs in one interpreter, and pickling hooks of what is stored:
      hiddenState       module-level mutable containers, memoising decorators and mutable default
                        arguments in the three initialisation modules; class-level mutable containers
                        of the pickled classes
      pickleDropped     (class, attribute) assigned to self somewhere in a class with an explicit
                        __reduce__/_reconstruct pair but not restored by _reconstruct
      pickleMisordered  (class, attribute) whose position in the __reduce__ tuple is not the position
                        of the _reconstruct parameter it is restored from"""
    hidden, dropped, misordered = [], [], []
    for rel in STATE_MODULES:
        path = os.path.join(shim.REPO_SRC, rel)
        tree = ast.parse(open(path).read())
        base = os.path.basename(rel)
        for n in tree.body:
            if isinstance(n, (ast.Assign, ast.AnnAssign)) and n.value is not None and _is_mutable_literal(n.value):
                hidden.append((f"{base}:{n.lineno} module-level {ast.unparse(n)[:40]}", n.lineno))
        for n in ast.walk(tree):
            if isinstance(n, (ast.FunctionDef, ast.AsyncFunctionDef)):
                for d in n.decorator_list:
                    if any(w in ast.unparse(d) for w in ("cache", "memo")):
                        hidden.append((f"{base}:{n.lineno} {n.name} @{ast.unparse(d)[:30]}", n.lineno))
                for dflt in list(n.args.defaults) + [x for x in n.args.kw_defaults if x is not None]:
                    if _is_mutable_literal(dflt):
                        hidden.append((f"{base}:{n.lineno} {n.name} mutable default", n.lineno))
            if isinstance(n, ast.Global):
                hidden.append((f"{base}:{n.lineno} global {','.join(n.names)}", n.lineno))
    for rel in PICKLED_MODULES:
        path = os.path.join(shim.REPO_SRC, rel)
        tree = ast.parse(open(path).read())
        base = os.path.basename(rel)
        for cls in tree.body:
            if not isinstance(cls, ast.ClassDef):
                continue
            for b in cls.body:
                if isinstance(b, (ast.Assign, ast.AnnAssign)) and b.value is not None and _is_mutable_literal(b.value):
                    hidden.append((f"{base}:{b.lineno} {cls.name} class-level {ast.unparse(b)[:40]}", b.lineno))
            meths = {m.name: m for m in cls.body if isinstance(m, ast.FunctionDef)}
            for hook in ("__deepcopy__", "__copy__", "__getstate__"):
                if hook in meths:
                    hidden.append((f"{base}:{meths[hook].lineno} {cls.name}.{hook}", meths[hook].lineno))
            if "__reduce__" not in meths:
                continue
            if "_reconstruct" not in meths:
                raise ExtractError(f"{path}:{cls.lineno}: {cls.name} has __reduce__ without _reconstruct")
            assigned = {}
            for fn in meths.values():
                for n in ast.walk(fn):
                    tg = n.targets if isinstance(n, ast.Assign) else (
                        [n.target] if isinstance(n, (ast.AnnAssign, ast.AugAssign)) else [])
                    for tt in tg:
                        if isinstance(tt, ast.Attribute) and isinstance(tt.value, ast.Name) and tt.value.id == "self":
                            assigned.setdefault(tt.attr, n.lineno)
            rec = meths["_reconstruct"]
            restored = {}
            for n in ast.walk(rec):
                if isinstance(n, ast.Assign) and isinstance(n.targets[0], ast.Attribute) \
                        and isinstance(n.targets[0].value, ast.Name) and n.targets[0].value.id == "instance":
                    restored[n.targets[0].attr] = ast.unparse(n.value)
            params = [a.arg for a in rec.args.args][1:]
            tup = None
            for n in ast.walk(meths["__reduce__"]):
                if isinstance(n, ast.Tuple) and n.elts and all(
                        isinstance(e, ast.Attribute) and isinstance(e.value, ast.Name) and e.value.id == "self"
                        for e in n.elts):
                    tup = n
                    break
            if tup is None:
                raise ExtractError(f"{path}:{meths['__reduce__'].lineno}: {cls.name}.__reduce__ argument tuple not found")
            for a in sorted(set(assigned) - set(restored)):
                dropped.append((cls.name, a, assigned[a]))
            for i, e in enumerate(tup.elts):
                got = [k for k, v in restored.items() if i < len(params) and v == params[i]]
                if got != [e.attr]:
                    misordered.append((cls.name, e.attr, e.lineno))
    return {"hiddenState": hidden, "pickleDropped": dropped, "pickleMisordered": misordered}


PATH_MODULES = ["ldar_sim_run.py", "simulation/simulation_manager.py", "initialization/initialize_infrastructure.py",
                "initialization/initialize_emissions.py", "initialization/preseed.py"]
_DICT_ROOTS = {"virtual_world": "vw", "programs": "prog", "methods": "prog"}   # methods alias the program dicts


def _root_name(e):
    """base of an attribute / subscript / call chain: self.virtual_world[...][...] -> 'virtual_world'"""
    while True:
        if isinstance(e, ast.Subscript):
            e = e.value
        elif isinstance(e, ast.Call):
            e = e.func
        elif isinstance(e, ast.Attribute):
            if isinstance(e.value, ast.Name) and e.value.id == "self":
                return e.attr
            e = e.value
        elif isinstance(e, ast.Name):
            return e.id
        else:
            return None


def extract_hash_view():
    """what the hasher gets to see:
      hashWholeFile  hash_file feeds the file to the hasher until EOF (loop / unbounded read), not one
                     bounded read
      removedKeys    (dictionary, statement) for every pop / popitem / clear / del applied to the
                     virtual-world or program dictionaries (or the method dictionaries aliasing them)
                     on the way from parameter intake to hash_dict"""
    path = os.path.join(shim.REPO_SRC, "initialization", "initialize_infrastructure.py")
    tree = ast.parse(open(path).read())
    hf = _func(tree, "hash_file", path)
    loops = [n for n in ast.walk(hf) if isinstance(n, (ast.For, ast.While, ast.ListComp, ast.GeneratorExp))]
    in_loop = set()
    for lp in loops:
        for n in ast.walk(lp):
            in_loop.add(id(n))
    reads = [n for n in ast.walk(hf) if isinstance(n, ast.Call) and isinstance(n.func, ast.Attribute)
             and n.func.attr in ("read", "read1", "readline", "readinto")]
    if not reads:
        raise ExtractError(f"{path}:{hf.lineno}: hash_file does not read its file in a recognised way")
    whole = all((not r.args and not r.keywords and r.func.attr == "read") or id(r) in in_loop for r in reads)
    updates = [n for n in ast.walk(hf) if isinstance(n, ast.Call) and isinstance(n.func, ast.Attribute)
               and n.func.attr == "update"]
    if not updates:
        raise ExtractError(f"{path}:{hf.lineno}: hash_file never updates the hasher")
    hd = _func(tree, "hash_dict", path)
    dumps = [n for n in ast.walk(hd) if isinstance(n, ast.Call) and ast.unparse(n.func) == "json.dumps"]
    if len(dumps) != 1 or not (isinstance(dumps[0].args[0], ast.Name) and dumps[0].args[0].id == hd.args.args[0].arg):
        raise ExtractError(f"{path}:{hd.lineno}: hash_dict does not serialise the dictionary it is given")
    removed = []
    for rel in PATH_MODULES:
        pth = os.path.join(shim.REPO_SRC, rel)
        tr = ast.parse(open(pth).read())
        base = os.path.basename(rel)
        for n in ast.walk(tr):
            tgt = None
            if isinstance(n, ast.Call) and isinstance(n.func, ast.Attribute) \
                    and n.func.attr in ("pop", "popitem", "clear", "__delitem__"):
                tgt = n.func.value
            elif isinstance(n, ast.Delete):
                for d in n.targets:
                    if isinstance(d, ast.Subscript):
                        tgt = d.value
            if tgt is not None and _root_name(tgt) in _DICT_ROOTS:
                removed.append((_DICT_ROOTS[_root_name(tgt)], f"{base}:{n.lineno} {ast.unparse(n)[:80]}", n.lineno))
    return {"hashWholeFile": (whole, reads[0].lineno), "removedKeys": removed}


def extract():
    t = {}
    t.update(extract_state())
    t.update(extract_hash_view())
    t.update(extract_infrastructure())
    e = extract_emissions()
    p = extract_preseed()
    t["paths"] = [t.pop("path"), e.pop("path"), p.pop("path")]
    t.update(e)
    t.update(p)
    return t


# ------------------------------------------------------------------------------------------------
def _lean_pairs(lst):
    return "[" + ", ".join(f'("{k}", .{i})' for k, i, _ in lst) + "]"


def _lean_iops(lst):
    def one(x):
        return f".rm .{x[3:]}" if x.startswith("rm ") else f".{x}"
    return "[" + ", ".join(one(x) for x, _ in lst) + "]"


def render(t):
    rel = [os.path.relpath(p, shim.REPO) for p in t["paths"]]
    lines = [
        "import LdarModel.Model.Cache",
        "/-",
        "GENERATED by harness/adapters/cache_extract.py on every check run - do not edit.",
        "Source: " + ", ".join(rel),
        "Lines: hashedFresh " + str([ln for *_, ln in t["hashedFresh"]]) + "; hashedRegen "
        + str([ln for *_, ln in t["hashedRegen"]]) + "; compared " + str([ln for *_, ln in t["compared"]])
        + "; required " + str([ln for _, ln in t["required"]]) + "; freshOps " + str([ln for _, ln in t["freshOps"]])
        + "; regenOps " + str([ln for _, ln in t["regenOps"]]) + "; emisRegen " + str([ln for _, ln in t["emisRegen"]])
        + "; emisExtend " + str([ln for _, ln in t["emisExtend"]]) + "; seedWrites "
        + str([ln for _, ln in t["seedWrites"]]) + "; tsWrites " + str([ln for _, ln in t["tsWrites"]])
        + "; tsExact " + str(t["tsExact"][1]),
        "periodOf: harness convention PERIODS = " + str(PERIODS) + " (cache_extract.py), not extracted",
        "-/",
        "namespace LdarModel.Generated.Cache",
        "open LdarModel.Cache",
        "",
        "def tbl : Tbl where",
        "  hashedFresh := " + _lean_pairs(t["hashedFresh"]),
        "  hashedRegen := " + _lean_pairs(t["hashedRegen"]),
        "  compared := " + _lean_pairs(t["compared"]),
        "  required := [" + ", ".join(f".{f}" for f, _ in t["required"]) + "]",
        "  freshOps := " + _lean_iops(t["freshOps"]),
        "  regenOps := " + _lean_iops(t["regenOps"]),
        "  emisRegen := [" + ", ".join(f".{p}" for p, _ in t["emisRegen"]) + "]",
        "  emisExtend := [" + ", ".join(f".{p}" for p, _ in t["emisExtend"]) + "]",
        "  seedWrites := [" + ", ".join(f".{f}" for f, _ in t["seedWrites"]) + "]",
        "  tsWrites := [" + ", ".join(f".{f}" for f, _ in t["tsWrites"]) + "]",
        "  tsExact := " + ("true" if t["tsExact"][0] else "false"),
        "  seedRestart := " + ("true" if t["seedRestart"][0] else "false"),
        "  extendSameArgs := " + ("true" if [a for a, _ in t["genArgsRegen"]] == [a for a, _ in t["genArgsExtend"]]
                                  else "false"),
        "  hashWholeFile := " + ("true" if t["hashWholeFile"][0] else "false"),
        "  vwKeysRemoved := " + ("true" if any(r[0] == "vw" for r in t["removedKeys"]) else "false"),
        "  progKeysRemoved := " + ("true" if any(r[0] == "prog" for r in t["removedKeys"]) else "false"),
        "  periodOf := fun v => match v / 4 with"
        + "".join(f" | {i} => ({a}, {b})" for i, (a, b) in enumerate(PERIODS[:-1]))
        + f" | _ => ({PERIODS[-1][0]}, {PERIODS[-1][1]})",
        "",
        "/-- state surviving between runs in one interpreter (module / class level containers, memoising",
        "decorators, mutable defaults, copy hooks) in the initialisation modules and the pickled classes -/",
        "def hiddenState : List String := [" + ", ".join(f'"{x}"' for x, _ in t["hiddenState"]) + "]",
        "/-- keyword arguments handed to Infrastructure.generate_emissions by the regenerate-all loop and by the",
        "add-simulations loop of initialize_emissions -/",
        "def genArgsRegen : List String := [" + ", ".join(f'"{a}"' for a, _ in t["genArgsRegen"]) + "]",
        "def genArgsExtend : List String := [" + ", ".join(f'"{a}"' for a, _ in t["genArgsExtend"]) + "]",
        "/-- (dictionary, statement) removing a key from the virtual-world / program dictionaries between",
        "parameter intake and hash_dict -/",
        "def removedKeys : List (String × String) := ["
        + ", ".join('("%s", "%s")' % (d, st.replace('"', "'").replace("\\", "")) for d, st, _ in t["removedKeys"]) + "]",
        "/-- (class, attribute) assigned on self but not restored by the class's _reconstruct -/",
        "def pickleDropped : List (String × String) := ["
        + ", ".join(f'("{c}", "{a}")' for c, a, _ in t["pickleDropped"]) + "]",
        "/-- (class, attribute) restored from a different position than it has in the __reduce__ tuple -/",
        "def pickleMisordered : List (String × String) := ["
        + ", ".join(f'("{c}", "{a}")' for c, a, _ in t["pickleMisordered"]) + "]",
        "",
        "end LdarModel.Generated.Cache",
        "",
    ]
    return "\n".join(lines)


GENERATED = os.path.join(os.path.dirname(os.path.dirname(os.path.dirname(os.path.abspath(__file__)))),
                         "lean", "LdarModel", "Generated", "Cache.lean")


def regenerate():
    """rewrite Generated/Cache.lean (only when its text changes, to keep lake's no-op build fast);
    returns the table"""
    t = extract()
    txt = render(t)
    old = open(GENERATED).read() if os.path.exists(GENERATED) else None
    if old != txt:
        os.makedirs(os.path.dirname(GENERATED), exist_ok=True)
        with open(GENERATED, "w") as fh:
            fh.write(txt)
    return t


if __name__ == "__main__":
    import json
    import sys
    t = regenerate()
    json.dump({k: v for k, v in t.items()}, sys.stdout, indent=1)
    print()
