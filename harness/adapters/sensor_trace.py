"""C05 wrappers for whole simulations, installed in the wholerun worker through its `pre_run_hook`
("harness.adapters.sensor_trace:install").  Observation only: nothing is altered, no random number is
drawn, only getters are called.  Events are appended to the worker's trace:

  ["c05cov",  day, method, site, eqg, comp, k, emission_id, repairable, start_day, rate,
              stored_before, stored_after, emitting, own_probability, [[p, result], ...], own_temporal_probability,
              [raw _emitting flag | None, emitting days booked, active days booked, active_duration | None, inactive_duration | None]]
                                                            every Emission.check_spatial_cov call; the last two:
                                                            this emission's coverage probability for the method and
                                                            the Bernoulli draws made inside the call
  ["c05tcov", day, method, k, outcome]                      every Emission.check_temporal_cov call
  ["c05rep",  day, method, site, level, mdl, site_true, site_measured,
              [[eqg, comp | None, true, measured], ...], ret]   after every Default*LevelSensor.detect_emissions
  ["c05done", day, method, site, complete, in_progress, site_true, site_measured]
              after every Method.survey_site call (for component-scale methods: after the sensor, before the tags):
              the state of the survey report the method goes on to act upon
k is a serial number of the emission object (stable for the run of one program/simulation).

If the configuration carries "c05_prior_files" (parameter files of another, already materialised
configuration), that simulation is run FIRST in this same worker process (before the wrappers are
installed): the main run then happens in a process that has already simulated the same method names
with other coverage probabilities.
"""
from __future__ import annotations

import functools
import sys


def install(job):
    w = sys.modules["__main__"]
    EVENTS, CTXT, di = w.EVENTS, w.CTXT, w.di
    prior = job.get("cfg", {}).get("c05_prior_files")
    if prior:
        from pathlib import Path
        from ldar_sim_run import run_ldar_sim

        try:
            run_ldar_sim([Path(f) for f in prior], DEBUG=True)
        except (Exception, SystemExit) as e:
            # the prior run only has to have simulated; a stop in its summary step (recorded C14 finding for
            # simulations without emissions) must not prevent the main run
            print("c05 prior run stopped:", repr(e))
    from virtual_world.emission_types import emission as emission_mod

    DRAWS = []
    real_binomial = emission_mod.binomial

    @functools.wraps(real_binomial)
    def binomial(n, p, *a, **k):
        r = real_binomial(n, p, *a, **k)
        try:
            DRAWS.append([float(p), int(r)])
        except Exception:
            pass
        return r

    emission_mod.binomial = binomial
    from virtual_world.sites import Site
    from virtual_world.equipment_groups import Equipment_Group
    from virtual_world.component import Component
    from virtual_world.emission_types.emission import Emission
    from sensors.default_component_level_sensor import DefaultComponentLevelSensor
    from sensors.default_equipment_group_level_sensor import DefaultEquipmentGroupLevelSensor
    from sensors.default_site_level_sensor import DefaultSiteLevelSensor

    LOC = {"site": None, "eqg": None, "comp": None}
    SER = {}

    def wrap_loc(cls, key):
        orig = cls.get_detectable_emissions

        @functools.wraps(orig)
        def gde(self, method_name):
            old = LOC[key]
            LOC[key] = str(self.get_id())
            try:
                return orig(self, method_name)
            finally:
                LOC[key] = old

        cls.get_detectable_emissions = gde

    wrap_loc(Site, "site")
    wrap_loc(Equipment_Group, "eqg")
    wrap_loc(Component, "comp")

    def serial(em):
        # the registry keeps the object alive, so ids are never reused within a run
        ent = SER.get(id(em))
        if ent is None or ent[0] is not em:
            ent = (em, len(SER))
            SER[id(em)] = ent
        return ent[1]

    orig_sc = Emission.check_spatial_cov

    @functools.wraps(orig_sc)
    def check_spatial_cov(self, method):
        key = f"{method} Spatial Coverage"
        before = self._tech_spat_covs.get(key)
        n0 = len(DRAWS)
        out = orig_sc(self, method)
        after = self._tech_spat_covs.get(key)
        draws = DRAWS[n0:]
        del DRAWS[:]
        try:
            EVENTS.append(["c05cov", CTXT["day"], method, LOC["site"], LOC["eqg"], LOC["comp"], serial(self),
                           self._emissions_id, bool(self._repairable), di(self._start_date), float(self._rate),
                           None if before is None else int(before), None if after is None else int(after),
                           bool(self.is_emitting()), float(self._tech_spat_cov_probs[method]), draws,
                           float(self._tech_temp_cov_probs[method]),
                           # the emission's own bookkeeping, read-only: raw emitting flag, emitting days and active
                           # days booked so far, on / off durations (None for persistent emissions)
                           [getattr(self, "_emitting", None), int(self.get_days_emitting()), int(self._active_days),
                            getattr(self, "_active_duration", None), getattr(self, "_inactive_duration", None)]])
        except Exception as e:  # never disturb the run
            EVENTS.append(["c05-error", repr(e)])
        return out

    Emission.check_spatial_cov = check_spatial_cov

    orig_tc = Emission.check_temporal_cov

    @functools.wraps(orig_tc)
    def check_temporal_cov(self, method):
        out = orig_tc(self, method)
        try:
            EVENTS.append(["c05tcov", CTXT["day"], method, serial(self), int(out)])
        except Exception as e:
            EVENTS.append(["c05-error", repr(e)])
        return out

    Emission.check_temporal_cov = check_temporal_cov

    def wrap_detect(cls):
        orig = cls.__dict__["detect_emissions"]

        @functools.wraps(orig)
        def detect_emissions(self, site, meth_name, survey_report):
            ret = orig(self, site, meth_name, survey_report)
            try:
                units = []
                for er in (survey_report.equipment_groups_surveyed or []):
                    if er.emissions_detected:
                        for cr in er.emissions_detected:
                            units.append([str(er.equipment_group), str(cr.component), float(cr.true_rate),
                                          float(cr.measured_rate)])
                    else:
                        units.append([str(er.equipment_group), None, float(er.true_rate), float(er.measured_rate)])
                EVENTS.append(["c05rep", CTXT["day"], meth_name, str(site.get_id()), str(survey_report.survey_level),
                               float(self._mdl), float(survey_report.site_true_rate),
                               float(survey_report.site_measured_rate), units, bool(ret)])
            except Exception as e:
                EVENTS.append(["c05-error", repr(e)])
            return ret

        cls.detect_emissions = detect_emissions

    for cls in (DefaultComponentLevelSensor, DefaultEquipmentGroupLevelSensor, DefaultSiteLevelSensor):
        wrap_detect(cls)

    from programs.method import Method

    orig_survey = Method.survey_site

    @functools.wraps(orig_survey)
    def survey_site(self, crew, survey_report, site_to_survey, weather, curr_date):
        out = orig_survey(self, crew=crew, survey_report=survey_report, site_to_survey=site_to_survey,
                          weather=weather, curr_date=curr_date)
        try:
            EVENTS.append(["c05done", di(curr_date), self._name, str(site_to_survey.get_id()),
                           bool(survey_report.survey_complete), bool(survey_report.survey_in_progress),
                           float(survey_report.site_true_rate), float(survey_report.site_measured_rate)])
        except Exception as e:
            EVENTS.append(["c05-error", repr(e)])
        return out

    Method.survey_site = survey_site
