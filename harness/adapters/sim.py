"""Adapter of the integrated simulation check (SIM): turns one (program, simulation) of a whole REAL run
(harness/wholerun.py with "sim_trace": true) into the line protocol of `drv_sim`, runs the model and
compares its timeseries rows and emission records with the real `*_timeseries.csv` /
`*_emissions_summary.csv`, column by column.

What is fed to the model
  scenario      the infrastructure the run worked on ("simworld" event: sites -> groups -> components ->
                sources -> pending emissions in pop order), cross-checked against the pickled scenario
                `inputs/generator/gen_infrastructure_emissions_<sim>.p` of the run
  program       `Program._methods` order; per method the static data the constructors computed (crews,
                daily capacity, planner data from the "sched" event, per-site survey time / cost)
  inputs        every coverage roll ("cov"), every sampled travel time ("ttime" paired with its "survey"),
                every failed weather check ("wx"), daylight ("dl"), every repair cost draw ("rcost")
Units: rates and detection limits x1024 (dyadic grid), measured rates in hundredths of that, money in
1/1024 $, all exact integers; anything that is not exact on these grids makes the case "unsupported"
(reported, never silently rounded).
"""
from __future__ import annotations

import os
import pickle
from datetime import date, timedelta
from fractions import Fraction

RATE_SCALE = 1024
COST_SCALE = 1024
KG = Fraction(864, 10)


class Unsupported(Exception):
    """outside the grids / shapes the adapter can feed to the model exactly"""


class Anomaly(Unsupported):
    """the trace has a shape the unchanged simulator never produces (an emission repaired twice, a roll
    for an emission that is not part of the scenario, …): the configuration is a failing input"""


def exact_int(x, scale, what):
    f = Fraction(x) * scale
    if f.denominator != 1:
        raise Unsupported(f"{what}={x!r} is not on the 1/{scale} grid")
    return int(f)


def rat(x):
    f = Fraction(x)
    return f"{f.numerator}/{f.denominator}"


def L(xs):
    return "[" + ",".join(str(x) for x in xs) + "]"


def LL(xss):
    return "[" + ",".join(L(x) for x in xss) + "]"


# ------------------------------------------------------------------------------------------------
def scenario_from_pickle(res, sim):
    """identity tuples of the pickled scenario in infrastructure order, pop order per source"""
    from harness import shim

    shim.install(chdir=False) if "chdir" in shim.install.__code__.co_varnames else shim.install()
    path = os.path.join(res.root, "inputs", "generator", f"gen_infrastructure_emissions_{sim}.p")
    with open(path, "rb") as fh:
        emis = pickle.load(fh)[sim]
    out = []
    for site, eqgs in emis.items():
        for eqg, comps in eqgs.items():
            for comp, srcs in comps.items():
                for src, lst in srcs.items():
                    for e in reversed(lst):
                        out.append((str(site), str(eqg), str(comp), str(src), e._emissions_id,
                                    (e._start_date - res.start).days, float(e._rate), bool(e._repairable),
                                    int(getattr(e, "_nrd", getattr(e, "_duration", 0))),
                                    float(getattr(e, "_repair_delay", 0))))
    return out


class Case:
    """everything needed to drive the model for one (program, simulation)"""

    def __init__(self, cfg, res, tr):
        self.cfg, self.res, self.tr = cfg, res, tr
        self.prog, self.sim = tr["prog"], tr["sim"]
        self.N = res.ndays
        ev = tr["events"]
        worlds = [e for e in ev if e[0] == "simworld"]
        if len(worlds) != 1:
            errs = [e for e in ev if e[0] == "simworld-error"]
            raise Anomaly(f"no simworld event ({errs})")
        self.world = worlds[0][1]
        self.sched = {e[1]: e for e in ev if e[0] == "sched"}
        self.methods = self.world["methods"]
        self.midx = {m["name"]: i for i, m in enumerate(self.methods)}
        self.ems = []      # g -> dict with location indices
        self.gidx, self.cidx = {}, {}
        # site ids may be any strings (unsorted integers, "s10", "a_2", …): the model numbers them 1, 2, …
        # in infrastructure order
        self.sidx = {s["id"]: k + 1 for k, s in enumerate(self.world["sites"])}
        self.lines = []
        self._build(ev)

    # -- static --------------------------------------------------------------------------------
    def _build(self, ev):
        cfg, w = self.cfg, self.world
        lines = ["reset"]
        src_lines, layout_lines = [], []
        rcost = {}
        for e in ev:
            if e[0] == "rcost":
                if e[2] is None:
                    raise Anomaly("repair cost of an unregistered emission")
                if e[2] in rcost:
                    raise Anomaly("two repair cost draws for one emission")
                rcost[e[2]] = e[3]
        for s in w["sites"]:
            sid = self.sidx[s["id"]]
            if s["latest_tag"] != 0:
                raise Anomaly("site latest tagging date is not the start date")
            groups = []
            for gi, g in enumerate(s["eqgs"]):
                self.gidx[(s["id"], g["id"])] = gi
                for ci0, c0 in enumerate(g["comps"]):
                    self.cidx[(s["id"], g["id"], c0["id"])] = ci0
                groups.append(f"[{gi},{L(range(len(g['comps'])))}]")
                for ci, c in enumerate(g["comps"]):
                    for k, src in enumerate(c["sources"]):
                        if src["cursor"] is not None:
                            raise Anomaly("source cursor set before the run")
                        ids = []
                        for em in src["ems"]:
                            assert em["g"] == len(self.ems)
                            d = dict(em, site=sid, eqg=gi, comp=ci, site_id=s["id"], eqg_id=g["id"], comp_id=c["id"],
                                     src_id=src["id"])
                            self.ems.append(d)
                            ids.append(em["g"])
                        src_lines.append("src " + L(ids))
            layout_lines.append(f"layout {sid} [" + ",".join(groups) + "]")
        for em in self.ems:
            cost = rcost.get(em["g"], 0.0)
            lines.append("em %d %d %d %d %d %d %d %d %d %d %d %d" % (
                em["start"], em["nrd"], self.ceil_days(em["repair_delay"]), int(em["repairable"]), int(em["intermittent"]),
                em["adur"], em["idur"], exact_int(em["rate"], RATE_SCALE, "rate"), em["site"], em["eqg"], em["comp"],
                exact_int(cost, COST_SCALE, "repair cost")))
        lines += src_lines + layout_lines
        # methods
        for i, m in enumerate(self.methods):
            name = m["name"]
            mc = cfg["methods"][name]
            if m["scale"] == "component":
                role, fu = ("f" if m["is_follow_up"] else "r"), 0
            elif m["scale"] == "site":
                role = "s"
                fu = self.midx.get(m["follow_up"]["schedule"])
                if fu is None:
                    raise Anomaly("screening method bound to a schedule outside the program")
            else:
                raise Unsupported("measurement scale " + m["scale"])
            if m["sensor"] not in ("DefaultComponentLevelSensor", "DefaultSiteLevelSensor"):
                raise Unsupported("sensor " + m["sensor"])
            stationary = m["deployment"] == "stationary"
            sch = self.sched.get(name)
            if sch is None:
                raise Anomaly("no sched event for " + name)
            crews, cap = sch[3], sch[4]
            cost = mc["cost"]
            per_site = cost.get("per_site")
            wd = Fraction(m["max_work_hours"])
            if wd.denominator != 1:
                raise Unsupported("fractional max_workday")
            lines.append("method %s %d %d %d %d %d %d %d %d %s %d %d %d" % (
                role, fu, int(stationary), m["crews"], max(cap, 0), int(wd), int(m["daylight_sensitive"]), int(m["weather"]),
                exact_int(cost.get("per_day", 0.0), COST_SCALE, "per_day"),
                "-" if per_site is None else str(exact_int(per_site, COST_SCALE, "per_site")),
                exact_int(cost.get("upfront", 0.0), COST_SCALE, "upfront"),
                exact_int(mc.get("mdl", m["mdl"]), RATE_SCALE, "mdl"), mc.get("reporting_delay", m["reporting_delay"])))
            if crews != m["crews"]:
                raise Anomaly("schedule crews differ from method crews")
            for st in sch[5]:
                site, rs, months, depy, simy, plan, s_time = st
                lines.append("msite %d %d %d %d %d %s %s %s %s" % (
                    i, self.sidx[site], int(m["site_time"][site]) if not stationary else 0,
                    exact_int(m["site_cost"][site], COST_SCALE, "site cost"), rs, L(months), L(depy), L(simy), LL(plan)))
                if m["is_follow_up"] and rs != 0:
                    raise Unsupported("follow-up method with its own survey frequency")
            if role == "s":
                f = dict(m["follow_up"])
                # work-practice parameters are taken from the configuration, not from the constructed object
                # (audit/LESSONS.md 5); what the object holds is only used where the configuration is silent
                cf_ = mc.get("follow_up") or {}
                if "proportion" in cf_:
                    f["proportion"] = cf_["proportion"]
                if "delay" in cf_:
                    f["delay"] = cf_["delay"]
                if "threshold" in cf_ and not stationary:
                    f["threshold"] = cf_["threshold"]
                if "instant_threshold" in cf_:
                    f["inst_threshold"] = cf_["instant_threshold"]
                if "interaction_priority" in cf_:
                    f["threshold_first"] = cf_["interaction_priority"] == "threshold"
                if "redundancy_filter" in cf_ and not stationary:
                    f["filter"] = cf_["redundancy_filter"]
                unit = RATE_SCALE * 100
                inst = "-" if f["inst_threshold"] is None else rat(Fraction(f["inst_threshold"]) * unit)
                flt = f["filter"] if f["filter"] in ("recent", "max", "average") else "recent"
                lines.append("fup %d %d %d %d %s %d %s %s %s %d %d %s %s" % (
                    i, int(stationary), mc.get("reporting_delay", m["reporting_delay"]), f["delay"], rat(f["proportion"]), int(f["threshold_first"]),
                    rat(Fraction(f["threshold"] or 0) * unit), inst, flt, f["small_window"] or 1, f["large_window"] or 1,
                    rat(Fraction(f["small_window_threshold"] or 0) * unit), rat(Fraction(f["large_window_threshold"] or 0) * unit)))
        # calendar and daylight
        start = date(*cfg["start"])
        self.cal_line = len(lines)
        self.cal_expected = "ok " + LL([[d.year, d.month, d.day] for d in (start + timedelta(days=k) for k in range(self.N))])
        lines.append("start %d %d %d %d" % (start.year, start.month, start.day, self.N))
        dl = {}
        for e in ev:
            if e[0] == "dl":
                dl[e[1]] = e[3]
        mins = []
        for k in range(self.N):
            h = dl.get(k)
            mins.append(1440 if h is None else exact_int(h, 60, "daylight hours"))
        lines.append("daylight " + L(mins))
        # random outcomes
        rolls, travel, unwork = {}, {}, {}
        shifts = []
        self._nz = 0
        pending = {}
        for e in ev:
            t = e[0]
            if t == "cov":
                _, d, meth, g, kind, out = e
                if g is None:
                    raise Anomaly("coverage roll of an unregistered emission")
                r = rolls.setdefault((d, self.midx[meth]), {}).setdefault(g, [2, 2])
                k = 0 if kind == "s" else 1
                if r[k] != 2:
                    raise Anomaly("two rolls of one kind for one emission on one day")
                r[k] = out
            elif t == "ttime":
                pending[e[2]] = e[3]
            elif t == "survey":
                d, meth, site = e[1], e[2], self.sidx[e[3]]
                if meth in pending:
                    tt = Fraction(pending.pop(meth))
                    if tt.denominator != 1:
                        raise Unsupported("fractional travel time")
                    travel.setdefault((d, self.midx[meth]), []).append([site, int(tt)])
            elif t == "wx":
                if not e[4]:
                    unwork.setdefault((e[1], self.midx[e[2]]), []).append(self.sidx[e[3]])
            elif t == "qrep":
                _, d, meth, site, units = e
                row = []
                for g, c, tr_, ms_ in units:
                    k = self.shift_of(tr_, ms_)
                    if k is None:
                        continue
                    self._nz += 1 if k != 0 else 0
                    if g is None:
                        row.append([0, 0, k])
                    else:
                        row.append([self.gidx[(site, g)], self.cidx[(site, g, c)], k])
                if row:
                    shifts.append(f"shift {d} {self.midx[meth]} {self.sidx[site]} " + LL(row))
            elif t == "qrep-error":
                raise Unsupported("qrep wrapper failed: " + str(e[1]))
        for (d, m), r in sorted(rolls.items()):
            lines.append(f"rolls {d} {m} " + LL([[g, v[0], v[1]] for g, v in sorted(r.items())]))
        for (d, m), r in sorted(travel.items()):
            lines.append(f"travel {d} {m} " + LL(r))
        for (d, m), r in sorted(unwork.items()):
            lines.append(f"unworkable {d} {m} " + L(r))
        lines += shifts
        self.n_shifts = self._nz
        self.n_rolls = sum(len(r) for r in rolls.values())
        self.head = len(lines)
        lines.append(f"run {self.N}")
        lines += [f"row {k}" for k in range(self.N)]
        lines += [f"rec {g}" for g in range(len(self.ems))]
        self.lines = lines

    @staticmethod
    def ceil_days(x):
        """a fractional repair delay d acts as ceil(d): `days_since_tagged >= d + reporting_delay` over integers"""
        import math

        f = Fraction(x or 0)
        return int(math.ceil(f))

    @staticmethod
    def shift_of(true_rate, measured):
        """the integer quantification shift (percent) with measured = max(true * (1 + k/100), 0) exactly;
        None when nothing was measured (true rate 0 and measured 0: the unit was not detected or is empty)"""
        t, m = Fraction(true_rate), Fraction(measured)
        if m == 0:
            return None if t == 0 else -100
        if t == 0:
            raise Anomaly("measured rate without a true rate")
        k = (m / t - 1) * 100
        if k.denominator != 1:
            raise Unsupported(f"quantification shift {float(k)} is not an integer percentage")
        return int(k)

    def check_pickle(self):
        """the scenario the run worked on == the pickled scenario of the run"""
        pk = scenario_from_pickle(self.res, self.sim)
        mine = [(e["site_id"], e["eqg_id"], e["comp_id"], e["src_id"], e["id"], e["start"], e["rate"], e["repairable"],
                 e["nrd"], float(e["repair_delay"] or 0)) for e in self.ems]
        return pk == mine, len(pk), len(mine)

    # -- model output ----------------------------------------------------------------------------
    def parse(self, out):
        bad = [(l, o) for l, o in zip(self.lines[:self.head + 1], out[:self.head + 1]) if not o.startswith("ok")]
        if bad:
            raise RuntimeError(f"driver rejected {bad[:3]}")
        self.calendar_ok = out[self.cal_line] == self.cal_expected
        rows = out[self.head + 1:self.head + 1 + self.N]
        recs = out[self.head + 1 + self.N:]
        return [self.parse_row(r) for r in rows], [self.parse_rec(r) for r in recs]

    @staticmethod
    def parse_row(s):
        a, b, c = s.split("|")
        new, act, rep, nat, exp, em, mit, non = (int(x) for x in a.split(":"))
        cost, rc, nc, tagged = (int(x) for x in b.split(":"))
        meths = []
        for part in (c.split(";") if c else []):
            f = part.split(",")
            meths.append({"cost": int(f[0]), "flags": None if f[1] == "-" else int(f[1]),
                          "tags": None if f[2] == "-" else int(f[2]), "visited": int(f[3]), "travel": int(f[4]),
                          "survey": int(f[5]), "upfront": int(f[6]), "sRolls": int(f[7]), "tRolls": int(f[8]),
                          "missing": int(f[9])})
        return {"new": new, "active": act, "rep": rep, "nat": nat, "exp": exp, "emis": em, "mit": mit, "non": non,
                "cost": cost, "repCost": rc, "natCost": nc, "tagged": tagged, "meth": meths}

    @staticmethod
    def parse_rec(s):
        f = s.split(" ")
        opt = lambda x: None if x == "-" else int(x)
        return {"present": f[0] == "1", "status": f[1], "activeDays": int(f[2]), "emitDays": int(f[3]), "start": int(f[4]),
                "end": opt(f[5]), "theoryEnd": int(f[6]), "mitDays": int(f[7]), "tagged": f[8] == "1", "by": f[9],
                "initDetect": opt(f[10]), "initDetectBy": opt(f[11]), "cov": f[12],
                "measured": None if f[13] == "-" else Fraction(f[13]), "estDays": int(f[14])}

    # -- comparison ------------------------------------------------------------------------------
    def compare(self, rows, recs):
        """list of (kind, where, model, impl) differences; [] = full agreement"""
        diffs = []
        res = self.res
        if not getattr(self, "calendar_ok", True):
            diffs.append(("calendar", None, "dateOf", "datetime"))
        ts = res.timeseries(self.prog, self.sim)
        if ts is None or len(ts) != self.N:
            return [("timeseries-length", None, self.N, None if ts is None else len(ts))]

        def money(file_val, scaled):
            return abs(Fraction(file_val or "0") - Fraction(scaled, COST_SCALE)) <= Fraction(1, 100000)

        def kg(file_val, scaled):
            return abs(Fraction(file_val or "0") - KG * Fraction(scaled, RATE_SCALE)) <= Fraction(1, 50000)

        def meas_ok(file_val, q):
            """measured rate: model value in hundredths of 1/RATE_SCALE g/s; the file shows 5 decimals"""
            if q is None:
                return file_val in ("", None)
            if file_val in ("", None):
                return False
            return abs(Fraction(file_val) - q / (100 * RATE_SCALE)) <= Fraction(1, 100000)

        def count(file_val, n):
            if n is None:
                return file_val in ("", None)
            if file_val in ("", None):
                return False
            return Fraction(file_val) == n

        for n, (row, mr) in enumerate(zip(ts, rows)):
            chk = [("New Leaks", count(row["New Leaks"], mr["new"]), mr["new"]),
                   ("Active Leaks", count(row["Active Leaks"], mr["active"]), mr["active"]),
                   ("Leaks Repaired", count(row["Leaks Repaired"], mr["rep"]), mr["rep"]),
                   ("Leaks Naturally Repaired", count(row["Leaks Naturally Repaired"], mr["nat"]), mr["nat"]),
                   ("Leaks Tagged", count(row["Leaks Tagged"], mr["tagged"]), mr["tagged"]),
                   ("Daily Emissions (Kg Methane)", kg(row["Daily Emissions (Kg Methane)"], mr["emis"]), mr["emis"]),
                   ("Daily Mitigable Emissions (Kg Methane)", kg(row["Daily Mitigable Emissions (Kg Methane)"], mr["mit"]), mr["mit"]),
                   ("Daily Non-Mitigable Emissions (Kg Methane)", kg(row["Daily Non-Mitigable Emissions (Kg Methane)"], mr["non"]), mr["non"]),
                   ("Daily Cost ($)", money(row["Daily Cost ($)"], mr["cost"]), mr["cost"]),
                   ("Daily Repair Cost ($)", money(row["Daily Repair Cost ($)"], mr["repCost"]), mr["repCost"]),
                   ("Daily Natural Repair Cost ($)", money(row["Daily Natural Repair Cost ($)"], mr["natCost"]), mr["natCost"])]
            if len(mr["meth"]) != len(self.methods):
                diffs.append(("ts-methods", n, len(mr["meth"]), len(self.methods)))
                continue
            for m, mm in zip(self.methods, mr["meth"]):
                nm = m["name"]
                dep = mm["cost"] + (mm["upfront"] if n == 0 else 0)
                chk += [(f"{nm} Deployment Cost ($)", money(row[f"{nm} Deployment Cost ($)"], dep), dep),
                        (f"{nm} Sites flagged for Follow-Up", count(row[f"{nm} Sites flagged for Follow-Up"], mm["flags"]), mm["flags"]),
                        (f"{nm} Leaks tagged for repair", count(row[f"{nm} Leaks tagged for repair"], mm["tags"]), mm["tags"]),
                        (f"{nm} Sites Visited", count(row[f"{nm} Sites Visited"], mm["visited"]), mm["visited"]),
                        (f"{nm} Travel Time (Minutes)", count(row[f"{nm} Travel Time (Minutes)"], mm["travel"]), mm["travel"]),
                        (f"{nm} Survey Time (Minutes)", count(row[f"{nm} Survey Time (Minutes)"], mm["survey"]), mm["survey"])]
                if mm["missing"]:
                    diffs.append(("roll-consulted-but-not-drawn", (n, nm), mm["missing"], 0))
            for col, ok, mv in chk:
                if not ok:
                    diffs.append(("ts:" + col, n, mv, row.get(col)))
        # rolls drawn by the model == rolls drawn by the run
        drawn = sum(mm["sRolls"] + mm["tRolls"] for mr in rows for mm in mr["meth"])
        n_cov = sum(1 for e in self.tr["events"] if e[0] == "cov")
        if drawn != n_cov:
            diffs.append(("rolls-drawn", None, drawn, n_cov))
        # emission records
        em_rows = res.emissions(self.prog, self.sim) or []
        index = {}
        dup = False
        for e, r in zip(self.ems, recs):
            if r["present"]:
                key = (e["site_id"], e["eqg_id"], e["comp_id"], e["repairable"], e["id"], e["start"])
                if key in index:
                    dup = True
                index[key] = (e, r)
        if dup:
            diffs.append(("records:ambiguous-key", None, None, None))
        if len(em_rows) != sum(1 for r in recs if r["present"]):
            diffs.append(("records:count", None, sum(1 for r in recs if r["present"]), len(em_rows)))
        names = [m["name"] for m in self.methods]
        seen = set()
        for row in em_rows:
            key = (row["Site ID"], row["Equipment"], row["Component"], row["Repairable"] == "True", row["Emissions ID"],
                   res.day_index(row["Date Began"]))
            if key not in index:
                diffs.append(("records:unmatched-row", key, None, row))
                continue
            seen.add(key)
            e, r = index[key]
            by = {"-": "", "natural": "natural", "expired": "expired"}.get(r["by"])
            if by is None:
                by = names[int(r["by"][1:])]
            rate = exact_int(e["rate"], RATE_SCALE, "rate")
            idb = "" if r["initDetectBy"] is None else names[r["initDetectBy"]]
            chk = [("Status", row["Status"] == r["status"], r["status"]),
                   ("Days Active", count(row["Days Active"], r["activeDays"]), r["activeDays"]),
                   ("Days Emitting", count(row["Days Emitting"], r["emitDays"]), r["emitDays"]),
                   ("Date Repaired or Expired", res.day_index(row["Date Repaired or Expired"]) == r["end"], r["end"]),
                   ("Mitigated Emissions (Kg Methane)", kg(row["Mitigated Emissions (Kg Methane)"], r["mitDays"] * rate), r["mitDays"]),
                   ('"True" Volume Emitted (Kg Methane)', kg(row['"True" Volume Emitted (Kg Methane)'], r["emitDays"] * rate), r["emitDays"]),
                   ('"True" Rate (g/s)', Fraction(row['"True" Rate (g/s)']) == Fraction(rate, RATE_SCALE), rate),
                   ("Estimated Days Active", count(row["Estimated Days Active"], r["estDays"]), r["estDays"]),
                   ('"Measured" Rate (g/s)', meas_ok(row['"Measured" Rate (g/s)'], r["measured"]), r["measured"]),
                   ("Initially Detected By", row["Initially Detected By"] == idb, idb),
                   ("Initially Detected Date", res.day_index(row["Initially Detected Date"]) == r["initDetect"], r["initDetect"])]
            if e["repairable"]:
                chk += [("Theoretical End Date", res.day_index(row["Theoretical End Date"]) == r["theoryEnd"], r["theoryEnd"]),
                        ("Tagged", row["Tagged"] == str(r["tagged"]), r["tagged"]),
                        ("Tagged By", row["Tagged By"] == by, by),
                        ("Recorded", row["Recorded"] == "N/A", "N/A"), ("Recorded By", row["Recorded By"] == "N/A", "N/A")]
            else:
                chk += [("Theoretical End Date", res.day_index(row["Theoretical End Date"]) == r["end"], r["end"]),
                        ("Recorded", row["Recorded"] == str(r["tagged"]), r["tagged"]),
                        ("Recorded By", row["Recorded By"] == by, by),
                        ("Tagged", row["Tagged"] == "N/A", "N/A"), ("Tagged By", row["Tagged By"] == "N/A", "N/A")]
            for col, ok, mv in chk:
                if not ok:
                    diffs.append(("rec:" + col, key, mv, row.get(col)))
        for key in index:
            if key not in seen:
                diffs.append(("records:model-only", key, None, None))
        return diffs


TS_COLUMNS = ["New Leaks", "Active Leaks", "Leaks Repaired", "Leaks Naturally Repaired", "Leaks Tagged",
              "Daily Emissions (Kg Methane)", "Daily Mitigable Emissions (Kg Methane)",
              "Daily Non-Mitigable Emissions (Kg Methane)", "Daily Cost ($)", "Daily Repair Cost ($)",
              "Daily Natural Repair Cost ($)", "<m> Deployment Cost ($)", "<m> Sites flagged for Follow-Up",
              "<m> Leaks tagged for repair", "<m> Sites Visited", "<m> Travel Time (Minutes)", "<m> Survey Time (Minutes)"]
REC_COLUMNS = ["Status", "Days Active", "Days Emitting", "Estimated Days Active", '"Measured" Rate (g/s)', "Date Began", "Date Repaired or Expired", "Theoretical End Date",
               "Mitigated Emissions (Kg Methane)", '"True" Volume Emitted (Kg Methane)', '"True" Rate (g/s)',
               "Initially Detected By", "Initially Detected Date", "Tagged", "Tagged By", "Recorded", "Recorded By",
               "Repairable", "Site ID", "Equipment", "Component", "Emissions ID"]


def program_kind(cfg, prog):
    ms = next(p["methods"] for p in cfg["programs"] if p["name"] == prog)
    if not ms:
        return "none"
    kinds = []
    for m in ms:
        mm = cfg["methods"][m]
        if mm["measurement_scale"] == "component":
            kinds.append("fu" if mm["is_follow_up"] else "ogi")
        else:
            kinds.append("fix" if mm["deployment_type"] == "stationary" else "air")
    return "+".join(kinds)
