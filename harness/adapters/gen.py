"""Drive the REAL emission generation, rate sources, unit converter and seed procedure.

Real objects used (nothing of /repo is edited or replaced):
  virtual_world.sources.Source            built by its own __init__, generate_emissions called as the
                                          site/equipment chain calls it; np.random.binomial is wrapped
                                          to RECORD its outcomes (the wrapper returns them unchanged)
  file_processing.input_processing.emissions_source_processing
                                          process_emission_sources on generated emissions files ->
                                          EmissionsSourceSample / EmissionsSourceDist; the sample pick
                                          (numpy.random.choice) and the distribution draw (rvs) are
                                          recorded, not altered
  utils.unit_converter.gas_convert        float mode (as the classes call it) and exact mode: the same
                                          function body evaluated on `Q` numbers (exact rationals;
                                          a float operand is read as its decimal literal)
  initialization.preseed.gen_seed_emis    real function on a scratch generator folder
  initialization.initialize_emissions.initialize_emissions   real function with a duck-typed
                                          infrastructure that forwards to real Sources
"""
from __future__ import annotations

import contextlib
import io
import os
import pathlib
import pickle
from datetime import date, timedelta
from fractions import Fraction

from harness import shim

shim.install()

import numpy as np  # noqa: E402
import pandas as pd  # noqa: E402

from virtual_world.sources import Source  # noqa: E402
from constants.infrastructure_const import Infrastructure_Constants as IC  # noqa: E402
import constants.param_default_const as pdc  # noqa: E402
from constants.file_processing_const import Emissions_Source_Processing_Const as esp  # noqa: E402
from constants.file_name_constants import Generator_Files  # noqa: E402
from file_processing.input_processing import emissions_source_processing as ESP  # noqa: E402
from utils import unit_converter as UC  # noqa: E402
from initialization import preseed as PRESEED  # noqa: E402
from initialization import initialize_emissions as INIT  # noqa: E402

SIM_START = date(2022, 1, 1)
SFC = IC.Sources_File_Constants


# ------------------------------------------------------------------------------------------------
# exact numbers for the exact-mode run of gas_convert
# ------------------------------------------------------------------------------------------------
def frac_of(x):
    if isinstance(x, Q):
        return x.v
    if isinstance(x, bool):
        raise TypeError("bool")
    if isinstance(x, int):
        return Fraction(x)
    if isinstance(x, Fraction):
        return x
    if isinstance(x, float):
        return Fraction(repr(x))   # the decimal literal the source wrote
    raise TypeError(type(x))


class Q:
    """exact rational that absorbs ints / floats (floats as their shortest decimal)"""
    __slots__ = ("v",)

    def __init__(self, v):
        self.v = frac_of(v)

    def __mul__(self, o):
        return Q(self.v * frac_of(o))

    __rmul__ = __mul__

    def __add__(self, o):
        return Q(self.v + frac_of(o))

    __radd__ = __add__

    def __sub__(self, o):
        return Q(self.v - frac_of(o))

    def __rsub__(self, o):
        return Q(frac_of(o) - self.v)

    def __truediv__(self, o):
        return Q(self.v / frac_of(o))      # ZeroDivisionError as in Python

    def __rtruediv__(self, o):
        return Q(frac_of(o) / self.v)


def fstr(fr: Fraction) -> str:
    return f"{fr.numerator}/{fr.denominator}"


def ftok(fr: Fraction) -> str:
    return f"{fr.numerator} {fr.denominator}"


def en(name: str) -> str:
    return name.replace(" ", "_")


def gas_exact(**kw):
    """real gas_convert on exact numbers -> 'n/d' or 'none' (KeyError / ZeroDivisionError)"""
    try:
        out = UC.gas_convert(**kw)
    except (KeyError, ZeroDivisionError):
        return "none"
    if not isinstance(out, Q):
        raise RuntimeError(f"gas_convert left exact mode: {out!r} for {kw}")
    return fstr(out.v)


def conv_exact(metric, increment, q: Fraction):
    """gas_convert(input_quantity, input_metric, input_increment) with every other argument at its
    default *value* (numeric defaults re-supplied as exact numbers)"""
    import inspect

    sig = inspect.signature(UC.gas_convert)
    d = {k: p.default for k, p in sig.parameters.items()}
    return gas_exact(input_quantity=Q(q), input_metric=metric, input_increment=increment,
                     NG_comp=Q(d["NG_comp"]), T=Q(d["T"]), P=Q(d["P"]), GWP=Q(d["GWP"]))


def conv_float(metric, increment, q: float):
    try:
        return UC.gas_convert(input_quantity=q, input_metric=metric, input_increment=increment)
    except (KeyError, ZeroDivisionError):
        return None


def live_tables():
    """the dictionaries of the imported module as exact fractions (to validate the extractor)"""
    def conv(d):
        out = {}
        for k, v in d.items():
            out[k] = {kk: (vv if isinstance(vv, (str, bool)) else Fraction(repr(vv)) if isinstance(vv, float)
                           else Fraction(vv)) for kk, vv in v.items()} if isinstance(v, dict) else (
                Fraction(repr(v)) if isinstance(v, float) else Fraction(v))
        return out
    return {n: conv(getattr(UC, n)) for n in
            ["substances", "in_metrics", "out_metrics", "increments", "temperature_units", "pressure_units"]}


# ------------------------------------------------------------------------------------------------
# rate sources from generated emissions files
# ------------------------------------------------------------------------------------------------
def write_emissions_file(folder, columns):
    """columns: list of dict(name, kind 'sample'|'dist', cap, metric, increment, values [str])
    in the layout of the repo's emissions files (data use, distribution, max, unit, time, values…)"""
    rows = max(len(c["values"]) for c in columns)
    lines = [",".join(c["name"] for c in columns),
             ",".join(c["kind"] for c in columns),
             ",".join("lognorm" if c["kind"].strip().lower() == "dist" else "" for c in columns),
             ",".join(c["cap"] for c in columns),
             ",".join(c["metric"] for c in columns),
             ",".join(c["increment"] for c in columns)]
    for r in range(rows):
        lines.append(",".join(c["values"][r] if r < len(c["values"]) else "" for c in columns))
    path = pathlib.Path(folder) / "emissions_file.csv"
    path.write_text("\n".join(lines) + "\n")
    return path


def load_rate_sources(folder):
    """the real reader + the real classes"""
    vw = {esp.EMISSION: {esp.EMISSION_FILE: "emissions_file.csv"}}
    return ESP.process_emission_sources(pathlib.Path(folder), vw)


class _RvsRecorder:
    """stands in for the frozen scipy distribution of ONE real EmissionsSourceDist instance:
    forwards rvs() and keeps what it returned"""

    def __init__(self, dist, log):
        self._dist = dist
        self._log = log

    def rvs(self, *a, **k):
        x = self._dist.rvs(*a, **k)
        self._log.append(float(x))
        return x


@contextlib.contextmanager
def record_rate_draws(sources):
    """record sample picks (module-level numpy.random.choice alias) and distribution draws"""
    picks, draws = [], []
    orig_choice = ESP.random_sample

    def rec_choice(a, *args, **kw):
        x = orig_choice(a, *args, **kw)
        picks.append(float(x))
        return x

    ESP.random_sample = rec_choice
    wrapped = []
    for s in sources:
        if isinstance(s, ESP.EmissionsSourceDist):
            wrapped.append((s, s._distribution))
            s._distribution = _RvsRecorder(s._distribution, draws)
    try:
        yield picks, draws
    finally:
        ESP.random_sample = orig_choice
        for s, d in wrapped:
            s._distribution = d


# ------------------------------------------------------------------------------------------------
# generation
# ------------------------------------------------------------------------------------------------
def make_source(dur, multi, prod_rate, rate_source="r", repairable=True, persistent=True, sid="S"):
    info = {SFC.REPAIRABLE: repairable, SFC.PERSISTENT: persistent, SFC.ACTIVE_DUR: 1, SFC.INACTIVE_DUR: 0}
    prop = {
        SFC.EMIS_ERS: rate_source,
        SFC.EMIS_EPR: prod_rate,
        SFC.EMIS_DUR: dur,
        SFC.MULTI_EMISSIONS: multi,
        SFC.REPAIR_DELAY: {pdc.Common_Params.VAL: 14},
        SFC.REPAIR_COST: {pdc.Common_Params.VAL: 200.0},
        pdc.Common_Params.METH_SPECIFIC: {SFC.SPATIAL_PLACEHOLDER: {}, SFC.TEMPORAL_PLACEHOLDER: {}},
    }
    return Source(sid, info, prop)


@contextlib.contextmanager
def record_binomial():
    calls = []
    orig = np.random.binomial

    def rec(n, p, size=None):
        out = orig(n, p, size)
        calls.append({"n": n, "p": p, "size": size, "out": [int(x) for x in np.atleast_1d(out)]})
        return out

    np.random.binomial = rec
    try:
        yield calls
    finally:
        np.random.binomial = orig


def run_generate(dur, multi, pre_enabled, n_days, prod_rate, np_seed, rate_sources, rate_key="r",
                 repairable=True, persistent=True, sim_number=0, sim_start=None, source=None):
    """one real Source.generate_emissions call; returns dict with the recorded Bernoulli outcomes
    and the stored pending list [(start offset, id int, id string, rate)].  Offsets are computed here
    with datetime.date arithmetic from the emissions' own `_start_date` (independent of the pandas
    date_range indexing the code uses); `dates` are the ISO calendar dates.  `source`: reuse an
    existing real Source object (same-process history) instead of building a fresh one."""
    src = source if source is not None else make_source(dur, multi, prod_rate, rate_source=rate_key,
                                                        repairable=repairable, persistent=persistent)
    start = sim_start or SIM_START
    end = start + timedelta(days=n_days - 1)
    np.random.seed(np_seed)
    with record_binomial() as calls:
        ret = src.generate_emissions(start, end, sim_number, rate_sources, pd.DataFrame(), pre_enabled)
    stored = src._generated_emissions[sim_number]
    if ret[src.get_id()] is not stored:
        raise RuntimeError("generate_emissions: returned list is not the stored list")
    if pre_enabled:
        if len(calls) != 2:
            raise RuntimeError(f"expected 2 binomial calls, saw {len(calls)}")
        pre, sim = calls[0]["out"], calls[1]["out"]
    else:
        if len(calls) != 1:
            raise RuntimeError(f"expected 1 binomial call, saw {len(calls)}")
        pre, sim = [], calls[0]["out"]
    for e in stored:
        if type(e._start_date) is not date:
            raise RuntimeError(f"emission start is {type(e._start_date).__name__}, not datetime.date")
    ems = [((e._start_date - start).days, int(e._emissions_id), e._emissions_id, float(e._rate))
           for e in stored]
    return {"pre": pre, "sim": sim, "ems": ems, "calls": calls,
            "dates": [e._start_date.isoformat() for e in stored], "source": src}


def gen_line(dur, multi, pre_enabled, pre, sim):
    b = lambda l: "[" + ",".join(str(int(x)) for x in l) + "]"  # noqa: E731
    return f"gen {dur} {int(multi)} {int(pre_enabled)} {b(pre)} {b(sim)}"


def impl_gen_reply(ems):
    return "[" + ",".join(f"[{s},{i}]" for (s, i, _, _) in ems) + "]"


# ------------------------------------------------------------------------------------------------
# seeds and replicate scenarios
# ------------------------------------------------------------------------------------------------
@contextlib.contextmanager
def record_randint():
    calls = []
    orig = np.random.randint

    def rec(low, high=None, *a, **k):
        out = orig(low, high, *a, **k)
        calls.append((low, high, int(out)))
        return out

    np.random.randint = rec
    try:
        yield calls
    finally:
        np.random.randint = orig


def run_gen_seed_emis(n_sim, gen_dir, np_seed=None):
    """real gen_seed_emis; returns (seed list, force_remake, recorded randint calls)"""
    if np_seed is not None:
        np.random.seed(np_seed)
    with record_randint() as calls, contextlib.redirect_stdout(io.StringIO()):
        vals, force = PRESEED.gen_seed_emis(n_sim, pathlib.Path(gen_dir))
    return [int(v) for v in vals], force, calls


class StubInfrastructure:
    """duck-typed Infrastructure: forwards to real Sources exactly as Site/Equipment/Component do"""

    def __init__(self, sources, rate_sources):
        self._sources = sources
        self.emission_rate_source_dictionary = rate_sources
        self.repair_delay_dataframe = pd.DataFrame()

    def generate_emissions(self, sim_start_date, sim_end_date, sim_number, pre_simulation_emissions=True):
        out = {}
        for s in self._sources:
            out.update(s.generate_emissions(sim_start_date, sim_end_date, sim_number,
                                            self.emission_rate_source_dictionary,
                                            self.repair_delay_dataframe, pre_simulation_emissions))
        return {sim_number: out}


def run_initialize_emissions(n_sims, preseed, seeds, gen_dir, source_specs, rate_sources, n_days,
                             pre_enabled, np_seed):
    """real initialize_emissions on a scratch generator folder; returns one fingerprint per
    simulation number read back from the pickles it wrote"""
    gen_dir = pathlib.Path(gen_dir)
    srcs = [make_source(d, m, p, sid=f"S{k}") for k, (d, m, p) in enumerate(source_specs)]
    infra = StubInfrastructure(srcs, rate_sources)
    np.random.seed(np_seed)
    with contextlib.redirect_stdout(io.StringIO()):
        INIT.initialize_emissions(n_sims, preseed, seeds, False, infra, SIM_START,
                                  SIM_START + timedelta(days=n_days - 1), gen_dir, pre_enabled)
    fps = []
    for i in range(n_sims):
        with open(gen_dir / Generator_Files.GEN_INFRA_EMISS.format(i=i), "rb") as fh:
            d = pickle.load(fh)
        scen = d[i]
        fps.append(tuple((sid, tuple(((e._start_date - SIM_START).days, e._emissions_id, float(e._rate))
                                     for e in ems)) for sid, ems in sorted(scen.items())))
    return fps


# ------------------------------------------------------------------------------------------------
# multi-step histories on ONE generator folder (fresh run, extension, smaller run)
# ------------------------------------------------------------------------------------------------
class _RecordingInfrastructure(StubInfrastructure):
    def __init__(self, sources, rate_sources, events):
        super().__init__(sources, rate_sources)
        self._events = events

    def generate_emissions(self, sim_start_date, sim_end_date, sim_number, pre_simulation_emissions=True):
        self._events.append(("gen", sim_number))
        return super().generate_emissions(sim_start_date, sim_end_date, sim_number, pre_simulation_emissions)


@contextlib.contextmanager
def record_np_seed(events):
    orig = np.random.seed

    def rec(seed=None):
        events.append(("seed", None if seed is None else int(seed)))
        return orig(seed)

    np.random.seed = rec
    try:
        yield
    finally:
        np.random.seed = orig


def _read_pickle(path):
    with open(path, "rb") as fh:
        return pickle.load(fh)


def folder_state(gen_dir):
    """(n_sim_saved or 0, {sim number: scenario fingerprint} for every pickle present)"""
    gen_dir = pathlib.Path(gen_dir)
    nloc = gen_dir / Generator_Files.N_SIM_SAVE_FILE
    n_saved = int(_read_pickle(nloc)) if nloc.exists() else 0
    fps = {}
    i = 0
    while (gen_dir / Generator_Files.GEN_INFRA_EMISS.format(i=i)).exists():
        d = _read_pickle(gen_dir / Generator_Files.GEN_INFRA_EMISS.format(i=i))
        scen = d[i]
        fps[i] = tuple((sid, tuple(((e._start_date - SIM_START).days, e._emissions_id, float(e._rate))
                                   for e in ems)) for sid, ems in sorted(scen.items()))
        i += 1
    return n_saved, fps


def _fp_scen(scen, start=None):
    start = start or SIM_START
    return tuple((sid, tuple(((e._start_date - start).days, e._emissions_id, float(e._rate)) for e in ems))
                 for sid, ems in sorted(scen.items()))


class _MemoInfrastructure(_RecordingInfrastructure):
    """additionally keeps a fingerprint of what generate_emissions RETURNED (before pickling)"""

    def __init__(self, sources, rate_sources, events, memo):
        super().__init__(sources, rate_sources, events)
        self._memo = memo

    def generate_emissions(self, sim_start_date, sim_end_date, sim_number, pre_simulation_emissions=True):
        out = super().generate_emissions(sim_start_date, sim_end_date, sim_number, pre_simulation_emissions)
        self._memo[sim_number] = _fp_scen(out[sim_number])
        return out


def run_history(steps, gen_dir, source_specs, rate_sources, n_days, pre_enabled, np_seed, reload=False):
    """steps: [(n_sims, hash_file_exist)].  Per step the REAL gen_seed_emis and the REAL
    initialize_emissions run on the same generator folder, exactly as the simulation manager chains
    them (force_remake of the first is handed to the second).  np.random.seed and the infrastructure
    call are recorded (not altered).  reload=True: from the second step on the sources are the ones of
    the first step after a pickle round trip (the simulation manager reloads gen_infrastructure.p).
    Returns one dict per step."""
    gen_dir = pathlib.Path(gen_dir)
    np.random.seed(np_seed)
    out = []
    pickled = None
    for (n, hash_exists) in steps:
        existed = gen_dir.exists() and (gen_dir / Generator_Files.EMISSION_PRESEED_FILE).exists()
        before_saved, before_fps = folder_state(gen_dir) if gen_dir.exists() else (0, {})
        with contextlib.redirect_stdout(io.StringIO()):
            seeds, force = PRESEED.gen_seed_emis(n, gen_dir)
        seeds = [int(v) for v in seeds]
        events, memo = [], {}
        if reload and pickled is not None:
            srcs = pickle.loads(pickled)
        else:
            srcs = [make_source(d, m, p, sid=f"S{k}") for k, (d, m, p) in enumerate(source_specs)]
            if pickled is None:
                pickled = pickle.dumps(srcs)
        infra = _MemoInfrastructure(srcs, rate_sources, events, memo)
        with record_np_seed(events), contextlib.redirect_stdout(io.StringIO()):
            INIT.initialize_emissions(n, True, seeds, hash_exists, infra, SIM_START,
                                      SIM_START + timedelta(days=n_days - 1), gen_dir, pre_enabled,
                                      force_remake=force)
        trace, last = [], None
        for kind, v in events:
            if kind == "seed":
                last = v
            else:
                trace.append((v, last))
                last = None
        after_saved, after_fps = folder_state(gen_dir)
        seed_file = [int(v) for v in PRESEED.get_emis_seed(gen_dir)]
        out.append({"n": n, "fresh": (not hash_exists) or (not existed), "force_returned": bool(force),
                    "force_expected": not existed, "seeds_passed": seeds,
                    "seed_file": seed_file, "trace": trace, "saved_before": before_saved,
                    "saved_after": after_saved, "fps_before": before_fps, "fps_after": after_fps,
                    "returned_fps": memo})
    return out


# ------------------------------------------------------------------------------------------------
# production rates outside [0, 1]; whole-run generator folders
# ------------------------------------------------------------------------------------------------
def run_generate_outcome(dur, multi, pre_enabled, n_days, prod_rate, np_seed, rate_sources, rate_key="r"):
    """('raised', exception class name) or ('returned', number of emissions)"""
    src = make_source(dur, multi, prod_rate, rate_source=rate_key)
    np.random.seed(np_seed)
    try:
        ret = src.generate_emissions(SIM_START, SIM_START + timedelta(days=n_days - 1), 0, rate_sources,
                                     pd.DataFrame(), pre_enabled)
    except (Exception, SystemExit) as e:      # noqa: BLE001 - the class is the observation
        return ("raised", type(e).__name__)
    return ("returned", len(ret[src.get_id()]))


def read_generator_folder(gen_dir, start):
    """whole-run generator folder -> (seed list, n_sim_saved, {sim: [(path tuple, repairable, duration,
    [(start offset, id int, id str, rate)])]}) read from the pickles the real simulator wrote"""
    gen_dir = pathlib.Path(gen_dir)
    seeds = [int(v) for v in _read_pickle(gen_dir / Generator_Files.EMISSION_PRESEED_FILE)]
    n_saved = int(_read_pickle(gen_dir / Generator_Files.N_SIM_SAVE_FILE))
    out = {}
    for i in range(n_saved):
        d = _read_pickle(gen_dir / Generator_Files.GEN_INFRA_EMISS.format(i=i))[i]
        rows = []

        def walk(x, path):
            if isinstance(x, dict):
                for k, v in x.items():
                    walk(v, path + (str(k),))
            else:
                ems = [((e._start_date - start).days, int(e._emissions_id), e._emissions_id, float(e._rate))
                       for e in x]
                durs = {int(getattr(e, "_nrd", getattr(e, "_duration", -1))) for e in x}
                reps = {bool(e._repairable) for e in x}
                rows.append((path, reps, durs, ems))
        walk(d, ())
        out[i] = rows
    return seeds, n_saved, out


# ------------------------------------------------------------------------------------------------
# simulation numbers run by the simulation manager (batches of five)
# ------------------------------------------------------------------------------------------------
def real_batches(n):
    from simulation.simulation_helpers import batch_simulations
    return [int(x) for x in batch_simulations(n)]


def run_manager_numbers(n, debug):
    """the REAL SimulationManager.run_simulations (hence the real batch_simulations and the real
    _run_simulations_debug / _run_simulation_multiprocessing loops, incl. mp.Manager and one mp.Pool per
    simulation in the normal mode) on a manager object created without __init__; only the collaborators
    are duck-typed: _setup_programs records the simulation number it is asked for and returns no
    program tuples, the summary manager does nothing.  Returns the numbers in the order they were run."""
    from simulation.simulation_manager import SimulationManager
    import constants.param_default_const as _pdc

    class _NoSummary:
        def gen_summary_outputs(self, *a, **k):
            return None

    mgr = object.__new__(SimulationManager)
    numbers = []

    def setup(simulation_number, lock=None):
        numbers.append(int(simulation_number))
        return []

    mgr.simulation_count = n
    mgr.sim_params = {_pdc.Sim_Setting_Params.PROCESS: 2}
    mgr.programs = {"P_a": {}, "P_b": {}}
    mgr.keep_all_program_outputs = True
    mgr.summary_stats_manager = _NoSummary()
    mgr._setup_programs = setup
    with contextlib.redirect_stdout(io.StringIO()):
        mgr.run_simulations(debug)
    return numbers


def output_scenario_fingerprint(rows):
    """(site, date began, true rate) multiset of one <program>_<sim>_emissions_summary.csv"""
    return sorted((str(r["Site ID"]), r["Date Began"][:10], float(r['"True" Rate (g/s)'])) for r in rows)


def pickled_scenario_fingerprint(rows, start):
    """the same multiset from the pickled scenario rows of read_generator_folder"""
    out = []
    for (path, _, _, ems) in rows:
        for (off, _, _, rate) in ems:
            out.append((str(path[0]), (start + timedelta(days=off)).isoformat(), float(rate)))
    return sorted(out)


# ------------------------------------------------------------------------------------------------
# set-up histories on the REAL path: SimulationManager steps with kill points between them
# ------------------------------------------------------------------------------------------------
class _Killed(BaseException):
    """stands for the process being gone (Ctrl-C / OOM / power) inside the emission generation"""


def run_setup_history(root, runs, post_materialize=None):
    """runs: [(cfg, kill)] with kill in "c" (after check_generator_files), "i" (after setup_infrastructure),
    "f<k>" (inside setup_emissions, after k scenario files of that call), "m" (after the marker was written, before
    anything is handed out) or "x" (complete).  Every run rewrites the input files of `cfg` into the SAME folder
    (harness.wholerun.materialize) and performs the steps of ldar_sim_run.run_ldar_sim that touch the generator
    folder, in its order, on a real SimulationManager; a killed run simply does not execute the later steps.  For a
    complete run the scenarios are read with the manager's own read_in_emissions, one simulation number at a time."""
    from pathlib import Path
    from harness import wholerun as W
    from file_processing.input_processing.input_manager import InputManager
    from simulation.simulation_manager import SimulationManager
    out = []
    gdir = pathlib.Path(root) / "inputs" / Generator_Files.GENERATOR_FOLDER
    for cfg, kill in runs:
        files, in_dir_, _ = W.materialize(cfg, str(root))
        if post_materialize is not None:
            post_materialize(in_dir_, cfg)
        rec = {"kill": kill, "hash_file_exists": None, "generated": [], "handed": None}
        with contextlib.redirect_stdout(io.StringIO()):
            mgr = SimulationManager(input_manager=InputManager(), parameter_filenames=[Path(f) for f in files])
            mgr.check_generator_files()
            if kill != "c":
                mgr.setup_infrastructure()
                rec["hash_file_exists"] = bool(mgr.hash_file_exists)
                if kill != "i":
                    infra = mgr.infrastructure
                    orig = infra.generate_emissions
                    limit = int(kill[1:]) if kill.startswith("f") else None

                    def gen(*a, _orig=orig, _rec=rec, _limit=limit, **k):
                        if _limit is not None and len(_rec["generated"]) >= _limit:
                            raise _Killed()
                        sim = k.get("sim_number", a[2] if len(a) > 2 else None)
                        _rec["generated"].append(int(sim))
                        return _orig(*a, **k)

                    infra.generate_emissions = gen
                    try:
                        mgr.setup_emissions()
                    except _Killed:
                        pass
                    finally:
                        del infra.generate_emissions
                    if kill == "x":
                        handed = {}
                        for i in range(mgr.simulation_count):
                            inf = INIT.read_in_emissions(mgr.infrastructure, mgr.generator_dir, i)
                            rows = []
                            for site in inf._sites:
                                for eqg in site._equipment_groups:
                                    for comp in eqg._component:
                                        for src in comp._sources:
                                            ems = src._generated_emissions[i]
                                            rows.append(((str(site.get_id()), str(eqg.get_id()), str(comp.get_id()), str(src.get_id())),
                                                         [(e._start_date.isoformat(), e._emissions_id, float(e._rate),
                                                           bool(e._repairable), int(getattr(e, "_nrd", getattr(e, "_duration", -1))))
                                                          for e in ems]))
                            handed[i] = rows
                        rec["handed"] = handed
        nloc = gdir / Generator_Files.N_SIM_SAVE_FILE
        rec["marker"] = int(_read_pickle(nloc)) if nloc.exists() else None
        out.append(rec)
    return out


# ------------------------------------------------------------------------------------------------
# granular infrastructure files with per-level overrides of the emission parameters
# ------------------------------------------------------------------------------------------------
def _cell(v):
    if v is None:
        return ""
    if isinstance(v, bool):
        return "TRUE" if v else "FALSE"
    return repr(v) if isinstance(v, float) else str(v)


def write_granular_overrides(in_dir, cfg, ov):
    """rewrite sites.csv / site_type.csv / equipment.csv / sources.csv of a GRANULAR configuration with extra
    columns.  ov = {"site_types": {type: {col: v}}, "sites": {site id: {col: v}}, "equipment": {eq: {col: v}},
    "sources": {(component, source): {col: v}}}; None = blank cell (inherit).  Higher levels use the prefixed
    column names (repairable_duration ...), the sources file the unprefixed ones (duration ...)."""
    import csv as _csv

    def cols_of(level):
        out = []
        for d in ov.get(level, {}).values():
            for c in d:
                if c not in out:
                    out.append(c)
        return out

    c_t, c_s, c_e, c_src = cols_of("site_types"), cols_of("sites"), cols_of("equipment"), cols_of("sources")
    with open(os.path.join(in_dir, "sites.csv"), "w", newline="") as fh:
        w = _csv.writer(fh)
        w.writerow(["site_ID", "lat", "lon", "site_type"] + c_s)
        for s_ in cfg["sites"]:
            o = ov.get("sites", {}).get(s_["id"], {})
            w.writerow([s_["id"], s_["lat"], s_["lon"], s_["type"]] + [_cell(o.get(c)) for c in c_s])
    with open(os.path.join(in_dir, "site_type.csv"), "w", newline="") as fh:
        w = _csv.writer(fh)
        w.writerow(["site_type", "equipment"] + c_t)
        for t, eqs in cfg["site_types"].items():
            o = ov.get("site_types", {}).get(t, {})
            w.writerow([t, ";".join(eqs) + ";"] + [_cell(o.get(c)) for c in c_t])
    comps = sorted({c for e in cfg["equipment"].values() for c in e})
    with open(os.path.join(in_dir, "equipment.csv"), "w", newline="") as fh:
        w = _csv.writer(fh)
        w.writerow(["equipment"] + comps + c_e)
        for e, cc in cfg["equipment"].items():
            o = ov.get("equipment", {}).get(e, {})
            w.writerow([e] + [cc.get(c, 0) for c in comps] + [_cell(o.get(c)) for c in c_e])
    with open(os.path.join(in_dir, "sources.csv"), "w", newline="") as fh:
        w = _csv.writer(fh)
        w.writerow(["component", "source", "repairable", "persistent", "active_duration", "inactive_duration"] + c_src)
        for s_ in cfg["sources"]:
            o = ov.get("sources", {}).get((s_["component"], s_["source"]), {})
            w.writerow([s_["component"], s_["source"], "TRUE" if s_["repairable"] else "FALSE",
                        "TRUE" if s_["persistent"] else "FALSE", s_["active"], s_["inactive"]] + [_cell(o.get(c)) for c in c_src])


# ------------------------------------------------------------------------------------------------
# the same case ALONE in a fresh process (reference for same-process history runs)
# ------------------------------------------------------------------------------------------------
def rates_of_folder(folder, np_seed, k):
    """what one emissions file gives: converted samples, converted maxima and k rates per column"""
    srcs = load_rate_sources(folder)
    out = {}
    for name, s in sorted(srcs.items()):
        np.random.seed(np_seed)
        rates = [float(s.get_a_rate()) for _ in range(k)]
        out[name] = {"class": type(s).__name__, "rates": rates,
                     "samples": [float(x) for x in getattr(s, "_samples", [])],
                     "max": float(s._max_emis_rate)}
    return out


def alone_jobs(jobs, timeout=300):
    """each job {"folder", "np_seed", "k"} in its OWN fresh interpreter, all started together"""
    import json
    import subprocess
    import sys
    env = dict(os.environ)
    env["PYTHONPATH"] = os.path.dirname(os.path.dirname(os.path.dirname(os.path.abspath(__file__)))) \
        + os.pathsep + env.get("PYTHONPATH", "")
    env["PYTHONDONTWRITEBYTECODE"] = "1"
    procs = [subprocess.Popen([sys.executable, "-m", "harness.adapters.gen", json.dumps(j)], env=env,
                              stdout=subprocess.PIPE, stderr=subprocess.PIPE, text=True) for j in jobs]
    res = []
    for p_ in procs:
        o, e = p_.communicate(timeout=timeout)
        if p_.returncode != 0:
            res.append({"error": e[-400:]})
        else:
            res.append(json.loads(o.strip().splitlines()[-1]))
    return res


if __name__ == "__main__":
    import json
    import sys
    job = json.loads(sys.argv[1])
    with contextlib.redirect_stdout(io.StringIO()):
        r = rates_of_folder(job["folder"], job["np_seed"], job["k"])
    print(json.dumps(r))
