"""Drive the real crew logic: Method.survey_site, Method.deploy_crews, ComponentLevelMethod.deploy_crews
(and the SiteLevelMethod / EquipmentGroupLevelMethod subclasses that inherit Method.deploy_crews) with
duck-typed site / weather / daylight stubs, real SurveyPlanner / Workplan / SiteSurveyReport /
CrewDailyReport objects and (for the weather cases) the real WeatherLookup over the synthetic cube
of harness/shim.py.

A *day case* (see `day_line`) is
    (cls, stationary, cost_type, unit_cost, budget_minutes, crews, consider_weather, env, reqs)
with reqs = [(site, S, P, inProgress, travelSoFar, T, siteCost, (temp, wind, precip))]:
one planned request per site, in work-plan order, with the state of its survey report at the start
of the day, the travel time the method will sample for that visit and the weather at the site.
"""
from __future__ import annotations

import datetime as dt
import warnings

from harness import shim

shim.install()

import constants.param_default_const as pdc  # noqa: E402
from programs.method import Method  # noqa: E402
from programs.component_level_method import ComponentLevelMethod  # noqa: E402
from programs.site_level_method import SiteLevelMethod  # noqa: E402
from programs.equipment_group_level_method import EquipmentGroupLevelMethod  # noqa: E402
from scheduling.schedule_dataclasses import CrewDailyReport, SiteSurveyReport  # noqa: E402
from scheduling.survey_planner import SurveyPlanner  # noqa: E402
from scheduling.workplan import Workplan  # noqa: E402

MP = pdc.Method_Params
DATE0 = dt.date(2021, 3, 1)
CLASSES = {"method": Method, "site": SiteLevelMethod, "equipment": EquipmentGroupLevelMethod,
           "component": ComponentLevelMethod}
SCALE_CODE = {"method": 0, "site": 1, "equipment": 2, "component": 3}

# weather envelope used by the cases, in integer model units; the real envelope is the image of
# these bounds under the same float round trip the cube values take (see `rt_temp`), so that the
# float comparisons of check_weather order exactly like the integer comparisons of the model
ENV = {"temp": (-10, 25), "wind": (0, 8), "precip": (0, 3)}


NAN = float("nan")


def rt_temp(t):
    """value check_weather sees for a cube temperature of t degrees C (K -> C round trip); None =
    missing value (NaN in the weather file)"""
    import numpy as np

    if t is None:
        return NAN
    return float(np.float64(t + 273.15) - 273.15)


def rt_precip(p):
    import numpy as np

    if p is None:
        return NAN
    return float(np.float64(p / 1000.0) * 1000)


def rt_wind(w):
    return NAN if w is None else float(w)


def missing_mask(wx):
    """1 temperature, 2 wind, 4 precipitation missing (None)"""
    return (1 if wx[0] is None else 0) + (2 if wx[1] is None else 0) + (4 if wx[2] is None else 0)


def req_fields(q):
    """(site, S, P, inProgress, travelSoFar, T, siteCost, (temp, wind, precip), staleToday) -- the
    ninth field (minutes of the previous visit still standing in time_surveyed_current_day of a
    carried-over report) is optional in a case and defaults to 0"""
    q = tuple(q)
    return q[:8] + ((q[8] if len(q) > 8 else 0),)


def req_json(q):
    q = req_fields(q)
    return list(q[:7]) + [list(q[7]), q[8]]


def req_from_json(r):
    return tuple(r[:7]) + (tuple(r[7]),) + ((r[8],) if len(r) > 8 else (0,))


class StubSite:
    """the part of virtual_world.sites.Site the crew / schedule code touches"""

    def __init__(self, sid, survey_time, survey_cost=0, method="M", lat=0, lon=0, freq=1,
                 years=(2021, 2022, 2023), months=tuple(range(1, 13)), deploy=True):
        self._id = sid
        self._time = survey_time
        self._cost = survey_cost
        self._lat = lat
        self._lon = lon
        self._deploy = deploy
        self._latest = DATE0 - dt.timedelta(days=30)
        self._survey_frequencies = {method: freq}
        self._deployment_years = {method: list(years)}
        self._deployment_months = {method: list(months)}
        self.tag_calls = 0

    def get_id(self):
        return self._id

    def get_required_surveys(self, method_name):
        return self._survey_frequencies.get(method_name, 1)

    def get_method_survey_time(self, method_name):
        return self._time

    def get_survey_cost(self, method_name):
        return self._cost

    def do_site_deployment(self, method_name):
        return self._deploy

    def get_detectable_emissions(self, method_name):
        return {}

    def get_latest_tagging_survey_date(self):
        return self._latest

    def set_latest_tagging_survey_date(self, d):
        self._latest = d

    def get_weather_lat(self):
        return self._lat

    def get_weather_long(self):
        return self._lon

    def tag_emissions_at_component(self, *a, **k):
        self.tag_calls += 1


class StubFollowUpSchedule:
    def get_site_id_queue_list(self):
        return {}


class StubWeather:
    """arrays indexed [hour_of_year, lat, lon] like WeatherLookup; cell (0, site index)"""

    def __init__(self, per_site_wx, day_of_year0):
        import numpy as np

        n = max(len(per_site_wx), 1)
        self.temps = np.zeros((366 * 24, 1, n))
        self.winds = np.zeros((366 * 24, 1, n))
        self.precip = np.zeros((366 * 24, 1, n))
        h = day_of_year0 * 24 + Method.HOUR
        for j, (t, w, p) in enumerate(per_site_wx):
            self.temps[h, 0, j] = rt_temp(t)
            self.winds[h, 0, j] = rt_wind(w)
            self.precip[h, 0, j] = rt_precip(p)


class StubDaylight:
    def __init__(self, hours):
        self._h = hours

    def get_daylight(self, curr_date):
        return self._h


def real_envelope(env=None):
    env = env or ENV
    return {
        MP.TEMP: [rt_temp(env["temp"][0]), rt_temp(env["temp"][1])],
        MP.WIND: [float(env["wind"][0]), float(env["wind"][1])],
        MP.PRECIP: [rt_precip(env["precip"][0]), rt_precip(env["precip"][1])],
    }


def properties(stationary=False, workday=8, crews=1, travel=0, per_day=0, per_site=None, upfront=0,
               consider_daylight=False, env=None, follow_up=False):
    cost = {MP.UPFRONT: upfront, MP.PER_DAY: per_day}
    if per_site is not None:
        cost[MP.PER_SITE] = per_site
    return {
        MP.DEPLOYMENT_TYPE: pdc.Deployment_Types.STATIONARY if stationary else pdc.Deployment_Types.MOBILE,
        MP.SENSOR: {MP.TYPE: "default", MP.MDL: [0.01],
                    MP.QE: {MP.QUANTIFICATION_PARAMETERS: [0.0, 0.0], MP.Q_TYPE: "default"}},
        MP.MAX_WORKDAY: workday,
        MP.CONSIDER_DAYLIGHT: consider_daylight,
        MP.WEATHER_ENVS: real_envelope(env),
        MP.IS_FOLLOW_UP: follow_up,
        MP.T_BW_SITES: {pdc.Common_Params.VAL: travel},
        MP.REPORTING_DELAY: 0,
        MP.N_CREWS: crews,
        MP.COST: cost,
        MP.FOLLOW_UP: {MP.INTERACTION_PRIORITY: "threshold", MP.DELAY: 0, MP.PROPORTION: 1.0,
                       MP.INSTANT_THRESHOLD: None, MP.REDUNDANCY_FILTER: "recent", MP.THRESHOLD: 0.0,
                       MP.PREFERRED_METHOD: "F"},
        MP.ROLLING_AVRG: {MP.SMALL_WINDOW: 7, MP.LARGE_WINDOW: 30, MP.SMALL_WINDOW_THRESHOLD: 0.0,
                          MP.LARGE_WINDOW_THRESHOLD: None},
    }


def make_method(cls="method", sites=None, consider_weather=False, name="M", **kw):
    sites = sites if sites is not None else [StubSite("s0", 60)]
    props = properties(**kw)
    klass = CLASSES[cls]
    warnings.simplefilter("ignore", RuntimeWarning)   # crew estimate divides by a zero survey time
    import contextlib
    import io

    with contextlib.redirect_stdout(io.StringIO()):   # crew-shortage / follow-up crew warnings are printed
        if cls in ("site", "equipment"):
            return klass(name, props, consider_weather, sites=sites,
                         follow_up_schedule=StubFollowUpSchedule(), input_dir=None)
        return klass(name, props, consider_weather, sites, None)


def make_method_from(cls, props, sites=None, consider_weather=False, name="M"):
    """construct from a GIVEN properties dict (the caller keeps the object: SimulationManager hands
    the same method-parameter dict to every Program of every simulation in debug mode)"""
    sites = sites if sites is not None else [StubSite("s0", 60)]
    klass = CLASSES[cls]
    warnings.simplefilter("ignore", RuntimeWarning)
    import contextlib
    import io

    with contextlib.redirect_stdout(io.StringIO()):
        if cls in ("site", "equipment"):
            return klass(name, props, consider_weather, sites=sites,
                         follow_up_schedule=StubFollowUpSchedule(), input_dir=None)
        return klass(name, props, consider_weather, sites, None)


class TravelScript:
    """replaces the sampled travel time of a method by a scripted per-visit sequence (the real
    `_get_travel_time` draws with random.choice from the configured list; the draw is an input of
    the model).  Installed on the instance only."""

    def __init__(self, method, seq):
        self.seq = list(seq)
        self.i = 0
        method._get_travel_time = self

    def __call__(self):
        v = self.seq[self.i]
        self.i += 1
        return v


# ------------------------------------------------------------------------------------------------
# one survey step
# ------------------------------------------------------------------------------------------------
_STEP_METHODS = {}


def _step_method(cls, stationary, consider_weather):
    key = (cls, stationary, consider_weather)
    if key not in _STEP_METHODS:
        _STEP_METHODS[key] = make_method(cls, stationary=stationary, consider_weather=consider_weather)
    return _STEP_METHODS[key]


def fresh_report(site_id, P=0, in_progress=False, travel=0, today=0):
    r = SiteSurveyReport(site_id)
    r.time_surveyed = P
    r.survey_in_progress = in_progress
    r.time_spent_to_travel = travel
    r.time_surveyed_current_day = today
    if in_progress:
        r.survey_start_date = DATE0 - dt.timedelta(days=1)
        r.method = "M"
    return r


def _exact(x):
    """ints stay ints; exact Fractions (fractional-daylight cases) are kept; integral floats -> int"""
    from fractions import Fraction

    if isinstance(x, Fraction):
        return int(x) if x.denominator == 1 else x
    return int(x)


def report_tuple(r):
    return (_exact(r.time_surveyed), _exact(r.time_surveyed_current_day), _exact(r.time_spent_to_travel),
            int(bool(r.survey_complete)), int(bool(r.survey_in_progress)))


# why the weather is not workable: a value beyond the envelope, or a value that is missing (NaN)
UNWORKABLE_WX = [(15, 1, ENV["precip"][1] + 1), (None, 1, 0), (15, None, 0), (15, 1, None), (ENV["temp"][0] - 1, 1, 0),
                 (None, None, None)]


def impl_step(R, S, T, P, stationary, workable, cls="method", in_progress=None, rep=None, today0=0, unworkable_kind=0):
    """real survey_site on a real CrewDailyReport / SiteSurveyReport; weather outcome injected by a
    weather cube whose only cell is inside / outside the envelope (real check_weather)"""
    m = _step_method(cls, stationary, True)
    m._travel_times = 0 if stationary else T   # what _initialize_travel_times does for each type
    site = StubSite("s0", S)
    wx = (15, 1, 0) if workable else UNWORKABLE_WX[unworkable_kind % len(UNWORKABLE_WX)]
    weather = _weather_cached(wx, DATE0.timetuple().tm_yday - 1)
    crew = CrewDailyReport(0, R)
    if rep is None:
        ip = (P > 0) if in_progress is None else in_progress
        rep = fresh_report("s0", P, ip, travel=(T if ip else 0), today=today0)
    before = report_tuple(rep)
    out_rep, travel, last, visited = m.survey_site(crew=crew, survey_report=rep, site_to_survey=site,
                                                   weather=weather, curr_date=DATE0)
    assert out_rep is rep
    return {
        "unworkable_kind": unworkable_kind,
        "rem": crew.day_time_remaining, "report": report_tuple(rep), "before": before,
        "travel": travel, "last": bool(last), "visited": bool(visited),
        "start": rep.survey_start_date, "completion": rep.survey_completion_date,
    }


def step_line(R, S, T, P, stationary, workable, in_progress=None, travel_so_far=None, today0=0):
    ip = (P > 0) if in_progress is None else in_progress
    tr = (T if ip else 0) if travel_so_far is None else travel_so_far
    return "step %d %d %d %d %d %d %d %d %d" % (R, S, T, P, int(stationary), int(workable), int(ip), tr, today0)


def impl_step_reply(res):
    """same layout as the driver's reply to `step`"""
    rp = res["report"]
    return "%d %d %d %d %d %d %d | %d %d %d %d %d" % (
        res["rem"], rp[0], int(rp[3]), int(res["last"]), int(res["visited"]), res["travel"],
        _today_of(res), rp[0], rp[1], rp[2], rp[3], rp[4])


def _today_of(res):
    """minutes surveyed by this step = change of time_surveyed"""
    return res["report"][0] - res["before"][0]


# ------------------------------------------------------------------------------------------------
# a survey over several days (one site, one crew per day)
# ------------------------------------------------------------------------------------------------
def impl_multiday(S, stationary, days, cls="method", steps=None):
    """days = [(R, T, workable, served)]; the same real report object is carried from day to day
    exactly as SurveyPlanner does (so time_surveyed_current_day keeps the previous visit's minutes);
    returns per-day (report tuple, minutes today); if `steps` is a list it receives per day what the
    step did to the crew: dict(R, rem, travel, last, visited, before, after) or None"""
    site = StubSite("s0", S)
    planner = SurveyPlanner(site)
    out = []
    for k, (R, T, workable, served) in enumerate(days):
        rep = planner.get_current_survey_report()
        if rep.survey_complete or not served:
            out.append((report_tuple(rep), 0))
            if steps is not None:
                steps.append(None)
            continue
        before = rep.time_surveyed
        bt = report_tuple(rep)
        m = _step_method(cls, stationary, True)
        m._travel_times = 0 if stationary else T
        wx = (15, 1, 0) if workable else UNWORKABLE_WX[(k + S) % len(UNWORKABLE_WX)]
        d = DATE0 + dt.timedelta(days=k)
        weather = _weather_cached(wx, d.timetuple().tm_yday - 1)
        crew = CrewDailyReport(0, R)
        res = m.survey_site(crew=crew, survey_report=rep, site_to_survey=site, weather=weather, curr_date=d)
        out.append((report_tuple(rep), rep.time_surveyed - before))
        if steps is not None:
            steps.append({"R": R, "rem": crew.day_time_remaining, "travel": res[1], "last": bool(res[2]),
                          "visited": bool(res[3]), "before": bt, "after": report_tuple(rep)})
    return out


_WX_CACHE = {}


def _weather_cached(wx, doy0):
    key = (wx, doy0)
    if key not in _WX_CACHE:
        if len(_WX_CACHE) > 4000:
            _WX_CACHE.clear()
        _WX_CACHE[key] = StubWeather([wx], doy0)
    return _WX_CACHE[key]


def multiday_line(S, stationary, days):
    ds = "[" + ",".join("[%d,%d,%d,%d]" % (R, T, int(w), int(s)) for (R, T, w, s) in days) + "]"
    return "multi %d %d %s" % (S, int(stationary), ds)


def impl_multiday_reply(out):
    return ";".join("%d:%d:%d:%d:%d:%d" % (r + (t,)) for (r, t) in out)


# ------------------------------------------------------------------------------------------------
# a crew day
# ------------------------------------------------------------------------------------------------
class DayResult:
    pass


def hours_for(budget):
    """max_work_hours with max_work_hours * 60 == budget exactly: an int, a float on the quarter
    hour grid, or (odd minute counts of the exhaustive small cases) an exact Fraction"""
    if budget % 60 == 0:
        return budget // 60
    if budget % 15 == 0:
        return budget / 60.0
    from fractions import Fraction

    return Fraction(budget, 60)


def impl_day(case, cost_kw=None, daylight=None):
    """real deploy_crews on a real Workplan of real SurveyPlanners; returns stats, reports, crews
    and the per-visit trace observed by a wrapper around survey_site.  daylight = (workday hours,
    daylight hours): the method is daylight sensitive and gets its minutes from the real
    get_daylight_hours (hours may be exact Fractions: fractional minutes end to end)"""
    (cls, stationary, cost_type, unit_cost, budget, crews, consider_weather, reqs) = case[:8]
    reqs = [req_fields(q) for q in reqs]
    upfront = case[8] if len(case) > 8 else 0
    opts = case[9] if len(case) > 9 and case[9] else {}
    name = opts.get("name", "M")
    day = dt.date.fromisoformat(opts["date"]) if "date" in opts else DATE0
    sites = []
    for j, (sid, S, P, ip, trav, T, scost, w, td) in enumerate(reqs):
        sites.append(StubSite("s%d" % sid, S, scost, method=name, lat=0, lon=j))
    m = build_method(cls, stationary, cost_type, unit_cost, budget, crews, consider_weather, sites, upfront, cost_kw,
                     name=name, portfolio=opts.get("portfolio"), follow_up=bool(opts.get("follow_up")),
                     use_estimate=bool(opts.get("estimate")))
    planners = []
    for s, (sid, S, P, ip, trav, T, scost, w, td) in zip(sites, reqs):
        pl = SurveyPlanner(s)
        if P or ip or trav or td:
            pl._active_survey_report = fresh_report(s.get_id(), P, ip, trav, today=td)
        planners.append(pl)
    if daylight is not None:
        m._daylight_sensitive = True
        m._max_work_hours = daylight[0]
        assert 60 * min(daylight[0], daylight[1]) == budget
        return run_day(m, sites, planners, reqs, day, daylight_hours=daylight[1])
    return run_day(m, sites, planners, reqs, day)


EST_WORKDAY = 8   # workday (hours) the constructor sees when a portfolio is given (the estimate uses it)


def portfolio_sites(portfolio, name="M"):
    """the sites the method is constructed for: (n_sites, surveys per year, survey minutes)"""
    (n, freq, stime) = portfolio[:3]
    return [StubSite("p%d" % i, stime, method=name, freq=freq) for i in range(n)]


def crew_estimate(portfolio, travel=0, workday=EST_WORKDAY):
    """LDAR-Sim's documented crew estimate for a routine mobile method, computed here from the
    configuration: ceil(n_sites / (sites per crew-day x days between surveys))"""
    import math

    (n, freq, stime) = portfolio[:3]
    per_day = (workday * 60 - travel) / (stime + travel)
    return math.ceil(n / (per_day * (365 / freq)))


def configured_crews(case):
    """how many crews the method of a day case has BY ITS CONFIGURATION (never read from the Method
    object): stationary -> 1 pseudo crew; crew_count > 0 -> crew_count; crew_count 0 -> none in the
    'no crews left' cases the harness forces, or the documented estimate (1 for a follow-up method)
    when the case says the estimate is to be used"""
    (cls, stationary, cost_type, unit_cost, budget, crews, consider_weather, reqs) = case[:8]
    opts = case[9] if len(case) > 9 and case[9] else {}
    if stationary:
        return 1
    if crews > 0:
        return crews
    if not opts.get("estimate"):
        return 0
    if opts.get("follow_up"):
        return 1
    return crew_estimate(opts["portfolio"])


def build_method(cls, stationary, cost_type, unit_cost, budget, crews, consider_weather, sites, upfront=0,
                 cost_kw=None, name="M", portfolio=None, follow_up=False, use_estimate=False):
    """the real constructor path.  With a `portfolio` the method is constructed for that many sites
    (surveys per year, survey minutes) with an 8 h workday, so that LDAR-Sim's own crew estimate can
    be smaller than, equal to or larger than the configured crew_count; the day itself is then run
    on the planned `sites` with the case's budget."""
    kw = dict(stationary=stationary, workday=(EST_WORKDAY if portfolio else 1), crews=(crews if (portfolio or use_estimate) else max(crews, 1)),
              travel=0, upfront=upfront, follow_up=follow_up)
    if cost_type == "day":
        kw["per_day"] = unit_cost
        kw["per_site"] = 7
    elif cost_type == "site":
        kw["per_day"] = 0
        kw["per_site"] = unit_cost
    else:  # "none": neither key positive
        kw["per_day"] = 0
    if cost_kw is not None:   # explicit cost block (C10): per_day, per_site (None = key absent), upfront
        kw.pop("per_site", None)
        kw.update(cost_kw)
    ctor_sites = portfolio_sites(portfolio, name) if portfolio else (sites or [StubSite("s0", 60, method=name)])
    m = make_method(cls, sites=ctor_sites, consider_weather=consider_weather, name=name, **kw)
    if crews == 0 and not stationary and not use_estimate:
        # a method whose crews are all gone: the constructor cannot produce it (crew_count 0 means
        # "estimate"), the loop of deploy_crews can still be asked what it does without crews
        m._crews = 0
        m._crew_reports = []
    m._max_work_hours = hours_for(budget)
    assert m._max_work_hours * 60 == budget
    TravelScript(m, [])
    return m


def run_day(m, sites, planners, reqs, day, daylight_hours=24):
    """one real deploy_crews call for the given planners (in this order), with a wrapper around
    survey_site that scripts the sampled travel time and records every visit.  `sites`, `planners`
    and `reqs` are parallel; planners may carry reports from earlier days"""
    by_id = {s.get_id(): j for j, s in enumerate(sites)}
    trace = []
    orig = m.__class__.survey_site.__get__(m)

    def wrapped(crew, survey_report, site_to_survey, weather, curr_date):
        Rb = crew.day_time_remaining
        before = report_tuple(survey_report)
        j = by_id[site_to_survey.get_id()]
        m._get_travel_time.seq = [reqs[j][5]]   # the travel time this visit will sample
        m._get_travel_time.i = 0
        res = orig(crew=crew, survey_report=survey_report, site_to_survey=site_to_survey,
                   weather=weather, curr_date=curr_date)
        trace.append({"site": site_to_survey.get_id(), "crew": crew.crew_id, "R": Rb,
                      "rem": crew.day_time_remaining, "before": before,
                      "after": report_tuple(survey_report), "travel": res[1], "last": bool(res[2]),
                      "visited": bool(res[3])})
        return res

    m.survey_site = wrapped
    for j, s in enumerate(sites):
        s._lat, s._lon = 0, j
    wp = Workplan(planners, day)
    weather = StubWeather([q[7] for q in reqs], day.timetuple().tm_yday - 1)
    stats = m.deploy_crews(wp, weather, StubDaylight(daylight_hours))
    reports, wp_planners = wp.get_reports()
    r = DayResult()
    r.method = m
    r.workplan = wp
    r.stats = stats
    r.reports = {sid: report_tuple(rep) for sid, rep in reports.items()}
    r.report_objs = reports
    r.crews = [(c.crew_id, c.day_time_remaining, bool(c.deployed)) for c in m._crew_reports]
    r.trace = trace
    r.wp_travel = wp.total_travel_time
    r.n_planned = len(wp.site_survey_planners)
    r.upfront = m.get_upfront_cost()
    r.cost_type = m.cost_type
    r.unit_cost = m.cost
    return r


def impl_campaign(camp):
    """several consecutive days of the REAL deploy_crews on the same real SurveyPlanner objects, the
    plan of each day drawn from a real priority queue filled by the real GenericSchedule.update
    (unfinished first, then unattended, then new) -- so reports really are carried over, with
    whatever the code leaves in them (time_surveyed_current_day of the previous visit included).
    camp = dict(cls, budget, crews, per_day_plan, ndays, sites=[(S, T, siteCost)], weather=[[wx per
    site] per day] or None).  Returns a list of (day case in `impl_day` format -- the state at the
    start of that day --, DayResult)."""
    from scheduling.generic_schedule import GenericSchedule
    from utils.queue import PriorityQueueWithFIFO

    cls, budget, crews = camp["cls"], camp["budget"], camp["crews"]
    cw = camp.get("weather") is not None
    sites = [StubSite("s%d" % i, S, sc) for i, (S, T, sc) in enumerate(camp["sites"])]
    m = build_method(cls, False, "site", 50, budget, crews, cw, sites)
    planners = {s.get_id(): SurveyPlanner(s) for s in sites}
    sched = GenericSchedule.__new__(GenericSchedule)
    sched._method = "M"
    sched._survey_queue = PriorityQueueWithFIFO()
    sched._method_crews = max(crews, 1)
    sched._est_meth_daily_surveys = camp["per_day_plan"]
    for s in sites:
        sched.add_to_survey_queue(planners[s.get_id()])
    out = []
    day0 = dt.date.fromisoformat(camp["start"]) if camp.get("start") else DATE0
    for k in range(camp["ndays"]):
        day = day0 + dt.timedelta(days=k)
        plan = sched.get_daily_sites_to_survey()
        if not plan:
            break
        psites = [pl.get_site() for pl in plan]
        reqs = []
        for pl in plan:
            i = int(pl.get_site().get_id()[1:])
            (S, T, sc) = camp["sites"][i]
            rep = pl._active_survey_report
            wx = tuple(camp["weather"][k % len(camp["weather"])][i]) if cw else (15, 1, 0)
            if rep is None:
                reqs.append((i, S, 0, False, 0, T, sc, wx, 0))
            else:
                t = report_tuple(rep)
                reqs.append((i, S, t[0], bool(t[4]), t[2], T, sc, wx, t[1]))
        case = (cls, False, "site", 50, budget, crews, cw, reqs, 0, {"date": day.isoformat()})
        r = run_day(m, psites, plan, reqs, day)
        out.append((case, r))
        sched.update(r.workplan, day, False)
    return out


def reqs_token(reqs):
    return "[" + ",".join(
        "[%d,%d,%d,%d,%d,%d,%d,%d,%d,%d,%d,%d]" % (sid, S, P, int(ip), trav, T, scost, w[0] or 0, w[1] or 0, w[2] or 0, td,
                                                    missing_mask(w))
        for (sid, S, P, ip, trav, T, scost, w, td) in map(req_fields, reqs)) + "]"


def day_line(case):
    (cls, stationary, cost_type, unit_cost, budget, crews, consider_weather, reqs) = case[:8]
    per_site = 1 if cost_type == "site" else 0
    uc = unit_cost if cost_type in ("day", "site") else 0
    rq = reqs_token(reqs)
    e = ENV
    crews = configured_crews(case)
    return "day %d %d %d %d %d %d %d [%d,%d,%d,%d,%d,%d] %s" % (
        SCALE_CODE[cls], int(stationary), per_site, uc, budget, crews, int(consider_weather),
        e["temp"][0], e["temp"][1], e["wind"][0], e["wind"][1], e["precip"][0], e["precip"][1], rq)


def _num(x):
    """costs / minutes are exact integers on the grids used; refuse anything else"""
    assert x == int(x), x
    return int(x)


def impl_day_reply(case, r, scale=1):
    """same layout as the driver's reply to `day`; `scale` multiplies every time quantity (minutes
    with a common denominator are compared with the integer model in units of 1/scale minute)"""
    k = scale
    reqs = case[7]
    by_site = {t["site"]: t for t in r.trace}
    parts = []
    for (sid, S, P, ip, trav, T, scost, w, td) in map(req_fields, reqs):
        key = "s%d" % sid
        rep = r.reports[key]
        t = by_site.get(key)
        crew = "-" if t is None else str(t["crew"])
        vis = 0 if t is None else int(t["visited"])
        last = 0 if t is None else int(t["last"])
        tr = 0 if t is None else _num(t["travel"] * k)
        parts.append("%d:%s:%d:%d:%d:%d:%d:%d:%d:%d" % (sid, crew, _num(rep[0] * k), _num(rep[1] * k), _num(rep[2] * k), rep[3], rep[4],
                                                    vis, last, tr))
    crews = ",".join("%d:%d:%d:%d:%d" % ((cid, _num(rem * k), int(dep)) + tuple(_num(x * k) for x in crew_ghost(r.trace, cid)))
                     for (cid, rem, dep) in r.crews)
    return "%d %d %d %d %d | %s | %s" % (
        _num(r.stats.deployment_cost), r.stats.sites_visited, _num(r.stats.travel_time * k),
        _num(r.stats.survey_time * k), _num(r.wp_travel * k), ";".join(parts), crews)


def _completed_now(t):
    return t["visited"] and bool(t["after"][3]) and not bool(t["before"][3])


def crew_ghost(trace, cid):
    """(minutes charged to the crew over its visits = travel + survey minutes, travel time of the
    last site it reached) read off the wrapper trace"""
    spent = 0
    home = 0
    for t in trace:
        if t["crew"] != cid:
            continue
        spent += t["travel"] + (t["after"][0] - t["before"][0])
        if _completed_now(t) or (t["visited"] and t["after"][0] > t["before"][0]):
            home = t["travel"]
    return spent, home


# ------------------------------------------------------------------------------------------------
# budget of the day (workday / daylight)
# ------------------------------------------------------------------------------------------------
def impl_budget(consider_daylight, workday, daylight_hours, cls="method", daylight_obj=None, day=DATE0):
    """minutes every crew starts the day with: the real deploy_crews on an empty work plan (so the
    real get_daylight_hours and the x60 conversion run), read from the crew reports"""
    m = make_method(cls, consider_daylight=consider_daylight, workday=8, crews=2)
    m._max_work_hours = workday   # (a zero workday overflows the crew estimate of the constructor)
    wp = Workplan([], day)
    m.deploy_crews(wp, None, daylight_obj or StubDaylight(daylight_hours))
    vals = {c.day_time_remaining for c in m._crew_reports}
    assert len(vals) == 1
    return vals.pop()


def real_daylight(hours_fn, start, end):
    """the real DaylightCalculatorAve over the stub ephem (sunrise at midnight, sunset after
    hours_fn(date) hours)"""
    from weather.daylight_calculator import DaylightCalculatorAve

    shim.set_daylight(hours_fn)
    try:
        return DaylightCalculatorAve((50.0, -110.0), start, end)
    finally:
        shim.set_daylight(None)


# ------------------------------------------------------------------------------------------------
# weather: real WeatherLookup over the synthetic cube, real nearest-cell assignment, real check
# ------------------------------------------------------------------------------------------------
class LocSite(StubSite):
    def __init__(self, sid, survey_time, lat, lon, **kw):
        super().__init__(sid, survey_time, **kw)
        self._loc = (lat, lon)

    def get_loc(self):
        return self._loc

    def set_weather_lat(self, v):
        self._lat = v

    def set_weather_long(self, v):
        self._lon = v


def real_weather(fn, lats, lons):
    """WeatherLookup reading the cube of harness/shim.py; fn(day_of_year0, lat_idx, lon_idx) ->
    (temp C, wind m/s, precip mm) in the cube's own (file) index order"""
    from pathlib import Path
    from weather.weather_lookup import WeatherLookup

    shim.set_weather(fn, lats=lats, lons=lons)
    try:
        return WeatherLookup({"weather_file": "synthetic.nc"}, Path("."))
    finally:
        shim.set_weather(None, lats=[20.0, 40.0, 60.0], lons=[-120.0, -100.0, -80.0])


def place_sites(sites, weather):
    """the real Infrastructure.set_weather_index on the given sites"""
    import types
    from virtual_world.infrastructure import Infrastructure

    Infrastructure.set_weather_index(types.SimpleNamespace(_sites=sites), weather)


def impl_weather_day(cls, sites, weather, day, env=None, budget_hours=24):
    """one real deploy_crews day with every site planned and a fresh report; returns
    {site id: (visited, report tuple)}"""
    m = make_method(cls, sites=sites, consider_weather=True, workday=budget_hours, crews=1, env=env)
    TravelScript(m, [0] * (len(sites) + 1))
    seen = {}
    orig = m.survey_site

    def wrapped(crew, survey_report, site_to_survey, weather, curr_date):
        res = orig(crew=crew, survey_report=survey_report, site_to_survey=site_to_survey,
                   weather=weather, curr_date=curr_date)
        seen[site_to_survey.get_id()] = bool(res[3])
        return res

    m.survey_site = wrapped
    planners = [SurveyPlanner(s) for s in sites]
    wp = Workplan(planners, day)
    m.deploy_crews(wp, weather, StubDaylight(24))
    reports, _ = wp.get_reports()
    return {sid: (seen.get(sid, False), report_tuple(reports[sid])) for sid in reports}, wp


def requeue_classes(wp, day=DATE0):
    """the real GenericSchedule.update on the day's work plan: {site id: priority class} of what it
    puts back into the queue, and the list of completed site ids"""
    from scheduling.generic_schedule import GenericSchedule
    from utils.queue import PriorityQueueWithFIFO

    sched = GenericSchedule.__new__(GenericSchedule)
    sched._method = "M"
    sched._survey_queue = PriorityQueueWithFIFO()
    reports, planners = wp.get_reports()
    before = {sid: pl._surveys_this_year.get(day.year, 0) for sid, pl in planners.items()}
    sched.update(wp, day, False)
    queued = {}
    while not sched._survey_queue.empty():
        prio, _, pl = sched._survey_queue.get()
        queued.setdefault(pl.get_site().get_id(), []).append(prio)
    done = [sid for sid, pl in planners.items() if pl._surveys_this_year.get(day.year, 0) > before[sid]]
    return queued, done


# ------------------------------------------------------------------------------------------------
# shapes of the configured travel time (the real _get_travel_time, not the scripted one)
# ------------------------------------------------------------------------------------------------
def impl_travel_samples(travel, n=40, cls="method"):
    """the real Method._get_travel_time for an int / float / list configuration; returns the values
    drawn (the draw itself is random: an input of the model)"""
    m = make_method(cls, travel=travel)
    return [m._get_travel_time() for _ in range(n)], m._travel_times


def pickle_roundtrip(obj):
    """what a worker process receives: objects handed to the pool go through pickle (__reduce__)"""
    import pickle

    return pickle.loads(pickle.dumps(obj))


# ------------------------------------------------------------------------------------------------
# how many crews a method is built with (the real constructors)
# ------------------------------------------------------------------------------------------------
def impl_crews(cls, stationary, follow_up, configured, portfolio):
    """real constructor of the class for the given portfolio; returns (get_crew_count(), crew ids of
    the crew reports, estimate_average_daily_surveys())"""
    m = make_method(cls, sites=portfolio_sites(portfolio), stationary=stationary, follow_up=follow_up,
                    crews=configured, workday=EST_WORKDAY, travel=0)
    return m.get_crew_count(), [c.crew_id for c in m._crew_reports]


def crews_line(stationary, follow_up, configured, portfolio):
    return "crews %d %d %d %d" % (int(stationary), int(follow_up), configured, crew_estimate(portfolio))
