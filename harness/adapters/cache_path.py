"""Whole-path stage of C17: from the parameter FILES to the generator folder.

Every run here is what `run_ldar_sim` does up to the end of the scenario set-up, with nothing
supplied by the harness in between: the real `InputManager` reads and validates yaml parameter
files written to a temporary folder, the real `SimulationManager.__init__` (`_read_in_parameters`,
`_set_parameters`, `setup_properties`, `initialize_summary_managers`) turns them into the dictionaries,
and `check_generator_files -> setup_infrastructure -> setup_emissions` use the generator folder.

Two runs share one generator folder; run 2 differs from run 1 in exactly ONE defining input:
  * one leaf of the virtual-world / program / method parameter trees - every leaf of the validated
    dictionaries (= defaults merged with the files; coverage of the default files' leaves is
    measured), mutated by a type-directed rule and written into the parameter file it belongs to; a
    mutation the real intake / set-up rejects is counted, not judged;
  * one defining input file edited in its first data cell, in a middle row, or in its LAST BYTE, with
    the file padded by valid unused rows to sizes below and above 64 KiB and 1 MiB.
Oracle: run 2 must rewrite the hash file, the infrastructure file and every emission file; its
stored infrastructure and scenarios must equal those of the same configuration run on an EMPTY
generator folder holding the same seed file; the dictionaries the manager ends up with must equal
what an independent intake of the same files yields (no defining leaf lost on the way to the hash).
`hash_file` itself is also exercised directly on raw byte strings (single-byte flips at the first,
middle and last byte for sizes around 4 KiB, 64 KiB and 1 MiB).
"""
from __future__ import annotations

import contextlib
import copy
import io
import os
import pickle
import shutil
from pathlib import Path

import yaml

from harness.adapters import cache as C

np = C.np
InputManager = C.InputManager
SimulationManager = C.SimulationManager
II = C.II

N_SIMS = 2
PAD_SIZES = {"small": 0, "64k": 70_000, "1m": 1_100_000}


# ------------------------------------------------------------------------------------------------
# defining input files with a numeric last cell, optionally padded with valid unused rows
# ------------------------------------------------------------------------------------------------
def _pad(rows_fn, head, body, tail_fn, size):
    """head + body + unused rows until `size` bytes + last row (no trailing newline)"""
    out = [head] + body
    n = sum(len(x) + 1 for x in out)
    k = 0
    while n < size:
        r = rows_fn(k)
        out.append(r)
        n += len(r) + 1
        k += 1
    out.append(tail_fn(k))
    return "\n".join(out)


def input_file(inp, size=0, edit=None):
    """content of a defining input file; edit in {None, 'first', 'middle', 'last'} changes one
    character of the first data cell / a middle row / the last byte of the file"""
    first = "2" if edit == "first" else "1"
    last = "7" if edit == "last" else "5"
    if inp == "site":
        t = _pad(lambda k: f"{1000 + k},site_type1,-119.99,55.1", "site_ID,site_type,lon,lat",
                 [f"{first},site_type1,-119.99,55.05", "2,site_type1,-119.99,55.06", "3,site_type1,-119.99,55.07"],
                 lambda k: f"{1000 + k},site_type1,-119.99,55.{last}", size)
    elif inp == "siteType":
        t = _pad(lambda k: f"unused_type{k},equip1;,0.1", "site_type,equipment,repairable_emissions_production_rate",
                 [f"site_type1,equip1;equip2;,0.{first}", "site_type2,equip2;,0.1"],
                 lambda k: f"unused_type{k},equip1;,0.{last}", size)
    elif inp == "equip":
        t = _pad(lambda k: f"unused_equip{k},1,1", "equipment,comp1,comp2",
                 [f"equip1,{first},1", "equip2,1,2", "equip3,2,0"], lambda k: f"unused_equip{k},1,{last}", size)
    elif inp == "source":
        t = _pad(lambda k: f"unused_comp{k},unused_src{k},0.25,test1,TRUE,TRUE,300",
                 "component,source,EPR,ERS,repairable,multiple_emissions,duration",
                 [f"comp1,test1,0.25,test1,TRUE,TRUE,30{first}", "comp2,test2,0.25,test2,FALSE,TRUE,200"],
                 lambda k: f"unused_comp{k},unused_src{k},0.25,test1,TRUE,TRUE,30{last}", size)
    elif inp == "emisRate":
        t = _pad(lambda k: f"{1 + k % 7}.5,{2 + k % 5}.5",
                 "test1,test2\nsample,sample\nlognorm,lognorm\n100000,100000\ngram,gram\nsecond,second",
                 [f"{first},2", "1.5,2.5"], lambda k: f"1.25,2.{last}", size)
    elif inp == "repairDelay":
        t = _pad(lambda k: f"{3 + k % 9}", "d", [f"{first}", "4"], lambda k: f"{last}", size)
    else:
        raise KeyError(inp)
    if edit == "middle":
        lines = t.split("\n")
        j = len(lines) // 2 if len(lines) > 12 else (7 if inp == "emisRate" else min(2, len(lines) - 1))
        cells = lines[j].split(",")
        # change one digit of the last numeric cell of that row
        c = cells[-1]
        cells[-1] = c[:-1] + ("8" if c[-1] != "8" else "9")
        lines[j] = ",".join(cells)
        t = "\n".join(lines)
    return t


# ------------------------------------------------------------------------------------------------
def leaves(d, pre=()):
    for k, v in d.items():
        if isinstance(v, dict):
            yield from leaves(v, pre + (k,))
        else:
            yield pre + (k,), v


_ALT = {"default": "uniform", "uniform": "default", "threshold": "proportion", "proportion": "threshold",
        "recent": "max", "max": "average", "measurement-based": "component-based",
        "component-based": "measurement-based", "component": "equipment", "equipment": "component",
        "site": "equipment", "OGI_camera_zim": "OGI_camera_rk", "OGI_camera_rk": "OGI_camera_zim"}


def candidates(path, v, pool=()):
    """other values for a leaf, most plausible first (the real intake decides whether they are valid);
    pool: values found under the same key name elsewhere in the parameter trees"""
    if v is None:
        return [x for x in pool if x is not None][:2] + (["repair_delays.csv"] if "file" in str(path[-1]) else [])
    if isinstance(v, bool):
        return [not v]
    if isinstance(v, int):
        return [v + 1] + ([v - 1] if v > 1 else [])
    if isinstance(v, float):
        return [v / 2 if v else 0.5, v + 0.125]
    if isinstance(v, str):
        if v.endswith(".csv"):
            return [("copy-file", "x_" + v)]
        return ([_ALT[v]] if v in _ALT else []) + [x for x in pool if isinstance(x, str) and x != v][:2] + [v + "_x"]
    if isinstance(v, list):
        if path[-1] in ("start_date", "end_date"):
            return [[v[0], v[1], v[2] + 1]]
        if not v:
            return [[2021]] if path[-1] == "deployment_years" else []
        if all(isinstance(x, bool) for x in v):
            return []
        if all(isinstance(x, int) for x in v):
            return [[v[0] + 1] + v[1:]] if len(v) == 1 else [v[1:]]
        if all(isinstance(x, (int, float)) for x in v):
            return [[(v[0] / 2 if v[0] else 0.25)] + v[1:], [v[0] + 0.125] + v[1:]]
        return []
    return []          # None: an unset optional parameter


class PathWorld:
    def __init__(self, root):
        self.root = Path(root)
        self.in_dir = self.root / "in"
        shutil.copytree(C.SHAPES["granular"]["inputs"], self.in_dir)
        self.file_names = dict(C.FILE_INPUTS)
        for inp in self.file_names:
            self.write_input(inp)
        self.gen = self.in_dir / C.Generator_Files.GENERATOR_FOLDER
        self.pdir = self.root / "params"
        self.pdir.mkdir()
        src = Path(C.SHAPES["granular"]["params"])
        self.files = {f.name: yaml.safe_load(open(f)) for f in sorted(src.iterdir())}
        self.files["Simulation_settings.yaml"].update({
            "input_directory": str(self.in_dir), "output_directory": str(self.root / "out"),
            "simulation_count": N_SIMS, "preseed_random": True})
        vw = self.files["virtual_world.yaml"]
        vw.update({"site_samples": 2, "start_date": [2021, 1, 1], "end_date": [2021, 1, 20]})
        vw.setdefault("repairs", {}).setdefault("delay", {})["file"] = self.file_names["repairDelay"]
        for k in ("repairable_emissions", "non_repairable_emissions"):
            vw["emissions"][k]["emissions_production_rate"] = 0.25
        self.base_files = copy.deepcopy(self.files)
        self.write_params()
        self.pos, self.draw_names, self.gid_now, self.k_now, self.runs = 0, {}, 0, 0, 0   # preseed stream (cache.STREAM)
        self.want_implied = False

    # -- inputs -------------------------------------------------------------------------------------
    def write_input(self, inp, size=0, edit=None):
        with open(self.in_dir / self.file_names[inp], "w") as fh:
            fh.write(input_file(inp, size, edit))

    def write_params(self):
        for n, d in self.files.items():
            with open(self.pdir / n, "w") as fh:
                yaml.safe_dump(d, fh)

    def reset_params(self):
        self.files = copy.deepcopy(self.base_files)
        self.write_params()

    def set_leaf(self, path, value, tree):
        """write the leaf into the parameter file it belongs to; tree in {'vw', 'prog'}"""
        if tree == "vw":
            d, rest = self.files["virtual_world.yaml"], path
        elif len(path) > 2 and path[1] == "methods":
            d = next(f for f in self.files.values() if f.get("parameter_level") == "methods"
                     and f.get("method_name") == path[2])
            rest = path[3:]
        else:
            d = next(f for f in self.files.values() if f.get("parameter_level") == "programs"
                     and f.get("program_name") == path[0])
            rest = path[1:]
        for k in rest[:-1]:
            d = d.setdefault(k, {})
        d[rest[-1]] = value
        self.write_params()

    # -- one run -----------------------------------------------------------------------------------
    def folder_state(self):
        out = {}
        if self.gen.is_dir():
            for name in os.listdir(self.gen):
                st = os.stat(self.gen / name)
                out[C.file_id(self.gen / name) or name] = (st.st_size, st.st_mtime_ns, st.st_ino)
        return out

    def intake(self):
        """an independent intake of the same parameter files (what the user gave, validated)"""
        with contextlib.redirect_stdout(io.StringIO()), contextlib.redirect_stderr(io.StringIO()):
            p = InputManager().read_and_validate_parameters(sorted(self.pdir.iterdir()))
        return p[C.pc.Levels.VIRTUAL], p[C.pc.Levels.PROGRAM]

    def run(self):
        before = self.folder_state()
        np.random.seed(C.NP_SEED + self.runs)          # every run is a new process: other entropy
        C.STREAM.world, self.gid_now, self.k_now = self, self.runs, 0
        self.runs += 1
        n_sims = self.files["Simulation_settings.yaml"]["simulation_count"]
        out = {"outcome": "done", "error": None}
        sm = None
        try:
            with contextlib.redirect_stdout(io.StringIO()), contextlib.redirect_stderr(io.StringIO()):
                sm = SimulationManager(InputManager(), sorted(self.pdir.iterdir()))
                out["stage"] = "set-up"
                sm.check_generator_files()
                sm.setup_infrastructure()
                sm.setup_emissions()
        except (Exception, SystemExit) as e:
            out["outcome"] = "rejected" if sm is None else "fail"
            out["error"] = f"{type(e).__name__}: {e}"[:200]
            return out
        finally:
            C.STREAM.world = None
        after = self.folder_state()
        out["changed"] = sorted(f for f in set(before) | set(after) if before.get(f) != after.get(f))
        out["vw"], out["programs"] = sm.virtual_world, sm.programs
        st, obj = C._load(self.gen / C.GEN_FILES["infra"])
        out["infra"] = C.infra_digest(obj) if st == "ok" else st
        out["emis"], out["bodies"], out["emis_sha"] = [], [], []
        for i in range(n_sims):
            pth = self.gen / C.Generator_Files.GEN_INFRA_EMISS.format(i=i)
            st, obj = C._load(pth)
            out["emis"].append(C.digest(obj) if st == "ok" else st)
            out["bodies"].append(C.digest(list(obj.values())[0]) if st == "ok" and isinstance(obj, dict)
                                 and len(obj) == 1 else st)
            out["emis_sha"].append(C.hashlib.sha1(open(pth, "rb").read()).hexdigest() if st == "ok" else st)
        st, obj = C._load(self.gen / C.GEN_FILES["seeds"])
        out["seeds"] = [int(x) for x in obj] if st == "ok" else st
        # what the configuration implies, read off the stored scenarios (sources file sets its own durations)
        # (the rules come from an independent intake of the parameter files: what the user configured)
        out["implied"] = []
        if self.want_implied:
            rules = C.rules_from_vw(self.intake()[0], source_level=True)
            for i in range(n_sims):
                st, obj = C._load(self.gen / C.Generator_Files.GEN_INFRA_EMISS.format(i=i))
                out["implied"].append(C.implied_violations(obj, rules) if st == "ok" else [])
        st, obj = C._load(self.gen / C.GEN_FILES["hashes"])
        out["hashes"] = obj if st == "ok" else st
        return out

    def snapshot(self, dst):
        if os.path.exists(dst):
            shutil.rmtree(dst)
        shutil.copytree(self.gen, dst)

    def restore(self, src):
        if self.gen.is_dir():
            shutil.rmtree(self.gen)
        shutil.copytree(src, self.gen)

    def fresh_run(self):
        """the same configuration on an EMPTY generator folder that holds the same seed file"""
        aside = str(self.gen) + "_aside"
        if os.path.exists(aside):
            shutil.rmtree(aside)
        os.rename(self.gen, aside)
        os.mkdir(self.gen)
        seeds = os.path.join(aside, C.GEN_FILES["seeds"])
        if os.path.isfile(seeds):
            shutil.copyfile(seeds, self.gen / C.GEN_FILES["seeds"])
        try:
            return self.run()
        finally:
            shutil.rmtree(self.gen, ignore_errors=True)
            os.rename(aside, self.gen)


def default_leaf_paths():
    """leaf paths of the default parameter files (what the stage must at least enumerate)"""
    d = os.path.join(C.shim.REPO_SRC, "default_parameters")
    out = {}
    for name in ("virtual_world_default.yml", "p_default.yml", "m_default_mobile.yml", "m_default_stationary.yml"):
        out[name] = [p for p, _ in leaves(yaml.safe_load(open(os.path.join(d, name))))]
    return out


def hash_file_bytes(ctx_violate, tmpdir, sizes):
    """the real hash_file on raw files: a flip of the first, a middle or the last byte must change the hash"""
    n = 0
    for size in sizes:
        base = bytes((i * 131 + 7) % 251 for i in range(size))
        p = os.path.join(tmpdir, "raw.bin")
        with open(p, "wb") as fh:
            fh.write(base)
        h0 = II.hash_file(p)
        for name, pos in (("first", 0), ("middle", size // 2), ("last", size - 1)):
            b = bytearray(base)
            b[pos] ^= 0x55
            with open(p, "wb") as fh:
                fh.write(bytes(b))
            n += 1
            if II.hash_file(p) == h0:
                ctx_violate("C17:path:hash_file-ignores-a-byte",
                            f"hash_file gives the same hash after flipping the {name} byte (offset {pos}) of a "
                            f"{size}-byte file", {"path_stage": "hash_file", "size": size, "offset": pos})
    return n
