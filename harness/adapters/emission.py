"""Drive the real emission classes through the real Component / Source day by day.

A case is (start, nrd, delay, repairable, intermittent, activeDur, inactiveDur, N, events) with day
indices relative to the first simulated day; events = [(day, company_idx, reporting_delay)].
The real objects used: emission_types.* (constructed by the real Source._create_emission when
`via_source`), Source.activate_emissions (pending list + cursor), Component.activate_emissions /
tag_emissions / update_emissions_state, Emission.get_summary_dict.  The end date handed to
get_summary_dict is the expression LdarSim.run_simulation itself uses (read from ldar_sim.py).
"""
from __future__ import annotations

import ast
import os
from datetime import date, timedelta
from datetime import datetime as _datetime

from harness import shim

shim.install()

from virtual_world.component import Component  # noqa: E402
from virtual_world.sources import Source  # noqa: E402
from virtual_world import emission_types  # noqa: E402
from file_processing.output_processing.output_utils import EmisInfo, TsEmisData  # noqa: E402
from scheduling.schedule_dataclasses import TaggingInfo  # noqa: E402
from constants.output_file_constants import EMIS_DATA_COL_ACCESSORS as eca  # noqa: E402

SIM_START = date(2021, 3, 1)


def d2i(d):
    """date -> day index, by Python's own calendar (date subtraction), independent of any index
    arithmetic of the code under test"""
    if d is None:
        return None
    if isinstance(d, _datetime):  # datetime / pandas Timestamp
        d = d.date()
    return (d - SIM_START).days


class sim_start:
    """context manager: run the adapter with another first simulated day (calendar stage: New Year,
    leap day, day-of-year 366 inside the period).  Day indices in cases and results stay relative."""

    def __init__(self, d):
        self.d = d

    def __enter__(self):
        global SIM_START
        self.old = SIM_START
        SIM_START = self.d
        _TC_CACHE.clear()

    def __exit__(self, *a):
        global SIM_START
        SIM_START = self.old
        _TC_CACHE.clear()


_END_ARG_EXPR = None
END_ARG_PROBLEM = []  # filled when the call-site expression cannot be found / evaluated in the stub namespace


def summary_end_arg_expr():
    """the second argument of `self._infrastructure.gen_summary_emis_data(...)` in ldar_sim.py"""
    global _END_ARG_EXPR
    if _END_ARG_EXPR is None:
        found = None
        try:
            src = open(os.path.join(shim.REPO_SRC, "ldar_sim.py")).read()
            tree = ast.parse(src)
            for node in ast.walk(tree):
                if isinstance(node, ast.Call) and isinstance(node.func, ast.Attribute) \
                        and node.func.attr == "gen_summary_emis_data":
                    if len(node.args) > 1:
                        found = ast.unparse(node.args[1])
                    else:
                        kw = [k for k in node.keywords if k.arg in ("end_date", "date")]
                        found = ast.unparse(kw[0].value) if kw else None
        except (OSError, SyntaxError):
            found = None
        if found is None:
            # unexpected shape of the code: recorded as a broken correspondence (the checks report it and
            # the whole-run stage keeps looking for a failing input); the adapter falls back to the time
            # counter after the loop
            if not END_ARG_PROBLEM:
                END_ARG_PROBLEM.append("ldar_sim.py: no call `<x>.gen_summary_emis_data(<data>, <end date>)` found; "
                                       "the adapter hands the time counter's date after the loop to get_summary_dict")
            found = "self._tc.current_date"
        _END_ARG_EXPR = found
    return _END_ARG_EXPR


class _Self:
    def __init__(self, tc):
        self._tc = tc


_TC_CACHE = {}


def real_time_counter(n):
    """the REAL TimeCounter of a period of `n` days, stepped by the loop condition of
    LdarSim.run_simulation (`while not tc.at_simulation_end(): ... tc.next_day()`); returns
    (counter after the loop, number of loop iterations).  The number of iterations is the number of
    days the adapter simulates, so a change of `at_simulation_end` / `next_day` shows up as a
    model/implementation disagreement of the unit cases (the model simulates exactly `n` days and hands
    `summaryEndArg n` to calc_mitigated)."""
    if n not in _TC_CACHE:
        from time_counter import TimeCounter

        e = SIM_START + timedelta(days=n - 1)
        tc = TimeCounter((SIM_START.year, SIM_START.month, SIM_START.day), (e.year, e.month, e.day))
        k = 0
        while not tc.at_simulation_end() and k < n + 400:
            tc.next_day()
            k += 1
        _TC_CACHE[n] = (tc, k)
    return _TC_CACHE[n]


def summary_end_date(n):
    """the date LdarSim.run_simulation hands to gen_summary_emis_data, evaluated from the call-site
    expression with the names ldar_sim.py itself has in scope; if the expression uses anything else the
    adapter falls back to the time counter after the loop and records the problem (the check reports a
    broken correspondence and the whole-run stage looks for the failing input)"""
    import datetime as _dt

    tc = real_time_counter(n)[0]
    env = {"date": _dt.date, "timedelta": _dt.timedelta, "datetime": _dt.datetime, "np": __import__("numpy"),
           "pd": __import__("pandas")}
    try:
        out = eval(summary_end_arg_expr(), env, {"self": _Self(tc)})
        if isinstance(out, _dt.datetime):
            out = out.date()
        if not isinstance(out, _dt.date):
            raise TypeError("not a date: %r" % (out,))
        return out
    except Exception as e:  # noqa: BLE001
        if not END_ARG_PROBLEM:
            END_ARG_PROBLEM.append("ldar_sim.py: end-date argument `%s` of gen_summary_emis_data could not be "
                                   "evaluated by the adapter (%s: %s)" % (summary_end_arg_expr(), type(e).__name__, e))
        return tc.current_date


def simulated_days(n):
    return real_time_counter(n)[1]


def make_emission(start, nrd, delay, repairable, intermittent, adur, idur, rate=1.0, cost=100.0):
    sd = SIM_START + timedelta(days=start)
    if repairable and not intermittent:
        return emission_types.RepairableEmission(1, rate, sd, SIM_START, True, {}, {}, delay, cost, nrd)
    if repairable and intermittent:
        return emission_types.IntermittentRepairableEmission(
            1, rate, sd, SIM_START, True, {}, {}, delay, cost, nrd, adur, idur)
    if not repairable and not intermittent:
        return emission_types.NonRepairableEmission(1, rate, sd, SIM_START, False, {}, {}, nrd)
    return emission_types.IntermittentNonRepairableEmission(
        1, rate, sd, SIM_START, False, {}, {}, nrd, adur, idur)


def make_component(emissions):
    """a real Component holding one real Source whose pending list is `emissions`
    (pending lists are kept reversed: pop() yields the earliest)"""
    pend = sorted(emissions, key=lambda e: e._start_date, reverse=True)
    src = Source._reconstruct("S", True, True, 1, 0, True, {0: pend}, None, None, None, None, None,
                              None, None, "repairable")
    return Component._reconstruct("comp", "comp_1", [src], [], [], {})


def status_of(em):
    return em.get_status()


def _cname(c):
    return f"c{c}"


def run_case(case, company=_cname, rate=1.0):
    (start, nrd, delay, repairable, intermittent, adur, idur, n, events) = case
    em = make_emission(start, nrd, delay, repairable, intermittent, adur, idur, rate=rate)
    comp = make_component([em])
    per_day = []
    for dn in range(simulated_days(n)):
        cur = SIM_START + timedelta(days=dn)
        comp.activate_emissions(cur, 0)
        for ev in events:
            (ed, c, trd) = ev[:3]
            if ed == dn and len(ev) > 3 and ev[3] == 1:
                # detection-only event (site-level sensor): update_detection_records on the
                # detectable (hence active) emissions
                for e_ in comp._active_emissions:
                    e_.update_detection_records(company=company(c), detect_date=cur)
            elif ed == dn:
                # Component.tag_emissions divides by len(active emissions): the real caller only
                # tags components with detected (hence active) emissions
                if comp._active_emissions:
                    comp.tag_emissions(TaggingInfo(2.0, cur, 5, company(c), "1", trd))
        comp.update_emissions_state(EmisInfo(), TsEmisData())
        per_day.append("%s:%d:%d:%d:%d:%d" % (
            em.get_status(), em._active_days, em.get_days_emitting(),
            1 if getattr(em, "_tagged", getattr(em, "_record", False)) else 0,
            getattr(em, "_days_since_tagged", 0), 1 if em.is_emitting() else 0))
    sd = em.get_summary_dict(summary_end_date(n))
    return em, sd, per_day


def fmt_by(x):
    if x is None:
        return "-"
    if x == "expired":
        return "expire"
    return str(x)


class NonIntegerDays(ValueError):
    """a reported volume is not (an integer number of days) x rate x 86.4"""


def summary_line(em, sd, rate=1.0):
    """`rate` is the rate the harness configured (not read back from the object under test)"""
    vol = sd[eca.T_VOL_EMIT]
    mit = sd[eca.MITIGATED]
    emit_days = vol / (rate * 86.4)
    mit_days = mit / (rate * 86.4)
    if not (abs(emit_days - round(emit_days)) < 1e-6 and abs(mit_days - round(mit_days)) < 1e-6):
        raise NonIntegerDays("emitted %r kg, mitigated %r kg at rate %r g/s: %r / %r days" % (vol, mit, rate, emit_days, mit_days))
    tagged = sd[eca.TAGGED] if sd[eca.TAGGED] != "N/A" else sd[eca.RECORDED]
    by = sd[eca.TAGGED_BY] if sd[eca.TAGGED_BY] != "N/A" else sd[eca.RECORDED_BY]
    end = d2i(sd[eca.DATE_REP_EXP])
    return "%s %d %d %d %s %s %d %s %s" % (
        sd[eca.STATUS], sd[eca.DAYS_ACT], round(emit_days), round(mit_days),
        "-" if end is None else end, fmt_by(by), 1 if tagged else 0,
        "-" if sd[eca.INIT_DETECT_DATE] is None else d2i(sd[eca.INIT_DETECT_DATE]),
        fmt_by(sd[eca.INIT_DETECT_BY]))


def ceil_days(x):
    """the least whole number of days that is not less than `x` (exact: delays are dyadic fractions)"""
    import math
    from fractions import Fraction

    return int(math.ceil(Fraction(x)))


def case_line(case):
    (start, nrd, delay, repairable, intermittent, adur, idur, n, events) = case
    # the model works on whole days: a fractional repair delay enters as its ceiling (C04_fractional_delay:
    # an integer day counter reaches delay + reporting delay exactly when it reaches ceil(delay) + reporting delay)
    delay = ceil_days(delay)
    evs = "[" + ",".join("[" + ",".join(str(x) for x in e) + "]" for e in events) + "]"
    return "case %d %d %d %d %d %d %d %d %s" % (
        start, nrd, delay, int(repairable), int(intermittent), adur, idur, n, evs)


def impl_line(case, **kw):
    em, sd, per_day = run_case(case, **kw)
    return summary_line(em, sd, rate=kw.get("rate", 1.0)) + " | " + ";".join(per_day)


def trace_line(case):
    """(summary line, per-day list) of the real classes on a case"""
    em, sd, per_day = run_case(case)
    return summary_line(em, sd), per_day


def safe_impl_line(case, **kw):
    """(line, None) or (None, (kind, message)): an exception of the code under test on a generated case
    is reported by the checks as a disagreement / violation with this case as input, never as a harness
    error"""
    try:
        return impl_line(case, **kw), None
    except NonIntegerDays as e:
        return None, ("non-integer-days", str(e))
    except Exception as e:  # noqa: BLE001
        import traceback

        tb = traceback.extract_tb(e.__traceback__)
        where = "%s:%d" % (os.path.basename(tb[-1].filename), tb[-1].lineno) if tb else "?"
        return None, ("exception", "%s: %s (%s)" % (type(e).__name__, e, where))
    except SystemExit as e:
        return None, ("exception", "SystemExit(%r)" % (e.code,))


# ------------------------------------------------------------------------------------------------
# C04: the real ComponentLevelMethod.survey_site (tagging calls after a survey step) and the real
# Source._get_rep_delay / Source._create_emission (the sampled repair delay)
# ------------------------------------------------------------------------------------------------
RATE_SCALE = 1024  # measured rates of the generated reports are multiples of 1/1024


class _StubSite:
    """records what ComponentLevelMethod.survey_site asks of / does to the site"""

    def __init__(self, prev_date):
        self._latest = prev_date
        self.log = []

    def get_id(self):
        return "site_1"

    def get_latest_tagging_survey_date(self):
        self.log.append(("get",))
        return self._latest

    def set_latest_tagging_survey_date(self, d):
        self.log.append(("set", d))
        self._latest = d

    def tag_emissions_at_component(self, equipment_group, component, tagging_info=None):
        self.log.append(("tag", equipment_group, component, tagging_info))


def run_survey_site(spec):
    """drive the REAL ComponentLevelMethod.survey_site on a prepared report.

    spec = {"complete": bool, "method": int (company index; the method is named "c<idx>"),
            "trd": int, "crew": int, "prev": int, "cur": int (day indices),
            "groups": [[eqg_name, [[component_name, rate_scaled_int], ...]], ...]}
    `Method.survey_site` (the generic survey step, modelled separately under C07/C08) is replaced for
    the duration of the call by a function that returns the prepared SiteSurveyReport."""
    from programs.method import Method
    from programs.component_level_method import ComponentLevelMethod
    from scheduling.schedule_dataclasses import (
        CrewDailyReport, EmissionDetectionReport, EquipmentGroupSurveyReport, SiteSurveyReport)

    cur = SIM_START + timedelta(days=spec["cur"])
    prev = SIM_START + timedelta(days=spec["prev"])
    site = _StubSite(prev)
    report = SiteSurveyReport(site_id="site_1", survey_complete=bool(spec["complete"]),
                              survey_in_progress=not spec["complete"])
    for eqg, dets in spec["groups"]:
        g = EquipmentGroupSurveyReport(site="site_1", equipment_group=eqg, measured_rate=0.0, true_rate=0.0)
        for comp, r in dets:
            g.emissions_detected.append(EmissionDetectionReport(
                site="site_1", equipment_group=eqg, component=comp, measured_rate=r / RATE_SCALE, true_rate=1.0))
        report.equipment_groups_surveyed.append(g)
    meth = ComponentLevelMethod.__new__(ComponentLevelMethod)
    meth._name = "c%d" % spec["method"]
    meth._reporting_delay = spec["trd"]
    meth._emissions_tagged_daily = 0
    crew = CrewDailyReport(crew_id=spec["crew"], day_time_remaining=100)
    sentinel = (report, 17.5, False, True)
    seen = {}

    def fake_super(self, crew, survey_report, site_to_survey, weather, curr_date):
        seen["args"] = (self, crew, survey_report, site_to_survey, curr_date)
        return sentinel

    orig = Method.survey_site
    Method.survey_site = fake_super
    try:
        out = meth.survey_site(crew=crew, survey_report=report, site_to_survey=site, weather=None, curr_date=cur)
    finally:
        Method.survey_site = orig
    calls = []
    for ev in site.log:
        if ev[0] == "tag":
            ti = ev[3]
            calls.append({"eqg": ev[1], "comp": ev[2], "company": ti.company, "trd": ti.report_delay,
                          "day": d2i(ti.curr_date), "t_since": ti.t_since_LDAR, "crew": ti.crew,
                          "rate_scaled": ti.measured_rate * RATE_SCALE})
    return {
        "calls": calls,
        "sets": [d2i(e[1]) for e in site.log if e[0] == "set"],
        "gets": sum(1 for e in site.log if e[0] == "get"),
        "latest_after": d2i(site._latest),
        "tagged_daily": meth._emissions_tagged_daily,
        "returned_super_tuple": tuple(out) == sentinel and out[0] is report,
        "super_called_with_same_objects": seen.get("args", (None,) * 5)[1:] == (crew, report, site, cur),
    }


def survey_comp_index(spec):
    """(eqg, component) -> dense index in first-appearance order (the model works on indices)"""
    idx = {}
    for eqg, dets in spec["groups"]:
        for comp, _ in dets:
            idx.setdefault((eqg, comp), len(idx))
    return idx


def survey_model_line(spec):
    idx = survey_comp_index(spec)
    dets = ",".join("[%d,%d]" % (idx[(eqg, comp)], r) for eqg, ds in spec["groups"] for comp, r in ds)
    return "tagcalls %d %d %d %d %d [%s]" % (int(spec["complete"]), spec["method"], spec["trd"], spec["prev"],
                                             spec["cur"], dets)


def survey_impl_line(spec, out):
    """the implementation's behaviour in the reply format of the driver's `tagcalls` op"""
    idx = survey_comp_index(spec)
    evs = ",".join("[%d,%s,%d]" % (idx.get((c["eqg"], c["comp"]), -1), c["company"][1:] if c["company"].startswith("c") else "?",
                                   c["trd"]) for c in out["calls"])
    t_since = out["calls"][0]["t_since"] if out["calls"] else spec["cur"] - spec["prev"]
    return "[%s] %d %d 1" % (evs, out["latest_after"], t_since)


class _StubRates:
    def get_a_rate(self):
        return 1.0


def run_get_rep_delay(kind, values, seed, column="dcol"):
    """drive the REAL Source._get_rep_delay and Source._create_emission.

    kind "list": `_emis_rep_delay` is the list `values`; "int": the int `values[0]`; "column": the column
    name `column` of a repair-delay dataframe holding `values` (plus an unrelated column);
    "missing-column": a column name the dataframe does not have (the code exits).
    np.random.choice is wrapped for the duration of the call: the wrapper lets the real function draw,
    and re-draws an index over range(len(a)) from the same generator state to record which position was
    taken (the state after the real draw is restored, so the simulator-visible stream is unchanged).
    returns dict(value, index, n, emission_delay, exited)"""
    import numpy as np
    import pandas as pd

    if kind == "list":
        cfg, df = list(values), pd.DataFrame()
    elif kind == "int":
        cfg, df = int(values[0]), pd.DataFrame()
    elif kind == "column":
        cfg, df = column, pd.DataFrame({"other": [99] * len(values), column: list(values)})
    else:
        cfg, df = column, pd.DataFrame({"other": list(values)})
    src = Source._reconstruct("S", True, True, 1, 0, True, {}, "r", 0.01, 30, {}, cfg, 100.0, None,
                              "repairable", {})
    rec = []
    orig_choice = np.random.choice

    def choice(a, *args, **kw):
        st = np.random.get_state()
        val = orig_choice(a, *args, **kw)
        after = np.random.get_state()
        np.random.set_state(st)
        idx = int(orig_choice(len(a)))
        np.random.set_state(after)
        rec.append((idx, len(a), val))
        return val

    import logging

    np.random.seed(seed)
    np.random.choice = choice
    logging.disable(logging.CRITICAL)
    out = {"value": None, "index": None, "n": None, "emission_delay": None, "exited": False}
    try:
        try:
            v = src._get_rep_delay(df)
            out["value"] = int(v) if float(v) == int(v) else float(v)
            if rec:
                out["index"], out["n"] = rec[-1][0], rec[-1][1]
                iv = list(values)[rec[-1][0]]
                out["index_value"] = int(iv) if float(iv) == int(iv) else float(iv)
            # the delay handed to a freshly created emission (same generator state -> same draw)
            np.random.seed(seed)
            em = src._create_emission(0, SIM_START, SIM_START, {"r": _StubRates()}, df)
            ed = em._repair_delay
            out["emission_delay"] = int(ed) if float(ed) == int(ed) else float(ed)
        except SystemExit:
            out["exited"] = True
        except ValueError as e:
            # np.random.choice of an empty collection: the configuration offers no delay at all
            out["exited"] = True
            out["error"] = "%s: %s" % (type(e).__name__, e)
    finally:
        np.random.choice = orig_choice
        logging.disable(logging.NOTSET)
    return out


# ------------------------------------------------------------------------------------------------
# hardening stages (audit/LESSONS.md): same-process history, shared inputs, copies / pickles of the
# real objects, copy-hook table, calendar
# ------------------------------------------------------------------------------------------------
def build_components(world):
    """real Components of a small world (see _emission_common.small_world): [(component, events, specs, objs)]"""
    n, comps = world
    real = []
    for ems, evs in comps:
        objs = [make_emission(st, nrd, dl, rep, inter, ad, idur, rate=r / 1024.0)
                for (st, nrd, dl, rep, inter, ad, idur, r) in ems]
        real.append((make_component(objs), list(evs), ems, objs))
    return real


def component_emissions(comp):
    """every emission object a Component holds, wherever it currently is (pending / cursor / active / inactive)"""
    out = []
    for src in comp._sources:
        for lst in src._generated_emissions.values():
            out += list(lst)
        if src._next_emission is not None:
            out.append(src._next_emission)
    out += list(comp._active_emissions) + list(comp._inactive_emissions)
    seen, uniq = set(), []
    for e in out:
        if id(e) not in seen:
            seen.add(id(e))
            uniq.append(e)
    return uniq


def drive_components(comps_events, n, with_events=True):
    """the day loop of LdarSim.run_simulation over real Components: [(component, events)]"""
    for dn in range(simulated_days(n)):
        cur = SIM_START + timedelta(days=dn)
        for comp, evs in comps_events:
            comp.activate_emissions(cur, 0)
        for comp, evs in comps_events:
            for ev in (evs if with_events else []):
                if ev[0] != dn:
                    continue
                if len(ev) > 3 and ev[3] == 1:
                    for e_ in comp._active_emissions:
                        e_.update_detection_records(company=f"c{ev[1]}", detect_date=cur)
                elif comp._active_emissions:
                    comp.tag_emissions(TaggingInfo(2.0, cur, 5, f"c{ev[1]}", "1", ev[2]))
        info, data = EmisInfo(), TsEmisData()
        for comp, _ in comps_events:
            comp.update_emissions_state(info, data)


def component_summaries(comp, n, rates):
    """summary line of every emission of a driven Component, ordered by (start date, rate) so that copies
    of one component can be compared position by position"""
    ems = sorted(component_emissions(comp), key=lambda e: (e._start_date, e._rate, type(e).__name__))
    out = []
    for em in ems:
        sd = em.get_summary_dict(summary_end_date(n))
        out.append("%s/%s/%d %s" % (type(em).__name__, d2i(em._start_date), round(em._rate * 1024),
                                    summary_line(em, sd, rate=em._rate)))
    return out


COPY_HOOKS = ("__deepcopy__", "__copy__", "__reduce__", "__reduce_ex__", "__getstate__", "__setstate__",
              "__getnewargs__", "__getnewargs_ex__", "__new__")
HOOK_FILES = ["virtual_world/emission_types/emission.py", "virtual_world/emission_types/repairable_emission.py",
              "virtual_world/emission_types/non_repairable_emissions.py",
              "virtual_world/emission_types/intermittency_mixin.py",
              "virtual_world/emission_types/intermittent_repairable_emission.py",
              "virtual_world/emission_types/intermittent_non_repairable_emission.py",
              "virtual_world/component.py", "virtual_world/sources.py"]


def hook_table():
    """(problems, table): copy / pickle hooks, class-level and module-level mutable containers and caching
    decorators of the classes the emission model stands for, read from the source with `ast`.
    table entries: "file:Class.hook", "file:Class.NAME={}" (class-level container), "file:NAME=[]"
    (module level), "file:Class.method@decorator"."""
    table, problems = [], []

    def mutable(v):
        if isinstance(v, (ast.Dict, ast.List, ast.Set, ast.ListComp, ast.DictComp, ast.SetComp)):
            return {"Dict": "{}", "List": "[]", "Set": "set", "ListComp": "[]", "DictComp": "{}", "SetComp": "set"}[type(v).__name__]
        if isinstance(v, ast.Call) and isinstance(v.func, ast.Name) and v.func.id in ("dict", "list", "set", "defaultdict", "OrderedDict", "deque"):
            return v.func.id + "()"
        return None

    def targets(node):
        if isinstance(node, ast.Assign):
            return [t.id for t in node.targets if isinstance(t, ast.Name)], node.value
        if isinstance(node, ast.AnnAssign) and isinstance(node.target, ast.Name) and node.value is not None:
            return [node.target.id], node.value
        return [], None

    for rel in HOOK_FILES:
        path = os.path.join(shim.REPO_SRC, rel)
        try:
            tree = ast.parse(open(path).read())
        except (OSError, SyntaxError) as e:
            problems.append("%s: cannot be read / parsed (%s)" % (rel, e))
            continue
        short = rel.split("/")[-1]
        for node in tree.body:
            names, val = targets(node)
            for nm in names:
                m = mutable(val)
                if m:
                    table.append("%s:%s=%s" % (short, nm, m))
            if isinstance(node, ast.ClassDef):
                for sub in node.body:
                    names, val = targets(sub)
                    for nm in names:
                        m = mutable(val)
                        if m:
                            table.append("%s:%s.%s=%s" % (short, node.name, nm, m))
                    if isinstance(sub, (ast.FunctionDef, ast.AsyncFunctionDef)):
                        if sub.name in COPY_HOOKS:
                            table.append("%s:%s.%s" % (short, node.name, sub.name))
                        for dec in sub.decorator_list:
                            d = ast.unparse(dec)
                            if "cache" in d:
                                table.append("%s:%s.%s@%s" % (short, node.name, sub.name, d))
            if isinstance(node, (ast.FunctionDef, ast.AsyncFunctionDef)):
                for dec in node.decorator_list:
                    if "cache" in ast.unparse(dec):
                        table.append("%s:%s@%s" % (short, node.name, ast.unparse(dec)))
    return problems, sorted(table)


def run_shared_source(spec):
    """several real emissions created by ONE real Source from ONE set of shared inputs.

    spec = {"rep","inter","ad","idur","nrd","delays":[...],"costs":[...],"covs":{name: p},"starts":[...],
            "events":[...],"n","seed"}
    The repair-delay list, the repair-cost list and the two coverage dictionaries are handed to the Source
    once; every emission is created by Source._create_emission (drawing its delay through the recorded
    np.random.choice) and driven alone through a real Component.  returns dict(results=[(drawn delay,
    summary line)], inputs_unchanged=bool, inputs_after=...)"""
    import copy
    import random as _random
    import numpy as np
    import pandas as pd

    delays, costs = list(spec["delays"]), list(spec["costs"])
    spat, temp = dict(spec["covs"]), dict(spec["covs"])
    before = copy.deepcopy((delays, costs, spat, temp))
    src = Source._reconstruct("S", spec["rep"], not spec["inter"], spec["ad"], spec["idur"], True, {}, "r", 0.01,
                              spec["nrd"], spat, delays if spec["rep"] else None, costs if spec["rep"] else None,
                              None, "repairable" if spec["rep"] else "non_repairable", temp)
    rec = []
    orig_choice = np.random.choice

    def choice(a, *args, **kw):
        st = np.random.get_state()
        val = orig_choice(a, *args, **kw)
        after = np.random.get_state()
        np.random.set_state(st)
        idx = int(orig_choice(len(a)))
        np.random.set_state(after)
        rec.append(idx)
        return val

    np.random.seed(spec["seed"])
    _random.seed(spec["seed"])
    np.random.choice = choice
    ems = []
    try:
        for i, st in enumerate(spec["starts"]):
            del rec[:]
            em = src._create_emission(i, SIM_START + timedelta(days=st), SIM_START, {"r": _StubRates()}, pd.DataFrame())
            ems.append((em, delays[rec[-1]] if (spec["rep"] and rec) else 0, st))
    finally:
        np.random.choice = orig_choice
    results = []
    for em, drawn, st in ems:
        comp = make_component([em])
        drive_components([(comp, spec["events"])], spec["n"])
        sd = em.get_summary_dict(summary_end_date(spec["n"]))
        results.append((drawn, st, summary_line(em, sd, rate=1.0)))
    after = (delays, costs, spat, temp)
    return {"results": results, "inputs_unchanged": after == before,
            "inputs_before": before, "inputs_after": copy.deepcopy(after)}
