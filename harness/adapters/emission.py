"""Drive the real emission classes through the real Component / Source day by day.

A case is (start, nrd, delay, repairable, intermittent, activeDur, inactiveDur, N, events) with day
indices relative to the first simulated day; events = [(day, company_idx, reporting_delay)].
The real objects used: emission_types.* (constructed by the real Source._create_emission when
`via_source`), Source.activate_emissions (pending list + cursor), Component.activate_emissions /
tag_emissions / update_emissions_state, Emission.get_summary_dict.  The end date handed to
get_summary_dict is the expression LdarSim.run_simulation itself uses (read from ldar_sim.py).
"""
from __future__ import annotations

import ast
import os
from datetime import date, timedelta

from harness import shim

shim.install()

from virtual_world.component import Component  # noqa: E402
from virtual_world.sources import Source  # noqa: E402
from virtual_world import emission_types  # noqa: E402
from file_processing.output_processing.output_utils import EmisInfo, TsEmisData  # noqa: E402
from scheduling.schedule_dataclasses import TaggingInfo  # noqa: E402
from constants.output_file_constants import EMIS_DATA_COL_ACCESSORS as eca  # noqa: E402

SIM_START = date(2021, 3, 1)


def d2i(d):
    return None if d is None else (d - SIM_START).days


_END_ARG_EXPR = None


def summary_end_arg_expr():
    """the second argument of `self._infrastructure.gen_summary_emis_data(...)` in ldar_sim.py"""
    global _END_ARG_EXPR
    if _END_ARG_EXPR is None:
        src = open(os.path.join(shim.REPO_SRC, "ldar_sim.py")).read()
        tree = ast.parse(src)
        found = None
        for node in ast.walk(tree):
            if isinstance(node, ast.Call) and isinstance(node.func, ast.Attribute) \
                    and node.func.attr == "gen_summary_emis_data":
                found = ast.unparse(node.args[1])
        if found is None:
            raise RuntimeError("ldar_sim.py: call of gen_summary_emis_data not found")
        _END_ARG_EXPR = found
    return _END_ARG_EXPR


class _TC:
    def __init__(self, n):
        self._start_date = SIM_START
        self._end_date = SIM_START + timedelta(days=n - 1)
        # value of the counter after the day loop has finished
        self.current_date = SIM_START + timedelta(days=n)


class _Self:
    def __init__(self, n):
        self._tc = _TC(n)


def summary_end_date(n):
    return eval(summary_end_arg_expr(), {}, {"self": _Self(n)})


def make_emission(start, nrd, delay, repairable, intermittent, adur, idur, rate=1.0, cost=100.0):
    sd = SIM_START + timedelta(days=start)
    if repairable and not intermittent:
        return emission_types.RepairableEmission(1, rate, sd, SIM_START, True, {}, {}, delay, cost, nrd)
    if repairable and intermittent:
        return emission_types.IntermittentRepairableEmission(
            1, rate, sd, SIM_START, True, {}, {}, delay, cost, nrd, adur, idur)
    if not repairable and not intermittent:
        return emission_types.NonRepairableEmission(1, rate, sd, SIM_START, False, {}, {}, nrd)
    return emission_types.IntermittentNonRepairableEmission(
        1, rate, sd, SIM_START, False, {}, {}, nrd, adur, idur)


def make_component(emissions):
    """a real Component holding one real Source whose pending list is `emissions`
    (pending lists are kept reversed: pop() yields the earliest)"""
    pend = sorted(emissions, key=lambda e: e._start_date, reverse=True)
    src = Source._reconstruct("S", True, True, 1, 0, True, {0: pend}, None, None, None, None, None,
                              None, None, "repairable")
    return Component._reconstruct("comp", "comp_1", [src], [], [], {})


def status_of(em):
    return em.get_status()


def run_case(case):
    (start, nrd, delay, repairable, intermittent, adur, idur, n, events) = case
    em = make_emission(start, nrd, delay, repairable, intermittent, adur, idur)
    comp = make_component([em])
    per_day = []
    for dn in range(n):
        cur = SIM_START + timedelta(days=dn)
        comp.activate_emissions(cur, 0)
        for ev in events:
            (ed, c, trd) = ev[:3]
            if ed == dn and len(ev) > 3 and ev[3] == 1:
                # detection-only event (site-level sensor): update_detection_records on the
                # detectable (hence active) emissions
                for e_ in comp._active_emissions:
                    e_.update_detection_records(company=f"c{c}", detect_date=cur)
            elif ed == dn:
                # Component.tag_emissions divides by len(active emissions): the real caller only
                # tags components with detected (hence active) emissions
                if comp._active_emissions:
                    comp.tag_emissions(TaggingInfo(2.0, cur, 5, f"c{c}", "1", trd))
        comp.update_emissions_state(EmisInfo(), TsEmisData())
        per_day.append("%s:%d:%d:%d:%d:%d" % (
            em.get_status(), em._active_days, em.get_days_emitting(),
            1 if getattr(em, "_tagged", getattr(em, "_record", False)) else 0,
            getattr(em, "_days_since_tagged", 0), 1 if em.is_emitting() else 0))
    sd = em.get_summary_dict(summary_end_date(n))
    return em, sd, per_day


def fmt_by(x):
    if x is None:
        return "-"
    if x == "expired":
        return "expire"
    return str(x)


def summary_line(em, sd):
    rate = em._rate
    vol = sd[eca.T_VOL_EMIT]
    mit = sd[eca.MITIGATED]
    emit_days = vol / (rate * 86.4)
    mit_days = mit / (rate * 86.4)
    assert abs(emit_days - round(emit_days)) < 1e-6 and abs(mit_days - round(mit_days)) < 1e-6
    tagged = sd[eca.TAGGED] if sd[eca.TAGGED] != "N/A" else sd[eca.RECORDED]
    by = sd[eca.TAGGED_BY] if sd[eca.TAGGED_BY] != "N/A" else sd[eca.RECORDED_BY]
    end = d2i(sd[eca.DATE_REP_EXP])
    return "%s %d %d %d %s %s %d %s %s" % (
        sd[eca.STATUS], sd[eca.DAYS_ACT], round(emit_days), round(mit_days),
        "-" if end is None else end, fmt_by(by), 1 if tagged else 0,
        "-" if sd[eca.INIT_DETECT_DATE] is None else d2i(sd[eca.INIT_DETECT_DATE]),
        fmt_by(sd[eca.INIT_DETECT_BY]))


def case_line(case):
    (start, nrd, delay, repairable, intermittent, adur, idur, n, events) = case
    evs = "[" + ",".join("[" + ",".join(str(x) for x in e) + "]" for e in events) + "]"
    return "case %d %d %d %d %d %d %d %d %s" % (
        start, nrd, delay, int(repairable), int(intermittent), adur, idur, n, evs)


def impl_line(case):
    em, sd, per_day = run_case(case)
    return summary_line(em, sd) + " | " + ";".join(per_day)
