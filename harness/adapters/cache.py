"""Drive the REAL generator-folder cache (gen_seed_emis -> initialize_infrastructure ->
initialize_emissions, read_in_emissions) on a temporary input folder, over a history of
input edits / runs / interrupted runs / user deletions, and abstract the folder after every step.

Inputs are versioned: `content(input, v)` is a deterministic function of the version number, chosen
so that every version of every input is visible both in the generated infrastructure and in the
generated emission scenarios (checked by `self_check`).  A scenario is identified by a digest of the
canonical form of the unpickled object (all identity fields of every emission: site, equipment,
component, source, number, rate, start date, repair delay/cost, duration, coverage probabilities).
`Ref` generates, outside any cache, the infrastructure / scenario that a given version vector and
seed must produce; digests are decoded to version vectors by lookup among the version vectors the
history has visited.

Interruption: the names `open`, `os`, `pickle` of the three initialisation modules are replaced by
counting wrappers (the modules themselves are not edited).  File effect number k = k-th call of
open(..., "w*") or os.remove/unlink in a run.  crash(k): the k-th effect raises before it happens;
tear(k): the k-th effect is an open that succeeds (truncates) and its pickle.dump raises.
"""
from __future__ import annotations

import contextlib
import copy
import hashlib
import io
import os
import pickle
import shutil
import tempfile
from datetime import date, timedelta
from pathlib import Path

from harness import shim

shim.install()

import numpy as np  # noqa: E402
import pandas as pd  # noqa: E402

import constants.param_default_const as pc  # noqa: E402
from constants.file_name_constants import Generator_Files  # noqa: E402
from file_processing.input_processing.input_manager import InputManager  # noqa: E402
import initialization.initialize_emissions as IE  # noqa: E402
import initialization.initialize_infrastructure as II  # noqa: E402
import initialization.preseed as PS  # noqa: E402
from virtual_world.infrastructure import Infrastructure  # noqa: E402
from simulation.simulation_manager import SimulationManager  # noqa: E402

from harness.adapters.cache_extract import period_of, PERIODS  # noqa: E402

INPUTS = ["site", "siteType", "equip", "source", "emisRate", "repairDelay", "vw", "prog"]
FILE_INPUTS = {"site": "site.csv", "siteType": "site_type.csv", "equip": "equipment.csv",
               "source": "sources.csv", "emisRate": "emissions.csv", "repairDelay": "repair_delays.csv"}
GEN_FILES = {"seeds": Generator_Files.EMISSION_PRESEED_FILE, "hashes": Generator_Files.HASH_FILE,
             "infra": Generator_Files.INFRA_FILE, "count": Generator_Files.N_SIM_SAVE_FILE,
             "ts": Generator_Files.PRESEED_FILE}
NP_SEED = 20240917
MAX_VERSION = {inp: 7 for inp in INPUTS}
MAX_VERSION["vw"] = 4 * len(PERIODS) - 1          # v // 4 selects the period
BASE_DAY = date(2021, 1, 1)
# two configuration shapes: all six input files configured / only the sites and the emission-rate file
# (site-type, equipment, sources and repair-delay file names are None: the `... is not None else None`
# branches of the hashing code); the coarse shape also uses file names that are prefixes of each other
SHAPES = {
    "granular": {"files": FILE_INPUTS, "inputs": os.path.join(shim.REPO_SIM, "inputs", "granular_infrastructure"),
                 "params": os.path.join(shim.REPO_SIM, "simulations", "granular_infrastructure")},
    "coarse": {"files": {"site": "s.csv", "emisRate": "s.csv.e.csv"},
               "inputs": os.path.join(shim.REPO_SIM, "inputs", "simple_test_case_1"),
               "params": os.path.join(shim.REPO_SIM, "simulations", "simple_test_case1")},
}


class Crash(BaseException):
    """injected interruption (BaseException: no `except Exception` of the code under test eats it)"""


# ------------------------------------------------------------------------------------------------
# versioned inputs
# ------------------------------------------------------------------------------------------------
_SITE_TYPE_EQUIP = ["equip1;", "equip1;equip2;", "equip2;", "equip2;equip3;", "equip3;", "equip1;equip3;",
                    "equip3;equip1;equip2;", "equip2;equip1;"]


def file_content(inp, v, shape="granular"):
    if inp == "site" and shape == "coarse":
        return f"site_ID,equipment,lat,lon,site_type\n{1 + 10 * v},1,32.367,-101.8009,999\n"
    if inp == "site":
        return ("site_ID,lat,lon,site_type\n"
                f"{1 + 10 * v},55.05,-119.99,site_type1\n")
    if inp == "siteType":
        return f"site_type,equipment\nsite_type1,{_SITE_TYPE_EQUIP[v]}\n"
    if inp == "equip":
        return f"equipment,comp1,comp2\nequip1,{1 + v},1\nequip2,1,{1 + v}\nequip3,{2 + v},0\n"
    if inp == "source":
        # no duration / multiple_emissions columns: the virtual-world values apply (they are varied, see SHAPE)
        return ("component,source,emissions_production_rate,emissions_rate_source,repairable\n"
                f"comp1,test1,{0.2 + v / 10},test1,TRUE\n"
                f"comp2,test2,{0.2 + v / 10},test2,FALSE\n")
    if inp == "emisRate":
        return ("test1,test2\nsample,sample\nlognorm,lognorm\n100000,100000\ngram,gram\nsecond,second\n"
                f"{1 + v},{2 + v}\n{1.5 + v},{2.5 + v}\n")
    if inp == "repairDelay":
        return f"d\n{3 + v}\n{5 + v}\n"
    raise KeyError(inp)


_BASE = {}


def base_params(shape="granular"):
    """virtual-world / program dictionaries as the real InputManager produces them from the
    repository's granular_infrastructure (or simple_test_case1) simulation, reduced to one site and, in
    the granular shape, pointed at a repair-delay file; the period is set by dict_version"""
    if shape not in _BASE:
        files = sorted(Path(SHAPES[shape]["params"]).iterdir())
        with contextlib.redirect_stdout(io.StringIO()):
            params = InputManager().read_and_validate_parameters(files)
        programs = params.pop(pc.Levels.PROGRAM)
        vw = params.pop(pc.Levels.VIRTUAL)
        vw[pc.Virtual_World_Params.N_SITES] = 1
        V = pc.Virtual_World_Params
        if shape == "granular":
            vw[V.REPAIR][V.REPAIR_DELAY][pc.Common_Params.FILE] = FILE_INPUTS["repairDelay"]
            vw[V.REPAIR][V.REPAIR_DELAY][pc.Common_Params.VAL] = "d"
        else:
            vw[V.INFRA][V.SITE] = SHAPES[shape]["files"]["site"]
            vw[V.EMIS][V.EMIS_FILE] = SHAPES[shape]["files"]["emisRate"]
            vw[V.EMIS][V.REPAIRABLE][V.PR] = 0.25
        _BASE[shape] = (vw, programs)
    return copy.deepcopy(_BASE[shape][0]), copy.deepcopy(_BASE[shape][1])


def dict_version(vw, programs, inp, v):
    if inp == "vw":
        # content number v: repair cost 200 + v, simulated period period_of(v) (see cache_extract.PERIODS), and
        # v % 4 selects the values of the leaves that shape a scenario: 0 defaults, 1 pre-simulation emissions
        # off, 2 one emission per source at a time (both kinds), 3 short durations (both kinds)
        vw[pc.Virtual_World_Params.REPAIR][pc.Virtual_World_Params.REPAIR_COST][pc.Common_Params.VAL] = [200.0 + v]
        V = pc.Virtual_World_Params
        sh = v % 4
        vw[V.EMIS][V.PRE_SIM_EMIS] = sh != 1
        for kind, dur in ((V.REPAIRABLE, 60), (V.NON_REPAIRABLE, 40)):
            vw[V.EMIS][kind][V.MULTI_EMIS] = sh != 2
            vw[V.EMIS][kind][V.DURATION] = (5 if kind == V.REPAIRABLE else 7) if sh == 3 else dur
        off, days = period_of(v)
        a = BASE_DAY + timedelta(days=off)
        b = a + timedelta(days=days - 1)
        vw[pc.Virtual_World_Params.START_DATE] = [a.year, a.month, a.day]
        vw[pc.Virtual_World_Params.END_DATE] = [b.year, b.month, b.day]
    elif inp == "prog":
        prog = sorted(p for p in programs if programs[p][pc.Program_Params.METHODS])[0]
        meth = programs[prog][pc.Program_Params.METHODS][0]
        programs[prog][pc.Levels.METHOD][meth]["coverage"]["spatial"] = 1.0 - v / 16.0
    else:
        raise KeyError(inp)


def methods_of(programs):
    return {m: programs[p][pc.Levels.METHOD][m] for p in programs for m in programs[p][pc.Program_Params.METHODS]}


class Inputs:
    """an input folder + parameter dictionaries at a version vector"""

    def __init__(self, root, shape="granular"):
        self.shape = shape
        self.files = SHAPES[shape]["files"]
        self.in_dir = Path(root)
        if self.in_dir.exists():
            shutil.rmtree(self.in_dir)
        shutil.copytree(SHAPES[shape]["inputs"], self.in_dir)
        self.vw, self.programs = base_params(shape)
        self.vv = [0] * len(INPUTS)          # inputs that do not exist in this shape stay at 0
        for i in range(len(INPUTS)):
            if self.has(i):
                self.set(i, 0)

    def has(self, k):
        return INPUTS[k] in self.files or INPUTS[k] in ("vw", "prog")

    def set(self, k, v):
        inp = INPUTS[k]
        if not 0 <= v <= MAX_VERSION[inp] or not self.has(k):
            raise ValueError("version out of range / input not in this shape")
        if inp in self.files:
            with open(self.in_dir / self.files[inp], "w") as fh:
                fh.write(file_content(inp, v, self.shape))
        else:
            dict_version(self.vw, self.programs, inp, v)
        self.vv[k] = v

    def set_all(self, vv):
        for k, v in enumerate(vv):
            if self.vv[k] != v:
                self.set(k, v)

    @property
    def start(self):
        return date(*self.vw[pc.Virtual_World_Params.START_DATE])

    @property
    def end(self):
        return date(*self.vw[pc.Virtual_World_Params.END_DATE])

    def scenario_rules(self):
        return rules_from_vw(self.vw, source_level=False)

    @property
    def pre_sim(self):
        return self.vw[pc.Virtual_World_Params.EMIS][pc.Virtual_World_Params.PRE_SIM_EMIS]


# ------------------------------------------------------------------------------------------------
# canonical digests
# ------------------------------------------------------------------------------------------------
# state an infrastructure accumulates while emissions are generated / loaded (not part of its identity)
INFRA_TRANSIENT = ("_generated_emissions", "_next_emission")


def canon(o, depth=0, drop=()):
    if depth > 60:
        raise RuntimeError("canon: too deep")
    if o is None or isinstance(o, (bool, int, str)):
        return o
    if isinstance(o, float):
        return repr(o)
    if isinstance(o, np.integer):
        return int(o)
    if isinstance(o, np.floating):
        return repr(float(o))
    if isinstance(o, date):
        return o.isoformat()
    if isinstance(o, (list, tuple)):
        return [canon(x, depth + 1, drop) for x in o]
    if isinstance(o, dict):
        return sorted(([repr(canon(k, depth + 1, drop)), canon(v, depth + 1, drop)] for k, v in o.items()
                       if not (isinstance(k, str) and k in drop)), key=lambda kv: kv[0])
    if isinstance(o, np.ndarray):
        return canon(o.tolist(), depth + 1, drop)
    if isinstance(o, pd.DataFrame):
        return ["DF", [str(c) for c in o.columns], canon(o.values.tolist(), depth + 1, drop)]
    if isinstance(o, pd.Series):
        return ["S", canon(o.to_dict(), depth + 1, drop)]
    if isinstance(o, (np.random.RandomState, np.random.Generator)):
        return "rng"
    if hasattr(o, "__dict__"):
        return [type(o).__name__, canon(vars(o), depth + 1, drop)]
    return ["opaque", type(o).__name__]


def digest(o, drop=()):
    return hashlib.sha1(repr(canon(o, 0, drop)).encode()).hexdigest()[:16]


def infra_digest(infra):
    """digest of what a pickled infrastructure keeps (fresh and reloaded objects compare equal),
    without the emissions it has generated / been handed so far"""
    if isinstance(infra, dict) and len(infra) == 1:
        infra = next(iter(infra.values()))
    return digest(pickle.loads(pickle.dumps(infra)), INFRA_TRANSIENT)


# ------------------------------------------------------------------------------------------------
# reference generation (no cache involved)
# ------------------------------------------------------------------------------------------------
class Ref:
    """what the inputs at version vector vv must produce, generated outside any cache and without
    any pickling: infrastructure = Infrastructure(...) under seed s0; scenario i = that fresh
    infrastructure's generate_emissions(sim_number=i) under seed si"""

    def __init__(self, root, shape="granular"):
        self.inputs = Inputs(os.path.join(root, "ref_in"), shape)
        self.roundtrip_differs = []   # (vv, s0) whose fresh infrastructure != its pickle round trip
        self._infra = {}     # (vv, s0) -> digest
        self._emis = {}      # (vv, s0, si, i) -> digest
        self.generated = 0

    def _fresh(self, vv, s0):
        self.inputs.set_all(vv)
        np.random.seed(s0)
        with contextlib.redirect_stdout(io.StringIO()):
            inf = Infrastructure(virtual_world=self.inputs.vw, methods=methods_of(self.inputs.programs),
                                 in_dir=self.inputs.in_dir)
        self.generated += 1
        key = (tuple(vv), s0)
        if key not in self._infra:
            self._infra[key] = infra_digest(inf)
            # pickling round trip of what is stored in the folder: nothing but the declared transients lost
            if digest(inf, INFRA_TRANSIENT) != self._infra[key]:
                self.roundtrip_differs.append((tuple(vv), s0))
        return inf

    def infra_digest(self, vv, s0):
        key = (tuple(vv), s0)
        if key not in self._infra:
            self._fresh(vv, s0)
        return self._infra[key]

    def emis_digest(self, vv, s0, si, i):
        key = (tuple(vv), s0, si, i)
        if key not in self._emis:
            inf = self._fresh(vv, s0)
            np.random.seed(si)
            with contextlib.redirect_stdout(io.StringIO()):
                e = inf.generate_emissions(sim_start_date=self.inputs.start, sim_end_date=self.inputs.end,
                                           sim_number=i, pre_simulation_emissions=self.inputs.pre_sim)
            self._emis[key] = digest(e)
        return self._emis[key]


# ------------------------------------------------------------------------------------------------
# instrumentation of the three modules
# ------------------------------------------------------------------------------------------------
class _Instr:
    def __init__(self):
        self.active = False
        self.reset()

    def reset(self, crash_at=None, tear=False):
        self.effects = []        # labels of performed effects
        self.n = 0               # effects started
        self.crash_at = crash_at
        self.tear = tear
        self.pending = None      # file id of the open-for-write waiting for its dump
        self.tear_pending = False
        self.written = []        # file ids written completely, in order


INSTR = _Instr()


def file_id(path):
    name = os.path.basename(str(path))
    for fid, fname in GEN_FILES.items():
        if name == fname:
            return fid
    pre, post = Generator_Files.GEN_INFRA_EMISS.split("{i}")
    if name.startswith(pre) and name.endswith(post):
        mid = name[len(pre):len(name) - len(post)]
        if mid.isdigit():
            return f"emis{int(mid)}"
    return None


def _label(fid, obj):
    if fid == "seeds":
        return f"S{len(obj)}"
    if fid == "count":
        return f"C{obj}"
    if fid == "hashes":
        return "H"
    if fid == "infra":
        return "I"
    if fid == "ts":
        return "T" + show_period(obj)
    return "E" + fid[4:]


def show_period(series):
    """a daily seed series -> '<first day as offset from BASE_DAY>.<days>' ('?' unless contiguous)"""
    try:
        days = sorted(series)
        if days and all((b - a).days == 1 for a, b in zip(days, days[1:])):
            return f"{(days[0] - BASE_DAY).days}.{len(days)}"
    except Exception:
        pass
    return "?"


def _w_open(file, mode="r", *a, **k):
    if INSTR.active and ("w" in mode or "a" in mode or "+" in mode):
        fid = file_id(file)
        if fid is not None:
            idx = INSTR.n
            INSTR.n += 1
            if INSTR.crash_at == idx:
                if not INSTR.tear:
                    raise Crash(f"before effect {idx} (write {fid})")
                INSTR.tear_pending = True
            INSTR.pending = fid
    return open(file, mode, *a, **k)


class _PickleProxy:
    def __getattr__(self, name):
        return getattr(pickle, name)

    @staticmethod
    def dump(obj, f, *a, **k):
        if INSTR.active and INSTR.pending is not None:
            fid, INSTR.pending = INSTR.pending, None
            if INSTR.tear_pending:
                INSTR.tear_pending = False
                INSTR.effects.append("~" + _label(fid, obj))
                raise Crash(f"inside the dump of {fid}")
            pickle.dump(obj, f, *a, **k)
            INSTR.effects.append(_label(fid, obj))
            INSTR.written.append(fid)
            return None
        return pickle.dump(obj, f, *a, **k)


class _OsProxy:
    def __getattr__(self, name):
        return getattr(os, name)

    @staticmethod
    def _rm(real, path):
        if INSTR.active:
            fid = file_id(path)
            if fid is not None:
                idx = INSTR.n
                INSTR.n += 1
                if INSTR.crash_at == idx:
                    raise Crash(f"before effect {idx} (remove {fid})")
                real(path)
                INSTR.effects.append(f"rm:{fid}")
                return None
        return real(path)

    def remove(self, path):
        return self._rm(os.remove, path)

    def unlink(self, path):
        return self._rm(os.unlink, path)


# ------------------------------------------------------------------------------------------------
# the stream of fresh random draws the emission preseeds come from
# ------------------------------------------------------------------------------------------------
# gen_seed_emis draws its preseeds with np.random.randint(0, 255) from the process-wide generator; in real
# use every run is a new process with fresh entropy.  The harness supplies that entropy as an INPUT
# stream: the k-th draw gen_seed_emis makes in run g of a folder's history returns PERM[position], a
# value no earlier draw of that history returned (so two preseeds coincide only if the code replays a
# draw), and is recorded under the name (g, k) - the `Draw` of the Lean model.  Other randint calls
# (daily seed series) and every other use of numpy pass through untouched.
PERM = list(np.random.RandomState(NP_SEED).permutation(255))


class _Stream:
    world = None      # object with .pos, .gid_now, .k_now, .draw_names


STREAM = _Stream()


class _NpRandomProxy:
    def __getattr__(self, name):
        return getattr(np.random, name)

    @staticmethod
    def randint(*a, **k):
        import sys as _sys
        w = STREAM.world
        if w is not None and _sys._getframe(1).f_code.co_name == "gen_seed_emis":
            v = int(PERM[w.pos % len(PERM)])
            w.draw_names[v] = (w.gid_now, w.k_now)
            w.pos += 1
            w.k_now += 1
            return v
        return np.random.randint(*a, **k)


class _NpProxy:
    random = _NpRandomProxy()

    def __getattr__(self, name):
        return getattr(np, name)


def show_draws(seeds, names):
    """stored preseeds -> '<run.k;run.k>' (names of the draws that produced them; ?v = not a recorded draw)"""
    return "<" + ";".join("%d.%d" % names[int(v)] if int(v) in names else f"?{v}" for v in seeds) + ">"


def install_instrumentation():
    PS.np = _NpProxy()
    for mod in (II, IE, PS):
        mod.open = _w_open
        if hasattr(mod, "pickle"):
            mod.pickle = _PickleProxy()
        if hasattr(mod, "os"):
            mod.os = _OsProxy()


install_instrumentation()


# ------------------------------------------------------------------------------------------------
# the world under test
# ------------------------------------------------------------------------------------------------
def _load(path):
    """('absent'|'torn'|'ok', object)"""
    if not os.path.isfile(path):
        return "absent", None
    try:
        with open(path, "rb") as fh:
            return "ok", pickle.load(fh)
    except Exception:
        return "torn", None


class Ambiguous(list):
    """several version vectors give this very object (the correspondence accepts any of them)"""


class World:
    def __init__(self, root, ref):
        self.root = root
        self.inputs = Inputs(os.path.join(root, "in"), ref.inputs.shape)
        self.gen = self.inputs.in_dir / Generator_Files.GENERATOR_FOLDER
        self.ref = ref
        self.gid = 0
        self.meta = {}                       # file id -> generation id (run number) it came from
        self.visited = {tuple(self.inputs.vv)}
        self.seed_at = {}                    # index -> seed values seen at that index
        self.pos = 0                         # draws made so far from the preseed stream
        self.draw_names = {}                 # value -> (run, k) of the draw that returned it
        self.gid_now = self.k_now = 0
        self._dcache = {}                    # sha1(file bytes) -> digest of unpickled object
        self.hash_rev = None

    # -- snapshots (prefix sharing) ---------------------------------------------------------------
    def snapshot(self, dst):
        """the generator folder is copied; input files are a function of the version vector"""
        if os.path.exists(dst):
            shutil.rmtree(dst)
        has_gen = os.path.isdir(self.gen)
        if has_gen:
            shutil.copytree(self.gen, dst)
        return {"dir": dst, "has_gen": has_gen, "vv": list(self.inputs.vv), "gid": self.gid, "meta": dict(self.meta),
                "pos": self.pos, "draw_names": dict(self.draw_names),
                "visited": set(self.visited), "seed_at": {k: set(v) for k, v in self.seed_at.items()}}

    def restore(self, snap):
        if os.path.isdir(self.gen):
            shutil.rmtree(self.gen)
        if snap["has_gen"]:
            shutil.copytree(snap["dir"], self.gen)
        self.inputs.vw, self.inputs.programs = base_params(self.inputs.shape)
        for k, v in enumerate(snap["vv"]):
            if INPUTS[k] in ("vw", "prog"):
                dict_version(self.inputs.vw, self.inputs.programs, INPUTS[k], v)
                self.inputs.vv[k] = v
            elif self.inputs.has(k) and self.inputs.vv[k] != v:
                self.inputs.set(k, v)
        self.gid = snap["gid"]
        self.pos = snap["pos"]
        self.draw_names = dict(snap["draw_names"])
        self.meta = dict(snap["meta"])
        self.visited = set(snap["visited"])
        self.seed_at = {k: set(v) for k, v in snap["seed_at"].items()}

    # -- operations -----------------------------------------------------------------------------
    def edit(self, k, v):
        self.inputs.set(k, v)
        self.visited.add(tuple(self.inputs.vv))

    def delete(self, fid):
        p = self.gen / GEN_FILES[fid]
        if os.path.isfile(p):
            os.remove(p)
        self.meta.pop(fid, None)

    def emis_path(self, i):
        return self.gen / Generator_Files.GEN_INFRA_EMISS.format(i=i)

    def delete_emis(self, i):
        if os.path.isfile(self.emis_path(i)):
            os.remove(self.emis_path(i))
        self.meta.pop(f"emis{i}", None)

    def _manager(self, n, preseed=True):
        """a SimulationManager shell holding exactly the attributes its three set-up methods read"""
        inp = self.inputs
        m = SimulationManager.__new__(SimulationManager)
        m.generator_dir = self.gen
        m.preseed_random = preseed
        m.simulation_count = n
        m.programs = inp.programs
        m.methods = methods_of(inp.programs)
        m.virtual_world = inp.vw
        m.in_dir = inp.in_dir
        m.emis_preseed_val = None            # as SimulationManager.setup_properties leaves them
        m.force_remake_gen = False
        m.infrastructure = None
        m.hash_file_exists = False
        m.seed_timeseries = None
        m.sim_start_date = inp.start
        m.sim_end_date = inp.end
        m.pre_simulation_emissions = inp.pre_sim
        return m

    def run(self, n, crash_at=None, tear=False, via_manager=True, preseed=True, entropy=0):
        """one run of the real initialisation; returns the record of what happened.  via_manager: the
        REAL SimulationManager.check_generator_files -> setup_infrastructure -> setup_emissions pass
        the arguments (simulation_manager.py); otherwise the three functions are called directly."""
        my_gid = self.gid
        self.gid += 1
        dicts_before = copy.deepcopy((self.inputs.vw, self.inputs.programs))
        folder_before = self.folder_state()
        INSTR.reset(crash_at, tear)
        INSTR.active = True
        np.random.seed(NP_SEED + entropy)
        STREAM.world, self.gid_now, self.k_now = self, my_gid, 0
        emis_sha_before = self.emis_sha()
        outcome, err, infra, series = "done", None, None, None
        inp = self.inputs
        try:
            with contextlib.redirect_stdout(io.StringIO()), contextlib.redirect_stderr(io.StringIO()):
                if via_manager:
                    m = self._manager(n, preseed)
                    m.check_generator_files()
                    m.setup_infrastructure()
                    m.setup_emissions()
                    infra, series = m.infrastructure, m.seed_timeseries
                else:
                    seeds, force = PS.gen_seed_emis(n, self.gen)
                    infra, hfe = II.initialize_infrastructure(
                        methods_of(inp.programs), inp.programs, inp.vw, self.gen, inp.in_dir, True, seeds, force)
                    series = IE.initialize_emissions(n, True, seeds, hfe, infra, inp.start, inp.end, self.gen,
                                                     pre_simulation_emissions=inp.pre_sim)
        except Crash:
            outcome = "crash"
        except (Exception, SystemExit) as e:       # loud failure of the code under test
            outcome, err = "fail", f"{type(e).__name__}: {e}"[:200]
        finally:
            INSTR.active = False
            STREAM.world = None
        # provenance of what was written
        infra_before = self.meta.get("infra")
        cur_mem = infra_before
        for fid in INSTR.written:
            if fid == "infra":
                self.meta["infra"] = my_gid
                cur_mem = my_gid
            elif fid.startswith("emis"):
                self.meta[fid] = cur_mem
            else:
                self.meta[fid] = my_gid
        mem = None
        if outcome == "done":
            mem = (infra_digest(infra), cur_mem)
        self._note_seeds()
        covers = None
        if outcome == "done" and series is not None:
            d0, d1 = inp.start, inp.end
            covers = all((d0 + timedelta(days=j)) in series for j in range((d1 - d0).days + 1))
        folder_after = self.folder_state()
        emis_sha_after = self.emis_sha()
        changed = sorted(f for f in set(folder_before) | set(folder_after) if folder_before.get(f) != folder_after.get(f))
        return {"outcome": outcome, "effects": list(INSTR.effects), "mem": mem, "error": err, "infra_obj": infra,
                "n": n, "series_covers_period": covers, "via_manager": via_manager,
                # observed independently of the instrumentation: which files of the generator folder differ
                # (size / mtime / bytes), and whether the run changed the parameter dictionaries it was handed
                "changed_files": changed,
                "emis_bytes_changed": sorted(f for f, h in emis_sha_before.items() if emis_sha_after.get(f) != h),
                "draws": self.k_now,
                "dicts_mutated": (self.inputs.vw, self.inputs.programs) != dicts_before}

    def emis_sha(self):
        out = {}
        if os.path.isdir(self.gen):
            for name in os.listdir(self.gen):
                fid = file_id(self.gen / name)
                if fid and fid.startswith("emis"):
                    with open(self.gen / name, "rb") as fh:
                        out[fid] = hashlib.sha1(fh.read()).hexdigest()
        return out

    def implied(self, i):
        """violations of what the current configuration implies, read off the stored scenario i"""
        st, obj = _load(self.emis_path(i))
        if st != "ok":
            return []
        rules = self.inputs.scenario_rules()
        with open(self.emis_path(i), "rb") as fh:
            key = ("implied", hashlib.sha1(fh.read()).hexdigest(), repr(sorted(rules.items(), key=str)))
        if key not in self._dcache:
            self._dcache[key] = implied_violations(obj, rules)
        return self._dcache[key]

    def body_digest(self, i):
        """digest of the emission list of scenario i without its simulation-number key"""
        st, obj = _load(self.emis_path(i))
        if st != "ok":
            return None
        with open(self.emis_path(i), "rb") as fh:
            key = ("body", hashlib.sha1(fh.read()).hexdigest())
        if key not in self._dcache:
            self._dcache[key] = digest(list(obj.values())[0] if isinstance(obj, dict) and len(obj) == 1 else obj)
        return self._dcache[key]

    def folder_state(self):
        out = {}
        if os.path.isdir(self.gen):
            for name in os.listdir(self.gen):
                pth = self.gen / name
                st = os.stat(pth)
                out[file_id(pth) or name] = (st.st_size, st.st_mtime_ns, st.st_ino)
        return out

    def _note_seeds(self):
        st, sd = _load(self.gen / GEN_FILES["seeds"])
        if st == "ok":
            for i, x in enumerate(sd):
                self.seed_at.setdefault(i, set()).add(int(x))

    # -- observation ------------------------------------------------------------------------------
    def _digest_file(self, path, kind):
        st, obj = _load(path)
        if st != "ok":
            return st, None
        with open(path, "rb") as fh:
            key = (kind, hashlib.sha1(fh.read()).hexdigest())
        if key not in self._dcache:
            self._dcache[key] = infra_digest(obj) if kind == "infra" else digest(obj)
        return "ok", self._dcache[key]

    def seeds_list(self):
        st, obj = _load(self.gen / GEN_FILES["seeds"])
        return obj if st == "ok" else None

    def decode_infra(self, dg):
        """digest of an infrastructure -> version vector (among the visited ones) or None"""
        hits = {vv for vv in sorted(self.visited) for s0 in sorted(self.seed_at.get(0, ()))
                if self.ref.infra_digest(vv, s0) == dg}
        return sorted(hits)[0] if len(hits) == 1 else None

    def decode_emis(self, dg, i):
        hits = set()
        for vv in sorted(self.visited):
            for s0 in sorted(self.seed_at.get(0, ())):
                for si in sorted(self.seed_at.get(i, ())):
                    if self.ref.emis_digest(vv, s0, si, i) == dg:
                        hits.add(vv)
        # a sparse scenario can be the same under two visited version vectors: all of them are reported
        return sorted(hits)[0] if len(hits) == 1 else (Ambiguous(sorted(hits)) if hits else None)

    def _hash_rev(self):
        """hash value -> version number, for every input and version (built with the code's own
        hash_file / hash_dict: what is checked is the cache logic, not md5)"""
        if self.hash_rev is None:
            rev = {}
            tmp = Inputs(os.path.join(self.root, "hash_in"), self.inputs.shape)
            for k, inp in enumerate(INPUTS):
                if not tmp.has(k):
                    continue
                for v in range(MAX_VERSION[inp] + 1):
                    tmp.set(k, v)
                    if inp in tmp.files:
                        h = II.hash_file(tmp.in_dir / tmp.files[inp])
                    elif inp == "vw":
                        h = II.hash_dict(tmp.vw)
                    else:
                        h = II.hash_dict(tmp.programs)
                    rev.setdefault(h, set()).add(v)
                tmp.set(k, 0)
            self.hash_rev = rev
        return self.hash_rev

    @staticmethod
    def show_gen(vv, gid):
        if isinstance(vv, Ambiguous):
            return "|".join(World.show_gen(x, gid) for x in vv)
        return (".".join(map(str, vv)) if vv is not None else "?") + "g" + ("?" if gid is None else str(gid))

    def abstract(self, b):
        """the generator folder in the vocabulary of the model's driver"""
        out = {}
        st, obj = _load(self.gen / GEN_FILES["seeds"])
        out["seeds"] = {"absent": "-", "torn": "T"}.get(st) or show_draws(obj, self.draw_names)
        st, obj = _load(self.gen / GEN_FILES["hashes"])
        if st != "ok":
            out["hashes"] = {"absent": "-", "torn": "T"}[st]
        else:
            rev = self._hash_rev()
            dec = {}
            for key, h in obj.items():
                vs = rev.get(h, set())
                dec[str(key)] = str(sorted(vs)[0]) if len(vs) == 1 else ("0" if h is None else "?")
            out["hashes"] = dec
            out["hash_none"] = sum(1 for h in obj.values() if h is None)   # file inputs not configured in this shape
        st, dg = self._digest_file(self.gen / GEN_FILES["infra"], "infra")
        if st != "ok":
            out["infra"] = {"absent": "-", "torn": "T"}[st]
        else:
            out["infra"] = self.show_gen(self.decode_infra(dg), self.meta.get("infra"))
        st, obj = _load(self.gen / GEN_FILES["count"])
        out["count"] = {"absent": "-", "torn": "T"}.get(st) or str(obj)
        st, obj = _load(self.gen / GEN_FILES["ts"])
        out["ts"] = {"absent": "-", "torn": "T"}.get(st) or show_period(obj)
        em = []
        for i in range(b):
            p = self.gen / Generator_Files.GEN_INFRA_EMISS.format(i=i)
            st, dg = self._digest_file(p, "emis")
            if st != "ok":
                em.append({"absent": "-", "torn": "T"}[st])
            else:
                em.append(self.show_gen(self.decode_emis(dg, i), self.meta.get(f"emis{i}")))
        out["emis"] = em
        return out

    def loaded_scenario(self, infra, i, same_object=None):
        """what simulation i of the run that holds `infra` would load: the REAL read_in_emissions is
        called (on a copy of the infrastructure, or on `same_object`: the manager hands ONE infrastructure
        object to read_in_emissions for all simulations in turn); returns ('ok', digest) or ('error', text)"""
        try:
            inf = same_object if same_object is not None else pickle.loads(pickle.dumps(infra))
            IE.read_in_emissions(inf, self.gen, i)
        except Exception as e:
            return "error", f"{type(e).__name__}: {e}"[:160]
        p = self.gen / Generator_Files.GEN_INFRA_EMISS.format(i=i)
        return self._digest_file(p, "emis")


def rules_from_vw(vw, source_level):
    """what the virtual-world leaves that shape a scenario imply for every emission of it
    (source_level: durations are overridden per source in the sources file, not checked)"""
    V = pc.Virtual_World_Params
    e = vw[V.EMIS]
    return {"pre_sim": bool(e[V.PRE_SIM_EMIS]), "start": date(*vw[V.START_DATE]), "end": date(*vw[V.END_DATE]),
            "duration": {True: int(e[V.REPAIRABLE][V.DURATION]), False: int(e[V.NON_REPAIRABLE][V.DURATION])},
            "multi": {True: bool(e[V.REPAIRABLE][V.MULTI_EMIS]), False: bool(e[V.NON_REPAIRABLE][V.MULTI_EMIS])},
            "source_level": source_level}


def _emission_lists(o):
    if isinstance(o, dict):
        for v in o.values():
            yield from _emission_lists(v)
    elif isinstance(o, list) and o and hasattr(o[0], "__dict__"):
        yield o


def implied_violations(scenario, rules):
    """check a stored scenario against what the configuration implies, reading the emissions themselves:
    no start before the period when pre-simulation emissions are off, none after its end, every emission
    carries the configured duration of its kind, and with multiple emissions per source off the starts
    of one source are more than a duration apart"""
    from datetime import timedelta as _td
    bad = []
    for lst in _emission_lists(scenario):
        starts = []
        for e in lst:
            d = vars(e)
            rep = bool(d.get("_repairable"))
            sd = d.get("_start_date")
            dur = d.get("_nrd") if "_nrd" in d else d.get("_duration")
            if sd is None or dur is None:
                bad.append("emission without start date / duration attribute")
                continue
            if not rules["pre_sim"] and sd < rules["start"]:
                bad.append(f"start {sd} before the period although pre-simulation emissions are off")
            if sd > rules["end"]:
                bad.append(f"start {sd} after the period")
            if not rules["source_level"] and int(dur) != rules["duration"][rep]:
                bad.append(f"duration {dur} instead of the configured {rules['duration'][rep]}")
            starts.append((sd, rep))
        if starts and not rules["source_level"] and not rules["multi"][starts[0][1]]:
            ss = sorted(s for s, _ in starts)
            gap = _td(days=rules["duration"][starts[0][1]])
            if any(b <= a + gap and b >= rules["start"] and a >= rules["start"] for a, b in zip(ss, ss[1:])):
                bad.append("two emissions of one source within one duration although multiple emissions are off")
    return sorted(set(bad))[:4]


@contextlib.contextmanager
def scratch():
    root = tempfile.mkdtemp(prefix="c17_")
    try:
        yield root
    finally:
        shutil.rmtree(root, ignore_errors=True)
