"""Extractor for C01: reads how the simulator wires the shared scenario to the programs and rewrites
lean/LdarModel/Generated/Wiring.lean (regenerated on every run).

  simulateDeepCopies        simulate() binds `infra = copy.deepcopy(infrastructure)` on every path
  simulateUsesOnlyCopy      Program(...) / LdarSim(...) / infra.setup(...) in simulate() use the copy;
                            the parameter `infrastructure` is read nowhere else
  scenarioLoadedOncePerSim  _setup_programs() calls read_in_emissions exactly once, before the loop
                            over programs
  generationIgnoresLifecycle Source.generate_emissions reads no life-cycle attribute of an emission
  customCopyHooks           every `__deepcopy__` / `__copy__` / `__reduce_ex__` / `__getstate__` defined by a
                            class of virtual_world/* or virtual_world/emission_types/* (the classes reachable
                            from Infrastructure): such a hook decides what `copy.deepcopy` / pickling really
                            copies, so `simulateDeepCopies` alone says nothing when one exists
  reduceArgs                per class, the attributes its `__reduce__` hands to the reconstructor
                            ("*" = the whole `__dict__`)
  initAttrs                 per class, the attributes its `__init__` sets (directly or through methods of
                            the class it calls, base classes included)
  reduceDropped             (class, attribute) set by `__init__` but not carried by `__reduce__`: such a field
                            is lost whenever the object is deep-copied or pickled (pool mode)
  reduceMisassigned         (class, attribute) the reconstructor restores from a different argument than the
                            one `__reduce__` read it into
  creationLifecycleReads    life-cycle attributes read or written in `Source._create_emission` and the Source
                            methods it calls (generation must not look at life-cycle state)
  sitesListMutations        every statement in programs/*, scheduling/* and simulate() that mutates in place a
                            list of sites it did not create: a parameter named `sites` (never rebound in the
                            function) or an attribute `._sites` — `.remove/.pop/.clear/.append/.extend/.insert/
                            .sort/.reverse`, `del x[...]`, `x[...] = ...`, `x += ...`.  simulate() hands
                            `infra._sites`, the site list of the program's own infrastructure, to Program, which
                            hands the same object to every Method and schedule: pruning it removes the site's
                            emissions from what the program faces
  classLevelContainers      every class-level or module-level name of virtual_world/* and emission_types/* bound to a
                            mutable container (list / dict / set literal, comprehension or constructor call): state
                            that would be shared by every infrastructure copy in a process
  classLevelContainerMutations  statements of those packages that mutate one of these containers in place
                            (`X.append/extend/update/...`, `X[...] = ...`, `del X[...]`, `X += ...` through the
                            class, `cls`, `self` or the bare module-level name)
  cachedFunctions           functions of those packages decorated with lru_cache / cache / cached_property
Raises RuntimeError when a function it expects is missing; the check turns that into a broken
obligation and goes on searching for a failing input.
"""
import ast
import os

from harness import shim

LIFECYCLE = {"_status", "_active_days", "_tagged", "_days_since_tagged", "_repair_date", "_expiry_date",
             "_record", "_tagged_by_company", "_recorded_by_company", "_init_detect_by", "_measured_rate",
             "_init_detect_date", "_tagged_by_crew", "_recorded_by_crew", "_tagging_rep_delay", "_days_emitting",
             "_emitting", "_emitting_period_day_count", "_non_emitting_period_day_count", "_estimated_date_began",
             "_estimated_days_active", "_flagged_by", "_tech_spat_covs", "_active_emissions", "_inactive_emissions",
             "_next_emission"}
COPY_HOOKS = ("__deepcopy__", "__copy__", "__reduce_ex__", "__getstate__")


def _func(tree, name, cls=None):
    for node in ast.walk(tree):
        if cls and isinstance(node, ast.ClassDef) and node.name == cls:
            for n in node.body:
                if isinstance(n, ast.FunctionDef) and n.name == name:
                    return n
        if not cls and isinstance(node, ast.FunctionDef) and node.name == name:
            return node
    raise RuntimeError(f"extractor: function {cls + '.' if cls else ''}{name} not found")


def _world_classes(src):
    """name -> (ClassDef, relative file) for every class of virtual_world/ and emission_types/"""
    out = {}
    base = os.path.join(src, "virtual_world")
    files = []
    for root, _, fs in os.walk(base):
        for f in sorted(fs):
            if f.endswith(".py"):
                files.append(os.path.join(root, f))
    if not files:
        raise RuntimeError("extractor: virtual_world/*.py not found")
    for path in sorted(files):
        tree = ast.parse(open(path).read())
        for node in tree.body:
            if isinstance(node, ast.ClassDef):
                out[node.name] = (node, os.path.relpath(path, src))
    for need in ("Infrastructure", "Site", "Equipment_Group", "Component", "Source", "Emission", "RepairableEmission",
                 "NonRepairableEmission", "IntermittencyMixin"):
        if need not in out:
            raise RuntimeError(f"extractor: class {need} not found under virtual_world/")
    return out


def _methods(cls_node):
    return {n.name: n for n in cls_node.body if isinstance(n, ast.FunctionDef)}


def _mro(name, classes):
    """linearised bases inside the scanned packages (good enough for attribute collection)"""
    seen, order = set(), []

    def go(n):
        if n in seen or n not in classes:
            return
        seen.add(n)
        order.append(n)
        for b in classes[n][0].bases:
            bn = b.id if isinstance(b, ast.Name) else (b.attr if isinstance(b, ast.Attribute) else None)
            if bn:
                go(bn)
    go(name)
    return order


def _lookup(name, meth, classes):
    for c in _mro(name, classes):
        m = _methods(classes[c][0]).get(meth)
        if m is not None:
            return c, m
    return None, None


def _self_attr_stores(fn):
    out = []
    for n in ast.walk(fn):
        tgts = []
        if isinstance(n, ast.Assign):
            tgts = n.targets
        elif isinstance(n, (ast.AnnAssign, ast.AugAssign)):
            tgts = [n.target]
        for t in tgts:
            for x in ast.walk(t):
                if isinstance(x, ast.Attribute) and isinstance(x.value, ast.Name) and x.value.id == "self" \
                        and isinstance(x.ctx, ast.Store) and x.attr not in out:
                    out.append(x.attr)
    return out


def _self_calls(fn):
    out = []
    for n in ast.walk(fn):
        if isinstance(n, ast.Call) and isinstance(n.func, ast.Attribute):
            v = n.func.value
            if isinstance(v, ast.Name) and v.id == "self":
                out.append(n.func.attr)
            # super().__init__(...) / super().method(...)
            if isinstance(v, ast.Call) and isinstance(v.func, ast.Name) and v.func.id == "super":
                out.append("super:" + n.func.attr)
    return out


def _init_attrs(name, classes):
    """attributes set by __init__ of class `name` incl. methods of the class (or its bases) it calls"""
    attrs, done = [], set()

    def visit(cls_name, meth):
        owner, fn = _lookup(cls_name, meth, classes)
        if fn is None or (owner, meth) in done:
            return
        done.add((owner, meth))
        for a in _self_attr_stores(fn):
            if a not in attrs:
                attrs.append(a)
        for c in _self_calls(fn):
            if c.startswith("super:"):
                # continue in the bases of the class that owns this method
                for b in _mro(owner, classes)[1:]:
                    visit(b, c[6:])
            else:
                visit(name, c)
    visit(name, "__init__")
    return attrs


def _reduce_info(name, classes):
    """(args, misassigned): attribute names handed over by the class's own/inherited __reduce__ and the
    attributes its reconstructor restores from the wrong position; ("*", []) for `self.__dict__`"""
    owner, fn = _lookup(name, "__reduce__", classes)
    if fn is None:
        return None, []
    ret = next((n for n in ast.walk(fn) if isinstance(n, ast.Return)), None)
    if ret is None or not isinstance(ret.value, ast.Tuple) or len(ret.value.elts) < 2:
        raise RuntimeError(f"extractor: {owner}.__reduce__ does not return (callable, args)")
    ctor, args = ret.value.elts[0], ret.value.elts[1]
    if isinstance(args, ast.Name):
        bound = None
        for n in ast.walk(fn):
            if isinstance(n, ast.Assign) and any(isinstance(t, ast.Name) and t.id == args.id for t in n.targets):
                bound = n.value
        if bound is None:
            raise RuntimeError(f"extractor: {owner}.__reduce__: cannot resolve `{args.id}`")
        args = bound
    if not isinstance(args, ast.Tuple):
        raise RuntimeError(f"extractor: {owner}.__reduce__: argument tuple not literal")
    names = []
    for e in args.elts:
        if isinstance(e, ast.Attribute) and isinstance(e.value, ast.Name) and e.value.id == "self":
            names.append("*" if e.attr == "__dict__" else e.attr)
        else:
            names.append("?" + ast.unparse(e))
    if names == ["*"]:
        # reconstructor must put the dict back: `<obj>.__setstate__(state)` / `__dict__.update(state)`
        rn = ctor.attr if isinstance(ctor, ast.Attribute) else None
        o2, rfn = _lookup(name, rn, classes) if rn else (None, None)
        ok = False
        if rfn is not None:
            for n in ast.walk(rfn):
                if isinstance(n, ast.Call) and isinstance(n.func, ast.Attribute) and n.func.attr in ("__setstate__", "update"):
                    ok = True
            _, ss = _lookup(name, "__setstate__", classes)
            if ss is not None and not any(isinstance(n, ast.Call) and isinstance(n.func, ast.Attribute)
                                          and n.func.attr == "update" for n in ast.walk(ss)):
                ok = False
        return names, ([] if ok else ["__dict__"])
    # positional reconstructor: parameter i must be stored into the attribute argument i was read from
    rn = ctor.attr if isinstance(ctor, ast.Attribute) else None
    o2, rfn = _lookup(name, rn, classes) if rn else (None, None)
    if rfn is None:
        raise RuntimeError(f"extractor: reconstructor of {owner}.__reduce__ not found")
    params = [a.arg for a in rfn.args.args][1:]  # drop cls
    stored = {}
    for n in ast.walk(rfn):
        if isinstance(n, ast.Assign) and isinstance(n.value, ast.Name):
            for t in n.targets:
                if isinstance(t, ast.Attribute) and isinstance(t.value, ast.Name):
                    stored[n.value.id] = t.attr
    mis = []
    for i, a in enumerate(names):
        if i >= len(params) or stored.get(params[i]) != a:
            mis.append(a)
    return names, mis


MUTATORS = ("remove", "pop", "clear", "append", "extend", "insert", "sort", "reverse")


def _is_sites_ref(node, params):
    if isinstance(node, ast.Name) and node.id == "sites" and "sites" in params:
        return True
    return isinstance(node, ast.Attribute) and node.attr == "_sites"


def _sites_mutations(src):
    out = []
    files = []
    for sub in ("programs", "scheduling"):
        d = os.path.join(src, sub)
        if not os.path.isdir(d):
            raise RuntimeError(f"extractor: {sub}/ not found")
        files += [os.path.join(d, f) for f in sorted(os.listdir(d)) if f.endswith(".py")]
    files.append(os.path.join(src, "simulation", "simulation_helpers.py"))
    n_funcs_with_sites = 0
    for path in files:
        tree = ast.parse(open(path).read())
        rel = os.path.relpath(path, src)
        for fn in [n for n in ast.walk(tree) if isinstance(n, (ast.FunctionDef, ast.AsyncFunctionDef))]:
            params = {a.arg for a in fn.args.args + fn.args.kwonlyargs}
            if "sites" in params:
                n_funcs_with_sites += 1
                # a parameter that the function rebinds (`sites = list(sites)`) is its own list from then on;
                # conservatively such a function is still reported if it mutates before/after — keep it simple:
                rebound = any(isinstance(n, ast.Assign) and any(isinstance(t, ast.Name) and t.id == "sites" for t in n.targets)
                              for n in ast.walk(fn))
                if rebound:
                    params = params - {"sites"}
            for n in ast.walk(fn):
                hit = None
                if isinstance(n, ast.Call) and isinstance(n.func, ast.Attribute) and n.func.attr in MUTATORS \
                        and _is_sites_ref(n.func.value, params):
                    hit = f".{n.func.attr}()"
                elif isinstance(n, ast.Delete) and any(isinstance(t, ast.Subscript) and _is_sites_ref(t.value, params)
                                                       for t in n.targets):
                    hit = "del [...]"
                elif isinstance(n, ast.Assign) and any(isinstance(t, ast.Subscript) and _is_sites_ref(t.value, params)
                                                       for t in n.targets):
                    hit = "[...] ="
                elif isinstance(n, ast.AugAssign) and _is_sites_ref(n.target, params):
                    hit = "augmented assignment"
                if hit:
                    out.append(f"{rel}:{fn.name}:{n.lineno}:{hit}")
    if n_funcs_with_sites < 3:
        raise RuntimeError("extractor: functions taking a `sites` parameter not found in programs/ scheduling/")
    return sorted(set(out))


CONTAINER_CALLS = ("list", "dict", "set", "defaultdict", "OrderedDict", "deque", "Counter")
CONTAINER_MUTATORS = MUTATORS + ("update", "add", "discard", "setdefault", "popitem", "appendleft")


def _is_container_expr(v):
    if isinstance(v, (ast.List, ast.Dict, ast.Set, ast.ListComp, ast.DictComp, ast.SetComp)):
        return True
    return isinstance(v, ast.Call) and (
        (isinstance(v.func, ast.Name) and v.func.id in CONTAINER_CALLS)
        or (isinstance(v.func, ast.Attribute) and v.func.attr in CONTAINER_CALLS))


def _shared_containers(src):
    """(containers, mutations, cached): class-/module-level mutable containers of virtual_world/**, the
    statements mutating them in place, cache-decorated functions"""
    base = os.path.join(src, "virtual_world")
    containers, mutations, cached = [], [], []
    trees = []
    for root, _, fs in os.walk(base):
        for f in sorted(fs):
            if f.endswith(".py"):
                path = os.path.join(root, f)
                trees.append((os.path.relpath(path, src), ast.parse(open(path).read())))
    trees.sort(key=lambda t: t[0])
    names = {}   # bare name -> qualified
    for rel, tree in trees:
        mod = rel[:-3].replace(os.sep, ".")
        for node in tree.body:
            tv = []
            if isinstance(node, ast.Assign):
                tv = [(t, node.value) for t in node.targets]
            elif isinstance(node, ast.AnnAssign) and node.value is not None:
                tv = [(node.target, node.value)]
            for t, v in tv:
                if isinstance(t, ast.Name) and _is_container_expr(v):
                    containers.append(f"{mod}:{t.id}")
                    names[t.id] = f"{mod}:{t.id}"
            if isinstance(node, ast.ClassDef):
                for n in node.body:
                    tv = []
                    if isinstance(n, ast.Assign):
                        tv = [(t, n.value) for t in n.targets]
                    elif isinstance(n, ast.AnnAssign) and n.value is not None:
                        tv = [(n.target, n.value)]
                    for t, v in tv:
                        if isinstance(t, ast.Name) and _is_container_expr(v):
                            containers.append(f"{node.name}.{t.id}")
                            names[t.id] = f"{node.name}.{t.id}"

    def ref(node):
        """qualified container name a Name/Attribute expression refers to, else None"""
        if isinstance(node, ast.Name) and node.id in names and ":" in names[node.id]:
            return names[node.id]
        if isinstance(node, ast.Attribute) and node.attr in names and "." in names[node.attr].split(":")[-1]:
            return names[node.attr]
        return None

    for rel, tree in trees:
        for fn in [n for n in ast.walk(tree) if isinstance(n, (ast.FunctionDef, ast.AsyncFunctionDef))]:
            for d in fn.decorator_list:
                dn = ast.unparse(d)
                if any(k in dn for k in ("lru_cache", "functools.cache", "cached_property")) or dn == "cache":
                    cached.append(f"{rel}:{fn.name}")
            for n in ast.walk(fn):
                hit = None
                if isinstance(n, ast.Call) and isinstance(n.func, ast.Attribute) and n.func.attr in CONTAINER_MUTATORS:
                    hit = ref(n.func.value)
                elif isinstance(n, (ast.Assign, ast.Delete)):
                    for t in n.targets:
                        if isinstance(t, ast.Subscript) and ref(t.value):
                            hit = ref(t.value)
                elif isinstance(n, ast.AugAssign):
                    hit = ref(n.target) or (ref(n.target.value) if isinstance(n.target, ast.Subscript) else None)
                if hit:
                    # `self.x` where x is ALSO assigned per instance in __init__ is an instance attribute
                    tgt = n.func.value if isinstance(n, ast.Call) else None
                    mutations.append(f"{rel}:{fn.name}:{n.lineno}:{hit}")
    return sorted(set(containers)), sorted(set(mutations)), sorted(set(cached))


def extract():
    src = shim.REPO_SRC
    facts = {}
    (facts["classLevelContainers"], facts["classLevelContainerMutations"],
     facts["cachedFunctions"]) = _shared_containers(src)
    facts["sitesListMutations"] = _sites_mutations(src)
    # --- simulate() ---------------------------------------------------------------------------
    tree = ast.parse(open(os.path.join(src, "simulation", "simulation_helpers.py")).read())
    f = _func(tree, "simulate")
    copy_targets = set()
    n_copy = 0
    for node in ast.walk(f):
        if isinstance(node, ast.Assign) and isinstance(node.value, ast.Call):
            c = node.value
            fn = ast.unparse(c.func)
            if fn in ("copy.deepcopy", "deepcopy") and len(c.args) == 1 and ast.unparse(c.args[0]) == "infrastructure":
                n_copy += 1
                for t in node.targets:
                    if isinstance(t, ast.Name):
                        copy_targets.add(t.id)
    # every use of the parameter `infrastructure` must be the argument of a deepcopy
    uses = [n for n in ast.walk(f) if isinstance(n, ast.Name) and n.id == "infrastructure" and isinstance(n.ctx, ast.Load)]
    facts["simulateDeepCopies"] = n_copy >= 1 and len(copy_targets) == 1
    facts["simulateUsesOnlyCopy"] = facts["simulateDeepCopies"] and len(uses) == n_copy
    # the objects handed to Program / LdarSim must be the copy
    ok_args = True
    cp = next(iter(copy_targets)) if copy_targets else None
    seen_ctor = 0
    for node in ast.walk(f):
        if isinstance(node, ast.Call) and ast.unparse(node.func) in ("Program", "LdarSim"):
            seen_ctor += 1
            names = {n.id for a in list(node.args) + [k.value for k in node.keywords] for n in ast.walk(a) if isinstance(n, ast.Name)}
            if "infrastructure" in names or (cp and cp not in names):
                ok_args = False
    if seen_ctor < 2:
        raise RuntimeError("extractor: Program(...) / LdarSim(...) constructions not found in simulate()")
    facts["simulateUsesOnlyCopy"] = facts["simulateUsesOnlyCopy"] and ok_args
    # --- _setup_programs -----------------------------------------------------------------------
    tree = ast.parse(open(os.path.join(src, "simulation", "simulation_manager.py")).read())
    f = _func(tree, "_setup_programs", "SimulationManager")
    calls_before, calls_in_loop, loop_seen = 0, 0, False
    for stmt in f.body:
        is_loop = isinstance(stmt, ast.For)
        n = sum(1 for x in ast.walk(stmt) if isinstance(x, ast.Call) and ast.unparse(x.func) == "read_in_emissions")
        if is_loop:
            loop_seen = True
            calls_in_loop += n
        elif not loop_seen:
            calls_before += n
        else:
            calls_in_loop += n
    facts["scenarioLoadedOncePerSim"] = calls_before == 1 and calls_in_loop == 0 and loop_seen
    # --- Source.generate_emissions ---------------------------------------------------------------
    tree = ast.parse(open(os.path.join(src, "virtual_world", "sources.py")).read())
    f = _func(tree, "generate_emissions", "Source")
    attrs = {n.attr for n in ast.walk(f) if isinstance(n, ast.Attribute)}
    facts["generationIgnoresLifecycle"] = not (attrs & LIFECYCLE)
    # --- Source._create_emission and the Source methods it calls -----------------------------------
    classes = _world_classes(src)
    reads, done, todo = [], set(), ["_create_emission"]
    smeth = _methods(classes["Source"][0])
    if "_create_emission" not in smeth:
        raise RuntimeError("extractor: Source._create_emission not found")
    while todo:
        m = todo.pop()
        if m in done or m not in smeth:
            continue
        done.add(m)
        for n in ast.walk(smeth[m]):
            if isinstance(n, ast.Attribute) and n.attr in LIFECYCLE:
                item = f"Source.{m}:{n.attr}"
                if item not in reads:
                    reads.append(item)
        todo += [c for c in _self_calls(smeth[m]) if not c.startswith("super:")]
    facts["creationLifecycleReads"] = sorted(reads)
    facts["creationHelpersScanned"] = sorted(done)
    # --- copy hooks and __reduce__ tables ---------------------------------------------------------------
    hooks, reduce_args, init_attrs, dropped, misassigned = [], [], [], [], []
    for name in sorted(classes):
        node, rel = classes[name]
        for m in _methods(node):
            if m in COPY_HOOKS:
                hooks.append(f"{name}.{m}")
        args, mis = _reduce_info(name, classes)
        if args is None:
            continue  # no __reduce__ anywhere in its bases: default pickling keeps the whole __dict__
        ia = _init_attrs(name, classes)
        reduce_args.append((name, args))
        init_attrs.append((name, ia))
        if args != ["*"]:
            dropped += [(name, a) for a in ia if a not in args]
        misassigned += [(name, a) for a in mis]
    facts["customCopyHooks"] = hooks
    facts["reduceArgs"] = reduce_args
    facts["initAttrs"] = init_attrs
    facts["reduceDropped"] = dropped
    facts["reduceMisassigned"] = misassigned
    return facts


def _lean_str(s):
    return '"' + s.replace("\\", "\\\\").replace('"', '\\"') + '"'


def _lean_strs(l):
    return "[" + ", ".join(_lean_str(x) for x in l) + "]"


def write(facts):
    from harness.core import LEAN_DIR

    path = os.path.join(LEAN_DIR, "LdarModel", "Generated", "Wiring.lean")
    body = ["/- GENERATED by harness/extract/wiring.py from /repo on every run — do not edit -/",
            "namespace LdarModel.Generated.Wiring"]
    for k in ("simulateDeepCopies", "simulateUsesOnlyCopy", "scenarioLoadedOncePerSim", "generationIgnoresLifecycle"):
        body.append(f"def {k} : Bool := {'true' if facts[k] else 'false'}")
    body.append(f"def customCopyHooks : List String := {_lean_strs(facts['customCopyHooks'])}")
    for key in ("classLevelContainers", "classLevelContainerMutations", "cachedFunctions"):
        body.append(f"def {key} : List String := {_lean_strs(facts[key])}")
    body.append(f"def sitesListMutations : List String := {_lean_strs(facts['sitesListMutations'])}")
    body.append(f"def creationLifecycleReads : List String := {_lean_strs(facts['creationLifecycleReads'])}")
    body.append(f"def creationHelpersScanned : List String := {_lean_strs(facts['creationHelpersScanned'])}")
    for key in ("reduceArgs", "initAttrs"):
        body.append(f"def {key} : List (String × List String) := [")
        body.append(",\n".join(f"  ({_lean_str(c)}, {_lean_strs(a)})" for c, a in facts[key]))
        body.append("]")
    for key in ("reduceDropped", "reduceMisassigned"):
        body.append(f"def {key} : List (String × String) := ["
                    + ", ".join(f"({_lean_str(c)}, {_lean_str(a)})" for c, a in facts[key]) + "]")
    body.append("end LdarModel.Generated.Wiring")
    new = "\n".join(body) + "\n"
    old = open(path).read() if os.path.exists(path) else None
    if old != new:
        with open(path, "w") as fh:
            fh.write(new)
    return path
