"""Layer 3 for the emission state machine: translate the methods of the four emission classes of
virtual_world/emission_types/* to Lean (harness/extract/py2lean.py) and rewrite
lean/LdarModel/Generated/EmissionSrc.lean — on every run, from the current source.

`Props/EmissionTie.lean` proves that each translated method, seen through the abstraction functions
`absR` / `absN`, *is* the corresponding function of the hand-written model `Model/Emission.lean`
(update, activate, tag, mitDays, emitDays, isEmitting) for every object that satisfies the
constructor's well-formedness — so the theorems of C02 / C03 / C04 / C11 are theorems about what
these methods say now.  A method that leaves the accepted subset is listed in `untranslated`
(placeholders are emitted so that the file still compiles; its tie theorem is then stated about the
placeholder and fails: broken obligation, and the check goes on searching with the correspondence).
"""
import json
import os

from harness import shim
from harness.extract import py2lean as P

ET = os.path.join(shim.REPO_SRC, "virtual_world", "emission_types")
FILES = ["emission.py", "repairable_emission.py", "non_repairable_emissions.py", "intermittency_mixin.py",
         "intermittent_repairable_emission.py", "intermittent_non_repairable_emission.py"]
CONST_FILE = os.path.join(shim.REPO_SRC, "constants", "general_const.py")
OUT = os.path.join(os.path.dirname(os.path.dirname(os.path.dirname(os.path.abspath(__file__)))),
                   "lean", "LdarModel", "Generated", "EmissionSrc.lean")

OUT_DRV = os.path.join(os.path.dirname(OUT), "EmissionSrcMain.lean")

FINALS = {"RepairableEmission": "RE", "NonRepairableEmission": "NRE",
          "IntermittentRepairableEmission": "IRE", "IntermittentNonRepairableEmission": "INRE"}

# entry points whose translation the tie theorems talk about: (method, lean return type)
ENTRIES_ALL = [("update", "Bool"), ("activate", "Bool"), ("update_detection_records", "Unit"),
               ("is_emitting", "Bool"), ("get_days_emitting", "Int"), ("calc_true_emis_vol", "Int")]
ENTRIES_REP = [("tag_leak", "Bool"), ("calc_mitigated", "Int"), ("calc_theory_date", "Int"), ("tagged_today", "Bool"),
               ("check_if_repaired", "Bool"), ("natural_repair", "Unit")]
ENTRIES_NON = [("record_emission", "Bool"), ("expire", "Unit")]

FIELDS = {
    # Emission
    "_rate": "Int", "_start_date": "Int", "_repairable": "Bool", "_estimated_date_began": "OptInt",
    "_estimated_days_active": "Int", "_active_days": "Int", "_measured_rate": "OptInt",
    "_init_detect_by": "OptNat", "_init_detect_date": "OptInt", "_status": "Status",
    # RepairableEmission
    "_tagged": "Bool", "_days_since_tagged": "Int", "_tagged_by_company": "By", "_tagged_by_crew": "OptNat",
    "_repair_delay": "Int", "_tagging_rep_delay": "Int", "_nrd": "Int", "_repair_date": "OptInt",
    "_days_active_b4_sim": "Int",
    # NonRepairableEmission
    "_record": "Bool", "_recorded_by_company": "By", "_recorded_by_crew": "OptNat", "_expiry_date": "OptInt",
    "_duration": "Int", "_estimated_days_active_after_detection": "Int",
    # IntermittencyMixin
    "_active_duration": "Int", "_inactive_duration": "Int", "_days_emitting": "Int",
    "_non_emitting_period_day_count": "Int", "_emitting_period_day_count": "Int", "_emitting": "Bool",
}
INFO = {"leaks_repaired": "Int", "repair_cost": "Int", "leaks_nat_repaired": "Int", "nat_repair_cost": "Int",
        "emis_expired": "Int"}


def build_schema():
    consts = {}
    for f in FILES:
        path = os.path.join(ET, f)
        for alias, cls in P.import_aliases(path).items():
            if cls in ("Emission_Constants",):
                for k, v in P.read_class_constants(CONST_FILE, cls).items():
                    consts[f"{alias}.{k}"] = v
    const_env = {}
    for f in FILES:
        for alias, cls in P.import_aliases(os.path.join(ET, f)).items():
            if cls == "Conversion_Constants":
                const_env[f"{alias}.GRAMS_PER_SECOND_TO_KG_PER_DAY"] = "env_kg_per_day"
    return P.Schema(
        fields=FIELDS,
        records={"EmisInfo": INFO},
        record_prefix={"EmisInfo": "info"},
        enums={
            "Status": {"values": {"active": "active", "inactive": "inactive", "repaired": "repaired",
                                  "expired": "expired"}},
            "By": {"values": {"natural": "natural", "expired": "expire"}, "none": "none",
                   "wrap": ("Nat", "company")},
        },
        consts=consts,
        const_env=const_env,
        opaque_calls={"get_repair_cost": ("env_repair_cost", "Int"), "average": ("env_average", "Int")},
        param_types={"end_date": "Int", "init_detect_by": "Nat", "init_detect_date": "Int",
                     "measured_rate": "Int"},
    ), consts


COLS = ["STATUS", "DAYS_ACT", "DAYS_EMITTING", "T_VOL_EMIT", "MITIGATED", "T_RATE", "DATE_BEG", "DATE_REP_EXP",
        "THEORY_DATE", "INIT_DETECT_BY", "INIT_DETECT_DATE", "TAGGED", "TAGGED_BY", "RECORDED", "RECORDED_BY",
        "REPAIRABLE", "EST_DAYS_ACT"]


def summary_columns(classes, final):
    """{column constant: (defining class, value expression)} of `get_summary_dict` as an instance of `final` sees
    it: the definitions along the MRO, base first, a later `summary_dict.update({(key, value)})` overriding an
    earlier one; a definition that does not call `super().get_summary_dict()` starts from an empty dict"""
    import ast
    cols = {}
    for cls in reversed(P.c3(classes, final)):
        fn = classes[cls].methods.get("get_summary_dict")
        if fn is None:
            continue
        calls_super = any(isinstance(n, ast.Call) and isinstance(n.func, ast.Attribute)
                          and n.func.attr == "get_summary_dict" and isinstance(n.func.value, ast.Call)
                          and getattr(n.func.value.func, "id", None) == "super" for n in ast.walk(fn))
        if not calls_super:
            cols = {}
        for st in fn.body:
            if (isinstance(st, ast.Expr) and isinstance(st.value, ast.Call) and isinstance(st.value.func, ast.Attribute)
                    and st.value.func.attr == "update" and len(st.value.args) == 1):
                a = st.value.args[0]
                pairs = []
                if isinstance(a, ast.Set):
                    pairs = [e for e in a.elts if isinstance(e, ast.Tuple) and len(e.elts) == 2]
                elif isinstance(a, ast.Dict):
                    pairs = [ast.Tuple(elts=[k, v]) for k, v in zip(a.keys, a.values)]
                for e in pairs:
                    key = ast.unparse(e.elts[0])
                    cols[key.split(".")[-1]] = (cls, e.elts[1])
    return cols


def generate():
    schema, consts = build_schema()
    classes = P.load_classes([os.path.join(ET, f) for f in FILES])
    missing = [c for c in FINALS if c not in classes]
    if missing:
        raise RuntimeError("emission classes not found: %s" % missing)
    tr = P.Translator(classes, schema)
    aliases, untranslated = [], {}
    for final, short in FINALS.items():
        rep = "Repairable" in final and "Non" not in final
        entries = ENTRIES_ALL + (ENTRIES_REP if rep else ENTRIES_NON)
        for m, ret in entries:
            n = tr.entry(final, m)
            if n is None:
                untranslated[f"{final}.{m}"] = tr.failed[(final, m)]
                aliases.append((short, m, None, ret))
            else:
                aliases.append((short, m, n, tr.sigs[n]))
    col_lines = []
    # the per-emission record (`get_summary_dict`): one Lean function per column and class
    col_report = {}
    for final, short in FINALS.items():
        cols = summary_columns(classes, final)
        col_report[short] = {}
        for key in COLS:
            if key not in cols:
                continue
            owner, expr = cols[key]
            mt = P.MethodTr(tr, final, owner, "get_summary_dict", "cols")
            mt.locals = {"end_date": "Int"}
            mt.ret = "Unit"
            try:
                t = mt.typeof(expr)
                if t in ("?", "Const", "None"):
                    raise P.Untranslatable(f"column {key}: value of unknown type ({__import__('ast').unparse(expr)})")
                v = mt.val(expr)
                col_lines.append(f"/-- record column `{key}` of a `{final}` (`{owner}.get_summary_dict`) -/\n"
                             f"@[simp] def {short}.col_{key} (o : Obj) (end_date : Int) : {schema.lean_type(t)} := {v}\n")
                col_report[short][key] = t
            except P.Untranslatable as e:
                col_report[short][key] = "untranslated: " + str(e)
    mros = {f: P.c3(classes, f) for f in FINALS}
    lines = [
        "/- GENERATED by harness/extract/emission_src.py from virtual_world/emission_types/*.py — do not edit.",
        "   One Lean function per (final class, defining class, method); `self.m` is resolved through the",
        "   final class's MRO, `super().m` through the MRO after the defining class. -/",
        "import LdarModel.Model.Emission",
        "",
        "namespace LdarModel.EmissionSrc",
        "open LdarModel.Emission (Status By)",
        "",
        "/-- the attributes of an emission object the translated methods read or write, the `EmisInfo`",
        "counters they are handed (`info_*`), and the values they take from outside (`env_*`) -/",
        tr.structure_text(),
        "",
        "/-- method resolution orders the translation used -/",
        "def mros : List (String × List String) := ["
        + ", ".join('("%s", [%s])' % (f, ", ".join('"%s"' % c for c in m)) for f, m in mros.items()) + "]",
        "",
        "/-- constants read from constants/general_const.py -/",
        "def constants : List (String × String) := ["
        + ", ".join('("%s", "%s")' % (k, v) for k, v in sorted(consts.items())) + "]",
        "",
        "/-- methods that left the translated subset (reason in the evidence) -/",
        "def untranslated : List String := [" + ", ".join('"%s"' % k for k in sorted(untranslated)) + "]",
        "",
        tr.defs_text(),
        "",
    ]
    for short, m, n, sig in aliases:
        if n is None:
            # placeholder of the right shape is impossible without the signature; emit a constant so the
            # file compiles and the tie theorem about it fails
            lines.append(f"/-- UNTRANSLATED `{m}` -/\ndef {short}.{m} (o : Obj) : Obj × {sig} := (o, default)\n")
        else:
            params, ret, pure, pynames = sig
            ps = "".join(f" ({a} : {schema.lean_type(t)})" for a, t in params)
            args = "".join(f" {a}" for a, t in params)
            lines.append(f"abbrev {short}.{m} (o : Obj){ps} : Obj × {schema.lean_type(ret)} := {n} o{args}\n")
    lines += col_lines
    lines.append("end LdarModel.EmissionSrc\n")
    text = "\n".join(lines)
    old = open(OUT).read() if os.path.exists(OUT) else None
    if old != text:
        with open(OUT, "w") as fh:
            fh.write(text)
    # executable driver of the translated functions (translation validation, harness/props/_tie.py)
    entries = [(f"{short}.{m}", n) for short, m, n, _sig in aliases if n is not None]
    drv, field_order = P.driver_text(tr, entries, ["LdarModel.Generated.EmissionSrc"],
                                     ["LdarModel.Emission (Status By)", "LdarModel.EmissionSrc"],
                                     "LdarModel.EmissionSrcDrv")
    oldd = open(OUT_DRV).read() if os.path.exists(OUT_DRV) else None
    if oldd != drv:
        with open(OUT_DRV, "w") as fh:
            fh.write(drv)
    return {"translated": [n for n in tr.order], "untranslated": untranslated, "mros": mros,
            "constants": consts, "changed": old != text, "field_order": field_order, "columns": col_report,
            "entries": {pub: [[a, t] for a, t in tr.sigs[n][0]] for pub, n in entries},
            "ret_parts": {pub: tr.ret_parts[n] for pub, n in entries}}


def extract():
    return generate()


def write(_rep):
    """generate() writes the file itself (tools/regen.sh calls extract + write)"""


if __name__ == "__main__":
    print(json.dumps(generate(), indent=1))
