"""ast extractor: /repo unit tables and emission-seed range -> lean/LdarModel/Generated/{Units,EmisSeed}.lean

Read from the working tree of the repo on every run of C16:
  utils/unit_converter.py     the six conversion dictionaries, the default arguments of gas_convert
                              and the numeric literals of its body (8.3145, 1000000)
  constants/general_const.py  Unit_Constants.GRAM / SECOND (the pass-through test of unit_conversion)
  initialization/preseed.py   the (low, high) arguments of every np.random.randint call of gen_seed_emis
Decimal literals are taken from the *source text* and emitted as exact rationals.
The extractor fails loudly (ExtractError -> infrastructure error, exit 2) when a pattern it expects
is missing; it never guesses.
"""
from __future__ import annotations

import ast
import hashlib
import os
from fractions import Fraction

from harness import shim

LEAN_GEN = os.path.join(os.path.dirname(os.path.dirname(os.path.dirname(os.path.abspath(__file__)))),
                        "lean", "LdarModel", "Generated")

DICTS = ["substances", "in_metrics", "out_metrics", "increments", "temperature_units", "pressure_units"]


class ExtractError(Exception):
    pass


def _num(src, node):
    """exact value of a numeric literal node (optionally signed), from its source text"""
    if isinstance(node, ast.UnaryOp) and isinstance(node.op, (ast.USub, ast.UAdd)):
        v = _num(src, node.operand)
        return -v if isinstance(node.op, ast.USub) else v
    if isinstance(node, ast.Constant) and isinstance(node.value, (int, float)) and not isinstance(node.value, bool):
        text = ast.get_source_segment(src, node).replace("_", "")
        return Fraction(text)
    raise ExtractError(f"numeric literal expected at line {getattr(node, 'lineno', '?')}")


def _lit(src, node):
    """dict / str / bool / number literal -> python value with Fractions for numbers"""
    if isinstance(node, ast.Dict):
        out = {}
        for k, v in zip(node.keys, node.values):
            if not (isinstance(k, ast.Constant) and isinstance(k.value, str)):
                raise ExtractError(f"string key expected at line {node.lineno}")
            out[k.value] = _lit(src, v)
        return out
    if isinstance(node, ast.Constant) and isinstance(node.value, (str, bool)):
        return node.value
    return _num(src, node)


def read_unit_tables():
    path = os.path.join(shim.REPO_SRC, "utils", "unit_converter.py")
    src = open(path).read()
    tree = ast.parse(src)
    tables, spans = {}, {}
    fn = None
    for node in tree.body:
        if isinstance(node, ast.Assign) and len(node.targets) == 1 and isinstance(node.targets[0], ast.Name) \
                and node.targets[0].id in DICTS:
            tables[node.targets[0].id] = _lit(src, node.value)
            spans[node.targets[0].id] = (node.lineno, node.end_lineno)
        if isinstance(node, ast.FunctionDef) and node.name == "gas_convert":
            fn = node
    missing = [d for d in DICTS if d not in tables]
    if missing or fn is None:
        raise ExtractError(f"unit_converter.py: missing {missing or 'gas_convert'}")
    # shape checks
    for name in ("in_metrics", "out_metrics"):
        for k, e in tables[name].items():
            if set(e) != {"per_unit", "type"} or e["type"] not in ("mass", "volume"):
                raise ExtractError(f"{name}[{k!r}]: expected per_unit/type(mass|volume), got {e}")
    for k, e in tables["substances"].items():
        if "n" not in e:
            raise ExtractError(f"substances[{k!r}] has no 'n'")
    for name in ("temperature_units", "pressure_units"):
        for k, e in tables[name].items():
            if set(e) != {"scale", "offset"}:
                raise ExtractError(f"{name}[{k!r}]: expected scale/offset")
    # defaults of gas_convert
    args = fn.args
    if args.vararg or args.kwarg or args.kwonlyargs or len(args.defaults) != len(args.args):
        raise ExtractError("gas_convert: signature shape changed")
    defaults = {}
    for a, d in zip(args.args, args.defaults):
        defaults[a.arg] = d.value if isinstance(d, ast.Constant) and isinstance(d.value, str) else _num(src, d)
    need = ["input_quantity", "input_substance", "input_metric", "input_increment", "output_substance",
            "output_metric", "output_increment", "NG_comp", "T", "P", "temperature_unit", "pressure_unit", "GWP"]
    for n in need:
        if n not in defaults:
            raise ExtractError(f"gas_convert: parameter {n} missing")
    # numeric literals of the body (docstring skipped)
    body = fn.body[1:] if (fn.body and isinstance(fn.body[0], ast.Expr)
                           and isinstance(getattr(fn.body[0], "value", None), ast.Constant)
                           and isinstance(fn.body[0].value.value, str)) else fn.body
    lits = set()
    for stmt in body:
        for node in ast.walk(stmt):
            if isinstance(node, ast.Constant) and isinstance(node.value, (int, float)) \
                    and not isinstance(node.value, bool):
                lits.add(_num(src, node))
    ints = sorted(x for x in lits if x.denominator == 1)
    fracs = sorted(x for x in lits if x.denominator != 1)
    if len(ints) != 1 or len(fracs) != 1:
        raise ExtractError(f"gas_convert body: expected one integer and one decimal literal, got {sorted(lits)}")
    fp = hashlib.sha256("\n".join(ast.dump(s) for s in body).encode()).hexdigest()[:16]
    # the pass-through names
    gsrc = open(os.path.join(shim.REPO_SRC, "constants", "general_const.py")).read()
    names = {}
    for node in ast.parse(gsrc).body:
        if isinstance(node, ast.ClassDef) and node.name == "Unit_Constants":
            for st in node.body:
                if isinstance(st, ast.Assign) and isinstance(st.targets[0], ast.Name) \
                        and isinstance(st.value, ast.Constant):
                    names[st.targets[0].id] = st.value.value
    if "GRAM" not in names or "SECOND" not in names:
        raise ExtractError("general_const.Unit_Constants.GRAM/SECOND not found")
    return {"tables": tables, "spans": spans, "defaults": defaults, "gas_constant": fracs[0],
            "grams_per_tonne": ints[0], "fingerprint": fp, "gram": names["GRAM"], "second": names["SECOND"],
            "unit_names": names}


def read_seed_range():
    path = os.path.join(shim.REPO_SRC, "initialization", "preseed.py")
    src = open(path).read()
    fn = None
    for node in ast.parse(src).body:
        if isinstance(node, ast.FunctionDef) and node.name == "gen_seed_emis":
            fn = node
    if fn is None:
        raise ExtractError("preseed.py: gen_seed_emis not found")
    calls = []
    for node in ast.walk(fn):
        if isinstance(node, ast.Call) and isinstance(node.func, ast.Attribute) and node.func.attr == "randint":
            if len(node.args) != 2 or node.keywords:
                raise ExtractError(f"preseed.py:{node.lineno}: randint(low, high) expected")
            calls.append((node.lineno, int(_num(src, node.args[0])), int(_num(src, node.args[1]))))
    if not calls:
        raise ExtractError("preseed.py: gen_seed_emis draws no randint any more (seed procedure changed)")
    if len({(lo, hi) for _, lo, hi in calls}) != 1:
        raise ExtractError(f"preseed.py: different randint ranges in gen_seed_emis: {calls}")
    fp = hashlib.sha256(ast.dump(fn).encode()).hexdigest()[:16]
    return {"low": calls[0][1], "high": calls[0][2], "sites": sorted(c[0] for c in calls), "fingerprint": fp}


_IDX_NAMES = {"i": "i", "n_simulation_saved": "nSaved", "n_sims": "n"}
_IDX_OPS = {ast.Add: "+", ast.Sub: "-", ast.Mult: "*", ast.FloorDiv: "/", ast.Mod: "%"}


def _idx_to_lean(node):
    if isinstance(node, ast.Name) and node.id in _IDX_NAMES:
        return _IDX_NAMES[node.id]
    if isinstance(node, ast.Constant) and isinstance(node.value, int) and not isinstance(node.value, bool) \
            and node.value >= 0:
        return str(node.value)
    if isinstance(node, ast.BinOp) and type(node.op) in _IDX_OPS:
        return f"({_idx_to_lean(node.left)} {_IDX_OPS[type(node.op)]} {_idx_to_lean(node.right)})"
    raise ExtractError(f"initialize_emissions.py:{getattr(node, 'lineno', '?')}: seed index expression "
                       f"{ast.unparse(node)!r} is outside the translatable subset")


def read_seed_index():
    """the expression inside emis_preseed_val[...] handed to np.random.seed in the two generation loops of
    initialize_emissions (fresh run: `for i in range(n_sims)`, extension: `for i in range(n_simulation_saved, n_sims)`)"""
    path = os.path.join(shim.REPO_SRC, "initialization", "initialize_emissions.py")
    src = open(path).read()
    fn = None
    for node in ast.parse(src).body:
        if isinstance(node, ast.FunctionDef) and node.name == "initialize_emissions":
            fn = node
    if fn is None:
        raise ExtractError("initialize_emissions.py: initialize_emissions not found")
    loops = []
    for node in ast.walk(fn):
        if isinstance(node, ast.For) and isinstance(node.target, ast.Name) and isinstance(node.iter, ast.Call) \
                and isinstance(node.iter.func, ast.Name) and node.iter.func.id == "range":
            seeds = [c for c in ast.walk(node) if isinstance(c, ast.Call) and isinstance(c.func, ast.Attribute)
                     and c.func.attr == "seed"]
            if not seeds:
                continue
            if len(seeds) != 1 or len(seeds[0].args) != 1:
                raise ExtractError(f"initialize_emissions.py:{node.lineno}: one np.random.seed(x) per loop expected")
            arg = seeds[0].args[0]
            if not (isinstance(arg, ast.Subscript) and isinstance(arg.value, ast.Name)
                    and arg.value.id == "emis_preseed_val"):
                raise ExtractError(f"initialize_emissions.py:{arg.lineno}: np.random.seed(emis_preseed_val[...]) expected, "
                                   f"found {ast.unparse(arg)!r}")
            if node.target.id != "i":
                raise ExtractError(f"initialize_emissions.py:{node.lineno}: loop variable is no longer `i`")
            loops.append({"line": node.lineno, "range": ast.unparse(node.iter), "nargs": len(node.iter.args),
                          "index_src": ast.unparse(arg.slice), "index_lean": _idx_to_lean(arg.slice)})
    fresh = [l for l in loops if l["nargs"] == 1]
    ext = [l for l in loops if l["nargs"] == 2]
    if len(fresh) != 1 or len(ext) != 1:
        raise ExtractError(f"initialize_emissions.py: expected one fresh and one extension loop, found {loops}")
    fp = hashlib.sha256(ast.dump(fn).encode()).hexdigest()[:16]
    return {"fresh": fresh[0], "extend": ext[0], "fingerprint": fp}


_NUM_NAMES = {"batch_count": "b", "sim_count": "c", "simulation": "k"}


def _num_to_lean(node):
    if isinstance(node, ast.Name) and node.id in _NUM_NAMES:
        return _NUM_NAMES[node.id]
    if isinstance(node, ast.Constant) and isinstance(node.value, int) and not isinstance(node.value, bool) \
            and node.value >= 0:
        return str(node.value)
    if isinstance(node, ast.BinOp) and type(node.op) in _IDX_OPS:
        return f"({_num_to_lean(node.left)} {_IDX_OPS[type(node.op)]} {_num_to_lean(node.right)})"
    raise ExtractError(f"simulation_manager.py:{getattr(node, 'lineno', '?')}: simulation number expression "
                       f"{ast.unparse(node)!r} is outside the translatable subset")


def read_sim_number():
    """the expression assigned to `simulation_number` inside the batch loops of SimulationManager
    (_run_simulations_debug and _run_simulation_multiprocessing)"""
    path = os.path.join(shim.REPO_SRC, "simulation", "simulation_manager.py")
    tree = ast.parse(open(path).read())
    cls = next((n for n in tree.body if isinstance(n, ast.ClassDef) and n.name == "SimulationManager"), None)
    if cls is None:
        raise ExtractError("simulation_manager.py: class SimulationManager not found")
    out = {}
    for meth, key in (("_run_simulations_debug", "debug"), ("_run_simulation_multiprocessing", "pool")):
        fn = next((n for n in cls.body if isinstance(n, ast.FunctionDef) and n.name == meth), None)
        if fn is None:
            raise ExtractError(f"simulation_manager.py: SimulationManager.{meth} not found")
        found = []
        for outer in ast.walk(fn):
            if isinstance(outer, ast.For) and isinstance(outer.iter, ast.Call) and isinstance(outer.iter.func, ast.Name) \
                    and outer.iter.func.id == "enumerate" and isinstance(outer.target, ast.Tuple) \
                    and [getattr(e, "id", None) for e in outer.target.elts] == ["batch_count", "sim_count"]:
                for inner in ast.walk(outer):
                    if isinstance(inner, ast.For) and isinstance(inner.target, ast.Name) and inner.target.id == "simulation" \
                            and ast.unparse(inner.iter) == "range(sim_count)":
                        for st in ast.walk(inner):
                            tgt = st.target if isinstance(st, ast.AnnAssign) else \
                                (st.targets[0] if isinstance(st, ast.Assign) and len(st.targets) == 1 else None)
                            if isinstance(tgt, ast.Name) and tgt.id == "simulation_number" and st.value is not None:
                                found.append(st)
        if len(found) != 1:
            raise ExtractError(f"simulation_manager.py: {meth}: expected one assignment of simulation_number inside "
                               f"`for batch_count, sim_count in enumerate(...)` / `for simulation in range(sim_count)`, "
                               f"found {len(found)}")
        out[key] = {"line": found[0].lineno, "src": ast.unparse(found[0].value), "lean": _num_to_lean(found[0].value)}
    out["fingerprint"] = hashlib.sha256("".join(
        ast.dump(n) for n in cls.body if isinstance(n, ast.FunctionDef)
        and n.name in ("run_simulations", "_run_simulations_debug", "_run_simulation_multiprocessing")).encode()).hexdigest()[:16]
    return out


def render_sim_number(sn) -> str:
    return f"""/-
GENERATED by harness/extract/units.py from /repo/LDAR_Sim/src/simulation/simulation_manager.py — rewritten on
every run of ./check C16, do not edit.  The expression assigned to `simulation_number` in
_run_simulations_debug (line {sn['debug']['line']}: `{sn['debug']['src']}`) and in
_run_simulation_multiprocessing (line {sn['pool']['line']}: `{sn['pool']['src']}`);
b = batch_count, c = sim_count, k = simulation.   fingerprint of the three run methods: {sn['fingerprint']}
-/
set_option linter.unusedVariables false
namespace LdarModel.Generated.SimNumber

def simNumberDebug (b c k : Nat) : Nat := {sn['debug']['lean']}
def simNumberPool (b c k : Nat) : Nat := {sn['pool']['lean']}

end LdarModel.Generated.SimNumber
"""


def _contains_marker_removal(node, name="n_sim_loc"):
    for c in ast.walk(node):
        if isinstance(c, ast.Call) and isinstance(c.func, ast.Attribute):
            if c.func.attr == "remove" and c.args and isinstance(c.args[0], ast.Name) and c.args[0].id == name:
                return True
            if c.func.attr == "unlink" and isinstance(c.func.value, ast.Name) and c.func.value.id == name:
                return True
    return False


def _opens(node, name):
    """`with open(<name>, "wb") as f:`"""
    if not isinstance(node, ast.With):
        return False
    for it in node.items:
        c = it.context_expr
        if isinstance(c, ast.Call) and isinstance(c.func, ast.Name) and c.func.id == "open" and c.args \
                and isinstance(c.args[0], ast.Name) and c.args[0].id == name:
            mode = c.args[1].value if len(c.args) > 1 and isinstance(c.args[1], ast.Constant) else ""
            if "w" in str(mode):
                return True
    return False


def _scan_blocks(stmts, removed, looped, hits_hash, hits_marker):
    """walk statement lists in order; record, for every write of the hash file, whether the marker was removed
    earlier on the path, and for every write of the marker, whether a for-loop precedes it in its block"""
    for st in stmts:
        if _opens(st, "hash_file_loc"):
            hits_hash.append((st.lineno, removed))
        if _opens(st, "n_sim_loc"):
            hits_marker.append((st.lineno, looped))
        for field in ("body", "orelse", "finalbody", "handlers"):
            sub = getattr(st, field, None)
            if isinstance(sub, list) and sub and not _opens(st, "hash_file_loc") and not _opens(st, "n_sim_loc"):
                inner = [x for h in sub for x in (h.body if isinstance(h, ast.ExceptHandler) else [h])]
                if isinstance(st, ast.If) and _contains_marker_removal(st) and not any(
                        isinstance(x, (ast.With, ast.For)) for x in ast.walk(st)):
                    continue        # `if os.path.isfile(n_sim_loc): os.remove(n_sim_loc)` — handled below
                _scan_blocks(inner, removed, False if isinstance(st, (ast.If, ast.For, ast.While, ast.Try, ast.With)) else looped,
                             hits_hash, hits_marker)
        if _contains_marker_removal(st) and not any(isinstance(x, (ast.With, ast.For)) for x in ast.walk(st)):
            removed = True
        if isinstance(st, (ast.For, ast.While)):
            looped = True


def read_marker_order():
    """where n_sim_saved.p (the marker of a complete scenario set) is removed and written"""
    out = {}
    src = open(os.path.join(shim.REPO_SRC, "initialization", "initialize_infrastructure.py")).read()
    fn = next((n for n in ast.parse(src).body if isinstance(n, ast.FunctionDef) and n.name == "initialize_infrastructure"), None)
    if fn is None:
        raise ExtractError("initialize_infrastructure.py: initialize_infrastructure not found")
    hh, hm = [], []
    _scan_blocks(fn.body, False, False, hh, hm)
    if not hh:
        raise ExtractError("initialize_infrastructure.py: no write of hash_file_loc found")
    out["infra_hash_writes"] = hh
    out["in_infra"] = all(r for _, r in hh)
    src = open(os.path.join(shim.REPO_SRC, "initialization", "initialize_emissions.py")).read()
    fn = next((n for n in ast.parse(src).body if isinstance(n, ast.FunctionDef) and n.name == "initialize_emissions"), None)
    if fn is None:
        raise ExtractError("initialize_emissions.py: initialize_emissions not found")
    regen = next((n for n in fn.body if isinstance(n, ast.If) and "hash_file_exist" in ast.unparse(n.test)), None)
    if regen is None:
        raise ExtractError("initialize_emissions.py: `if not hash_file_exist or force_remake` not found")
    first_loop = next((k for k, st in enumerate(regen.body) if isinstance(st, ast.For)), None)
    if first_loop is None:
        raise ExtractError("initialize_emissions.py: generation loop of the regeneration branch not found")
    out["in_emis"] = any(_contains_marker_removal(st) for st in regen.body[:first_loop])
    hh2, hm2 = [], []
    _scan_blocks(fn.body, False, False, hh2, hm2)
    if not hm2:
        raise ExtractError("initialize_emissions.py: no write of n_sim_loc found")
    out["marker_writes"] = hm2
    out["marker_after_files"] = all(l for _, l in hm2)
    return out


def render_marker(m) -> str:
    b = lambda x: "true" if x else "false"  # noqa: E731
    return f"""/-
GENERATED by harness/extract/units.py from /repo/LDAR_Sim/src/initialization/initialize_infrastructure.py and
initialize_emissions.py — rewritten on every run of ./check C16, do not edit.
writes of the hash file in initialize_infrastructure (line, marker removed before it): {m['infra_hash_writes']}
writes of the marker n_sim_saved.p in initialize_emissions (line, after the generation loop of its block): {m['marker_writes']}
-/
namespace LdarModel.Generated.GenMarker

/-- every branch of initialize_infrastructure that writes new hashes removes n_sim_saved.p first -/
def removedInInfrastructure : Bool := {b(m['in_infra'])}
/-- the regeneration branch of initialize_emissions removes n_sim_saved.p before its generation loop -/
def removedInEmissions : Bool := {b(m['in_emis'])}
/-- n_sim_saved.p is written only after the generation loop of its block -/
def markerWrittenAfterFiles : Bool := {b(m['marker_after_files'])}

end LdarModel.Generated.GenMarker
"""


# ------------------------------------------------------------------------------------------------
def lean_rat(x: Fraction) -> str:
    n, d = x.numerator, x.denominator
    s = f"({n} : Rat)" if n >= 0 else f"(-{-n} : Rat)"
    return s if d == 1 else f"({s} / {d})"


def lean_str(s: str) -> str:
    return '"' + s.replace("\\", "\\\\").replace('"', '\\"') + '"'


def render_units(u) -> str:
    t = u["tables"]
    d = u["defaults"]

    def metrics(name):
        return ",\n".join(
            f"    {{ name := {lean_str(k)}, perUnit := {lean_rat(e['per_unit'])}, isMass := {'true' if e['type'] == 'mass' else 'false'} }}"
            for k, e in t[name].items())

    def affine(name):
        return ",\n".join(
            f"    {{ name := {lean_str(k)}, scale := {lean_rat(e['scale'])}, offset := {lean_rat(e['offset'])} }}"
            for k, e in t[name].items())

    def pairs(items):
        return ",\n".join(f"    ({lean_str(k)}, {lean_rat(v)})" for k, v in items)

    sp = u["spans"]
    return f"""import LdarModel.Model.Units
/-
GENERATED by harness/extract/units.py from /repo/LDAR_Sim/src/utils/unit_converter.py and
constants/general_const.py — rewritten on every run of ./check C16, do not edit.
source spans (lines): {', '.join(f'{k} {a}-{b}' for k, (a, b) in sp.items())}
fingerprint of the body of gas_convert: {u['fingerprint']}
-/
namespace LdarModel.Generated.Units
open LdarModel.Units

def table : Table where
  substances := [
{pairs((k, e['n']) for k, e in t['substances'].items())}
  ]
  inMetrics := [
{metrics('in_metrics')}
  ]
  outMetrics := [
{metrics('out_metrics')}
  ]
  increments := [
{pairs(t['increments'].items())}
  ]
  tempUnits := [
{affine('temperature_units')}
  ]
  presUnits := [
{affine('pressure_units')}
  ]
  gasConstant := {lean_rat(u['gas_constant'])}
  gramsPerTonne := {lean_rat(u['grams_per_tonne'])}
  defaults := {{
    q := {lean_rat(d['input_quantity'])}
    inSubstance := {lean_str(d['input_substance'])}
    inMetric := {lean_str(d['input_metric'])}
    inIncrement := {lean_str(d['input_increment'])}
    outSubstance := {lean_str(d['output_substance'])}
    outMetric := {lean_str(d['output_metric'])}
    outIncrement := {lean_str(d['output_increment'])}
    ngComp := {lean_rat(d['NG_comp'])}
    t := {lean_rat(d['T'])}
    p := {lean_rat(d['P'])}
    tempUnit := {lean_str(d['temperature_unit'])}
    presUnit := {lean_str(d['pressure_unit'])}
    gwp := {lean_rat(d['GWP'])} }}
  gramName := {lean_str(u['gram'])}
  secondName := {lean_str(u['second'])}

end LdarModel.Generated.Units
"""


def render_seed(s, ix) -> str:
    return f"""/-
GENERATED by harness/extract/units.py — rewritten on every run of ./check C16, do not edit.
from /repo/LDAR_Sim/src/initialization/preseed.py: gen_seed_emis, np.random.randint call sites at lines
{s['sites']}; fingerprint of gen_seed_emis: {s['fingerprint']}
from /repo/LDAR_Sim/src/initialization/initialize_emissions.py: the index handed to
np.random.seed(emis_preseed_val[...]) in the fresh-run loop (line {ix['fresh']['line']}, `{ix['fresh']['range']}`,
index `{ix['fresh']['index_src']}`) and in the extension loop (line {ix['extend']['line']}, `{ix['extend']['range']}`,
index `{ix['extend']['index_src']}`); fingerprint of initialize_emissions: {ix['fingerprint']}
-/
set_option linter.unusedVariables false
namespace LdarModel.Generated.EmisSeed

/-- `np.random.randint(seedLow, seedHigh)`: values `seedLow ≤ v < seedHigh` -/
def seedLow : Nat := {s['low']}
def seedHigh : Nat := {s['high']}

/-- seed index of the fresh-run loop (`i` loop variable, `nSaved` n_simulation_saved, `n` n_sims) -/
def seedIdxFresh (i nSaved n : Nat) : Nat := {ix['fresh']['index_lean']}
/-- seed index of the extension loop -/
def seedIdxExtend (i nSaved n : Nat) : Nat := {ix['extend']['index_lean']}

def seedIdx (fresh : Bool) (i nSaved n : Nat) : Nat :=
  if fresh then seedIdxFresh i nSaved n else seedIdxExtend i nSaved n

end LdarModel.Generated.EmisSeed
"""


def _write_if_changed(path, text):
    old = open(path).read() if os.path.exists(path) else None
    if old != text:
        os.makedirs(os.path.dirname(path), exist_ok=True)
        with open(path, "w") as fh:
            fh.write(text)
        return True
    return False


def regenerate():
    """returns (units_info, seed_info, changed_files)"""
    u = read_unit_tables()
    s = read_seed_range()
    ix = read_seed_index()
    s["index"] = ix
    if s["low"] < 0 or s["high"] < 0:
        raise ExtractError("negative randint bounds are outside the seed model")
    changed = []
    if _write_if_changed(os.path.join(LEAN_GEN, "Units.lean"), render_units(u)):
        changed.append("Generated/Units.lean")
    if _write_if_changed(os.path.join(LEAN_GEN, "EmisSeed.lean"), render_seed(s, ix)):
        changed.append("Generated/EmisSeed.lean")
    return u, s, changed


def extract():
    """tools/regen.sh protocol: everything this module generates, read from the current LDAR_REPO"""
    u = read_unit_tables()
    sd = read_seed_range()
    sd["index"] = read_seed_index()
    return {"units": u, "seed": sd, "sim_number": read_sim_number(), "marker": read_marker_order()}


def write(x):
    _write_if_changed(os.path.join(LEAN_GEN, "Units.lean"), render_units(x["units"]))
    _write_if_changed(os.path.join(LEAN_GEN, "EmisSeed.lean"), render_seed(x["seed"], x["seed"]["index"]))
    _write_if_changed(os.path.join(LEAN_GEN, "SimNumber.lean"), render_sim_number(x["sim_number"]))
    _write_if_changed(os.path.join(LEAN_GEN, "GenMarker.lean"), render_marker(x["marker"]))


if __name__ == "__main__":
    u, s, ch = regenerate()
    print("changed:", ch, "fingerprints:", u["fingerprint"], s["fingerprint"])
