"""ast extractor for C08 / C10: state that could survive between cases in one process, and the
argument order of pickling round trips, for the modules the crew / cost models cover
-> lean/LdarModel/Generated/CrewCost.lean (rewritten on every run of ./check C08 and ./check C10).

Per module:
  * class-level and module-level mutable containers (dict / list / set literals, comprehensions,
    dict()/list()/set()/defaultdict()/... calls)
  * every place inside a function that mutates one of them: method calls .append/.extend/.update/...,
    subscript / attribute stores, augmented assignment, del, `global`; class-level containers are
    recognised through `self.<name>`, `cls.<name>` and `<Class>.<name>`; a name imported from another
    module (e.g. TIMESERIES_COLUMNS) counts when it is bound to a local alias that is then mutated
  * functions decorated with a cache
  * copy / pickle hooks, and for every class with `__reduce__` + `_reconstruct` the attribute list of
    the argument tuple and the attribute each `_reconstruct` parameter is stored into
"""
from __future__ import annotations

import ast
import os

from harness import shim
from harness.extract.units import ExtractError, LEAN_GEN, _write_if_changed, lean_str

MODULES = {
    "method": ("programs", "method.py"),
    "component_level_method": ("programs", "component_level_method.py"),
    "site_level_method": ("programs", "site_level_method.py"),
    "equipment_group_level_method": ("programs", "equipment_group_level_method.py"),
    "schedule_dataclasses": ("scheduling", "schedule_dataclasses.py"),
    "workplan": ("scheduling", "workplan.py"),
    "survey_planner": ("scheduling", "survey_planner.py"),
    "output_utils": ("file_processing", "output_processing", "output_utils.py"),
    "program_output_manager": ("file_processing", "output_processing", "program_output_manager.py"),
    "weather_lookup": ("weather", "weather_lookup.py"),
    "daylight_calculator": ("weather", "daylight_calculator.py"),
    "repairable_emission": ("virtual_world", "emission_types", "repairable_emission.py"),
}
CONTAINER_CALLS = {"dict", "list", "set", "defaultdict", "OrderedDict", "Counter", "deque", "SortedList"}
MUTATORS = {"append", "extend", "update", "insert", "pop", "clear", "setdefault", "remove", "add", "popitem",
            "discard", "sort", "reverse"}
CACHES = {"lru_cache", "cache", "cached_property"}
HOOKS = {"__deepcopy__", "__copy__", "__reduce__", "__reduce_ex__", "__getstate__", "__setstate__"}
UPPER = lambda n: n.isupper() or (n.upper() == n and "_" in n)  # noqa: E731


def _is_container(v):
    if isinstance(v, (ast.Dict, ast.List, ast.Set, ast.ListComp, ast.DictComp, ast.SetComp)):
        return True
    if isinstance(v, ast.Call):
        f = v.func
        name = f.id if isinstance(f, ast.Name) else f.attr if isinstance(f, ast.Attribute) else None
        return name in CONTAINER_CALLS
    return False


def _targets(node):
    if isinstance(node, ast.Assign):
        return [t.id for t in node.targets if isinstance(t, ast.Name)], node.value
    if isinstance(node, ast.AnnAssign) and isinstance(node.target, ast.Name) and node.value is not None:
        return [node.target.id], node.value
    return [], None


def _deco_name(d):
    d = d.func if isinstance(d, ast.Call) else d
    return d.id if isinstance(d, ast.Name) else d.attr if isinstance(d, ast.Attribute) else None


def _chain(node):
    """['self', 'x'] for self.x[...]... ; None if the root is not a name"""
    parts = []
    while isinstance(node, (ast.Subscript, ast.Attribute)):
        if isinstance(node, ast.Attribute):
            parts.append(node.attr)
        node = node.value
    if isinstance(node, ast.Name):
        parts.append(node.id)
        return parts[::-1]
    return None


def scan():
    out = {"class_level": [], "module_level": [], "mutations": [], "cached": [], "hooks": [], "pickle": []}
    for mod, rel in MODULES.items():
        path = os.path.join(shim.REPO_SRC, *rel)
        if not os.path.exists(path):
            raise ExtractError("missing module " + "/".join(rel))
        tree = ast.parse(open(path).read())
        shared = set()          # names of module-level containers and of imported ALL_CAPS names
        for node in tree.body:
            names, val = _targets(node)
            if names and _is_container(val):
                for n in names:
                    shared.add(n)
                    out["module_level"].append((mod, n))
            if isinstance(node, ast.ImportFrom):
                for a in node.names:
                    nm = a.asname or a.name
                    if UPPER(nm):
                        shared.add(nm)
        class_names = {}
        for node in ast.walk(tree):
            if isinstance(node, ast.ClassDef):
                for st in node.body:
                    names, val = _targets(st)
                    if names and _is_container(val):
                        for n in names:
                            out["class_level"].append((mod, node.name, n))
                            class_names.setdefault(node.name, set()).add(n)
                    if isinstance(st, (ast.FunctionDef, ast.AsyncFunctionDef)) and st.name in HOOKS:
                        out["hooks"].append((mod, node.name, st.name))
                red = next((n for n in node.body if isinstance(n, ast.FunctionDef) and n.name == "__reduce__"), None)
                rec = next((n for n in node.body if isinstance(n, ast.FunctionDef) and n.name == "_reconstruct"), None)
                if red is not None and rec is not None:
                    tup = None
                    for sub in ast.walk(red):
                        if isinstance(sub, ast.Assign) and isinstance(sub.value, ast.Tuple) and sub.value.elts and \
                                all(isinstance(e, ast.Attribute) for e in sub.value.elts):
                            tup = sub.value
                    if tup is None:
                        raise ExtractError("%s.%s.__reduce__: argument tuple not found" % (mod, node.name))
                    params = [a.arg for a in rec.args.args][1:]
                    stored = {}
                    for sub in ast.walk(rec):
                        if isinstance(sub, ast.Assign) and len(sub.targets) == 1 and isinstance(sub.targets[0], ast.Attribute) \
                                and isinstance(sub.value, ast.Name) and sub.value.id in params:
                            stored.setdefault(sub.value.id, sub.targets[0].attr)
                    out["pickle"].append((mod, node.name, [e.attr for e in tup.elts],
                                          [stored.get(p_, "?" + p_) for p_ in params]))
        all_class_attrs = set().union(*class_names.values()) if class_names else set()
        for node in ast.walk(tree):
            if not isinstance(node, (ast.FunctionDef, ast.AsyncFunctionDef)):
                continue
            for d in node.decorator_list:
                if _deco_name(d) in CACHES:
                    out["cached"].append((mod, node.name))
            local = {a.arg for a in node.args.args + node.args.kwonlyargs} - {"self", "cls"}
            alias = {}   # local alias -> shared name it was bound to (ts_columns = TIMESERIES_COLUMNS)
            for sub in ast.walk(node):
                if isinstance(sub, ast.Assign) and len(sub.targets) == 1 and isinstance(sub.targets[0], ast.Name) \
                        and isinstance(sub.value, ast.Name) and sub.value.id in shared:
                    alias[sub.targets[0].id] = sub.value.id

            def shared_root(expr):
                ch = _chain(expr)
                if not ch:
                    return None
                if ch[0] in alias:
                    return alias[ch[0]]
                if ch[0] in shared and ch[0] not in local:
                    return ch[0]
                if len(ch) >= 2 and (ch[0] in ("self", "cls") or ch[0] in class_names) and ch[1] in all_class_attrs:
                    return ch[0] + "." + ch[1] if ch[0] in class_names else ch[1]
                return None

            for sub in ast.walk(node):
                if isinstance(sub, ast.Global):
                    for n in sub.names:
                        out["mutations"].append((mod, node.name, n))
                if isinstance(sub, ast.Call) and isinstance(sub.func, ast.Attribute) and sub.func.attr in MUTATORS:
                    r = shared_root(sub.func.value)
                    if r:
                        out["mutations"].append((mod, node.name, r))
                if isinstance(sub, (ast.Assign, ast.AugAssign, ast.Delete)):
                    tg = sub.targets if isinstance(sub, (ast.Assign, ast.Delete)) else [sub.target]
                    for t in tg:
                        if isinstance(t, ast.Subscript):
                            r = shared_root(t)
                            if r:
                                out["mutations"].append((mod, node.name, r))
                        if isinstance(t, ast.Attribute):
                            ch = _chain(t)
                            if ch and len(ch) == 2 and (ch[0] == "cls" or ch[0] in class_names):
                                out["mutations"].append((mod, node.name, ch[0] + "." + ch[1]))
                    if isinstance(sub, ast.AugAssign) and isinstance(sub.target, ast.Name) and sub.target.id in alias:
                        out["mutations"].append((mod, node.name, alias[sub.target.id]))
    for k in ("class_level", "module_level", "mutations", "cached", "hooks"):
        out[k] = sorted(set(out[k]))
    out["pickle"] = sorted(out["pickle"])
    return out


def _tuples(rows):
    if not rows:
        return "[]"
    return "[\n" + ",\n".join("    (" + ", ".join(lean_str(str(x)) for x in r) + ")" for r in rows) + "\n  ]"


def render(st) -> str:
    strs = lambda l: "[" + ", ".join(lean_str(x) for x in l) + "]"  # noqa: E731
    pick = "[\n" + ",\n".join("    (%s, %s, %s, %s)" % (lean_str(m), lean_str(c), strs(a), strs(b))
                              for (m, c, a, b) in st["pickle"]) + "\n  ]" if st["pickle"] else "[]"
    return f"""/-
GENERATED by harness/extract/crewcost.py from /repo/LDAR_Sim/src ({', '.join('/'.join(v) for v in MODULES.values())})
— rewritten on every run of ./check C08 and ./check C10, do not edit.
State that could survive between cases in one process, and the argument order of pickling round trips.
-/
namespace LdarModel.Generated.CrewCost

/-- (module, class, attribute): class-level mutable containers -/
def classLevelContainers : List (String × String × String) := {_tuples(st['class_level'])}

/-- (module, name): module-level mutable containers -/
def moduleLevelContainers : List (String × String) := {_tuples(st['module_level'])}

/-- (module, function, container): places inside a function that mutate a class-level, module-level or
imported ALL_CAPS container (also through a local alias) -/
def sharedContainerMutations : List (String × String × String) := {_tuples(st['mutations'])}

/-- (module, function): functions decorated with a cache -/
def cachedFunctions : List (String × String) := {_tuples(st['cached'])}

/-- (module, class, method): copy / pickle hooks -/
def copyHooks : List (String × String × String) := {_tuples(st['hooks'])}

/-- (module, class, attributes in the argument tuple of `__reduce__`, attribute each positional
parameter of `_reconstruct` is stored into) -/
def pickleOrder : List (String × String × List String × List String) := {pick}

end LdarModel.Generated.CrewCost
"""


def extract():
    return scan()


def write(st):
    return _write_if_changed(os.path.join(LEAN_GEN, "CrewCost.lean"), render(st))


def regenerate():
    st = scan()
    return st, (["Generated/CrewCost.lean"] if write(st) else [])


if __name__ == "__main__":
    st, ch = regenerate()
    print(ch)
    for k, v in st.items():
        print(k, v)
