"""py2lean — a small translator from a subset of Python methods to pure Lean 4 functions (DESIGN.md
layer 3, Appendix C).

The object a method mutates becomes a Lean record `Obj`; a method `m(self, a, b) -> R` of the *final*
class `F` becomes

    def F__Owner__m (o : Obj) (a : A) (b : B) : Obj × R

(`Owner` = the class of F's MRO that defines this body).  `self.g(..)` is resolved through F's MRO
(virtual dispatch), `super().g(..)` through the MRO after `Owner`.  Statements are translated in
continuation style (`if` duplicates the rest of the block into both branches), so early `return`s need
no special treatment.  Calls whose result the model treats as an input (e.g. `random.choice`) read a
designated `env_*` field of `Obj`.

Accepted subset: assignments / augmented assignments to `self._x`, to attributes of a parameter
declared as a record that lives inside `Obj` (e.g. the `EmisInfo` counters) and to local names;
`if/elif/else`; `return`; expression statements that are method calls or docstrings; integer / boolean
constants, `None`, names, `self._x`, enum constants (`ec.X`), `+ - * //  %`, comparisons, `is (not)
None`, `and / or / not` on booleans, conditional expressions, `max / min / abs / int`,
`timedelta(days=e)`, `(a - b).days`.  Anything else raises `Untranslatable` for that method (the
caller records it; it is not an alarm).

The translator is part of the trusted base of every theorem that mentions a generated definition:
what is proved is a statement about the *translation*.
"""
import ast


class Untranslatable(Exception):
    pass


LEAN_KEYWORDS = {
    "end", "from", "at", "do", "then", "else", "if", "let", "have", "show", "fun", "match", "with", "in",
    "def", "theorem", "structure", "where", "open", "section", "namespace", "instance", "class", "by",
    "type", "Type", "Prop", "Sort", "import", "return", "for", "mut", "true", "false", "o", "r", "id",
}


def lname(n: str) -> str:
    n = n.lstrip("_") or n
    return n + "_" if n in LEAN_KEYWORDS else n


class ClassInfo:
    def __init__(self, name, bases, methods, path):
        self.name, self.bases, self.methods, self.path = name, bases, methods, path


def load_classes(paths):
    out = {}
    for p in paths:
        tree = ast.parse(open(p).read(), p)
        for node in tree.body:
            if isinstance(node, ast.ClassDef):
                bases = []
                for b in node.bases:
                    if isinstance(b, ast.Name):
                        bases.append(b.id)
                    elif isinstance(b, ast.Attribute):
                        bases.append(b.attr)
                methods = {n.name: n for n in node.body if isinstance(n, ast.FunctionDef)}
                out[node.name] = ClassInfo(node.name, bases, methods, p)
    return out


def c3(classes, name):
    """C3 linearisation; bases that are not loaded (object, ABC, ...) are ignored"""
    ci = classes[name]
    bases = [b for b in ci.bases if b in classes]
    seqs = [c3(classes, b) for b in bases] + [list(bases)]
    res = [name]
    seqs = [s for s in seqs if s]
    while seqs:
        for s in seqs:
            h = s[0]
            if not any(h in t[1:] for t in seqs):
                break
        else:
            raise Untranslatable("inconsistent MRO for " + name)
        res.append(h)
        seqs = [[x for x in s if x != h] for s in seqs]
        seqs = [s for s in seqs if s]
    return res


class Schema:
    """what the translator is told about the objects (hand-written per component)

    fields       {python attribute of self: lean type}      types: Int Bool OptInt OptNat or an enum name
    records      {python type name: {attribute: lean type}}  parameters of such a type live inside Obj;
                                                             their attributes become fields `<prefix>_<attr>`
    record_prefix{python type name: prefix}
    enums        {enum name: {python constant value: lean constructor}}   + "none": ctor for None, "wrap": ctor for ids
    consts       {"ec.ACTIVE": "active", ...}  values of the module-level constants, read from the source
    const_env    {"cc.X": env field}  numeric constants kept symbolic
    opaque_calls {callee name: (env field, lean type)}
    param_types  {param name: lean type}   for parameters without a usable annotation
    ann_types    {annotation text: lean type or None (dropped)}
    """

    def __init__(self, **kw):
        self.fields = kw.get("fields", {})
        self.records = kw.get("records", {})
        self.record_prefix = kw.get("record_prefix", {})
        self.enums = kw.get("enums", {})
        self.consts = kw.get("consts", {})
        self.const_env = kw.get("const_env", {})
        self.opaque_calls = kw.get("opaque_calls", {})
        self.param_types = kw.get("param_types", {})
        self.ignored_calls = kw.get("ignored_calls", set())   # statement calls whose effect lies outside the model
        # {python expression text: (lean field, lean type)}: any expression (a dict lookup, an attribute of a
        # collaborator, ...) the model keeps as one field of Obj; may be read and, if it is a valid target, assigned
        self.aliases = kw.get("aliases", {})
        # {callee attribute name: label}: calls on collaborators whose only modelled effect is that they happened;
        # translated as appending the label to `o.effects : List String`
        self.effect_calls = kw.get("effect_calls", {})
        # [(container text, attribute or None, lean field, index type, value type)]: `container[i].attr` (or
        # `container[i]`) is the function field `field : index type → value type` applied to i; assignable
        self.indexed = kw.get("indexed", [])
        self.num = kw.get("num", "Int")                       # lean type numbers are read as ("Int" or "Rat")
        self.ann_types = dict({"int": "Int", "float": "Int", "bool": "Bool", "date": "Int", "str": "Nat",
                               "None": "Unit"}, **kw.get("ann_types", {}))

    def env_fields(self):
        out = {}
        for f, t in self.opaque_calls.values():
            out[f] = t
        for f in self.const_env.values():
            out[f] = "Int"
        return out

    def obj_fields(self):
        out = []
        for a, t in self.fields.items():
            out.append((lname(a), t))
        for rn, attrs in self.records.items():
            for a, t in attrs.items():
                out.append((self.record_prefix[rn] + "_" + a, t))
        for f, t in self.env_fields().items():
            out.append((f, t))
        seen = {f for f, _ in out}
        for f, t in self.aliases.values():
            if f not in seen:
                seen.add(f)
                out.append((f, t))
        for _c, _a, f, it, vt in self.indexed:
            if f not in seen:
                seen.add(f)
                out.append((f, f"{self.lean_type(it)} → {self.lean_type(vt)}"))
        if self.effect_calls:
            out.append(("effects", "List String"))
        return out

    def has_function_fields(self):
        return bool(self.indexed)

    def lean_type(self, t):
        return {"Int": self.num, "OptInt": "Option " + self.num, "OptNat": "Option Nat"}.get(t, t)


class Translator:
    def __init__(self, classes, schema, obj="Obj"):
        self.classes, self.schema, self.obj = classes, schema, obj
        self.defs = {}          # lean name -> text
        self.order = []
        self.sigs = {}          # lean name -> (params [(name,type)], ret type, pure)
        self.in_progress = set()
        self.failed = {}        # (final, method) -> reason
        self.ignored = []       # statement calls skipped because the schema lists them as outside the model
        self.ret_parts = {}     # lean name -> [type tag of each returned component]

    # ---------------------------------------------------------------- resolution
    def resolve(self, final, method, after=None):
        m = c3(self.classes, final)
        if after is not None:
            m = m[m.index(after) + 1:]
        for c in m:
            if method in self.classes[c].methods:
                return c
        raise Untranslatable(f"no method {method} for {final} after {after}")

    def fname(self, final, owner, method):
        return f"{final}__{owner}__{method}"

    def need(self, final, method, after=None):
        owner = self.resolve(final, method, after)
        name = self.fname(final, owner, method)
        if name in self.sigs:
            return name
        if name in self.in_progress:
            raise Untranslatable("recursion through " + name)
        self.in_progress.add(name)
        try:
            MethodTr(self, final, owner, method, name).run()
        finally:
            self.in_progress.discard(name)
        return name

    def entry(self, final, method):
        try:
            n = self.need(final, method)
            return n
        except Untranslatable as e:
            self.failed[(final, method)] = str(e)
            return None

    # ---------------------------------------------------------------- output
    def structure_text(self):
        lines = [f"structure {self.obj} where"]
        for f, t in self.schema.obj_fields():
            lines.append(f"  {f} : {self.schema.lean_type(t)}")
        lines.append("  deriving Inhabited" if self.schema.has_function_fields()
                     else "  deriving DecidableEq, Repr, Inhabited")
        return "\n".join(lines)

    def defs_text(self):
        return "\n\n".join(self.defs[n] for n in self.order)


class MethodTr:
    def __init__(self, tr, final, owner, method, name):
        self.tr, self.final, self.owner, self.method, self.name = tr, final, owner, method, name
        self.schema = tr.schema
        self.fn = tr.classes[owner].methods[method]
        self.locals = {}       # python local / param name -> lean type
        self.rec_params = {}   # param name -> record type name
        self.pure = True

    # -------------------------------------------------------------- helpers
    def fail(self, node, why):
        raise Untranslatable(f"{self.owner}.{self.method}:{getattr(node, 'lineno', '?')}: {why}")

    def ann(self, a):
        if a is None:
            return "?"
        if (isinstance(a, ast.Subscript) and ast.unparse(a.value) in ("Tuple", "tuple")
                and isinstance(a.slice, ast.Tuple)):
            parts = [self.ann(x) for x in a.slice.elts]
            kept = [p for p in parts if not isinstance(p, tuple) and p is not None]
            if any(p == "?" for p in kept) or not kept:
                return "?"
            self.tuple_ret = parts
            return " × ".join(self.schema.lean_type(p) for p in kept)
        txt = ast.unparse(a)
        if txt in self.schema.records:
            return ("record", txt)
        if txt in self.schema.ann_types:
            return self.schema.ann_types[txt]
        return "?"

    def run(self):
        fn = self.fn
        args = fn.args
        if args.vararg or args.kwarg or args.kwonlyargs or args.posonlyargs:
            self.fail(fn, "star / keyword-only parameters")
        names = [a.arg for a in args.args]
        if not names or names[0] != "self":
            self.fail(fn, "not an instance method")
        params = []
        self.pynames = []
        for a in args.args[1:]:
            t = self.ann(a.annotation)
            if isinstance(t, tuple):
                self.rec_params[a.arg] = t[1]
                self.pynames.append((a.arg, None))
                continue
            if t == "?" or a.arg in self.schema.param_types:
                t = self.schema.param_types.get(a.arg, t)
            if t == "?":
                self.fail(a, f"parameter {a.arg} has no known type")
            if t is None:
                self.pynames.append((a.arg, None))
                continue
            self.locals[a.arg] = t
            params.append((lname(a.arg), t))
            self.pynames.append((a.arg, t))
        ret = self.ann(fn.returns)
        if ret == "?" or isinstance(ret, tuple):
            ret = self.infer_ret(fn)
        self.ret = ret
        # provisional signature so that (non-recursive) callees can be typed
        body = self.block(list(fn.body), 1)
        parts = [q for q in getattr(self, "tuple_ret", []) if not isinstance(q, tuple) and q is not None]
        self.tr.ret_parts[self.name] = parts if getattr(self, "tuple_ret", None) else [ret]
        self.tr.sigs[self.name] = (params, ret, self.pure, self.pynames)
        ps = "".join(f" ({n} : {self.schema.lean_type(t)})" for n, t in params)
        text = (f"/-- `{self.owner}.{self.method}` ({self.tr.classes[self.owner].path.split('/src/')[-1]}:"
                f"{fn.lineno}) as seen from an instance of `{self.final}` -/\n"
                f"@[simp] def {self.name} (o : {self.tr.obj}){ps} : {self.tr.obj} × {self.schema.lean_type(ret)} :=\n{body}")
        self.tr.defs[self.name] = text
        self.tr.order.append(self.name)

    def infer_ret(self, fn):
        ts = set()
        for n in ast.walk(fn):
            if isinstance(n, ast.Return) and n.value is not None:
                if isinstance(n.value, ast.Constant) and isinstance(n.value.value, bool):
                    ts.add("Bool")
                elif isinstance(n.value, ast.Constant) and isinstance(n.value.value, (int, float)):
                    ts.add("Int")
                else:
                    ts.add("?")
        if not ts:
            return "Unit"
        if ts == {"Bool"}:
            return "Bool"
        if ts <= {"Int", "?"}:
            return "Int"
        self.fail(fn, "cannot infer the return type")

    def indexed_match(self, e):
        """(field, index expr, index type, value type) when `e` is `container[i].attr` / `container[i]` of the schema"""
        attr, sub = None, e
        if isinstance(e, ast.Attribute) and isinstance(e.value, ast.Subscript):
            attr, sub = e.attr, e.value
        if not isinstance(sub, ast.Subscript):
            return None
        cont = ast.unparse(sub.value)
        for c, a, f, it, vt in self.schema.indexed:
            if c == cont and a == attr:
                return f, sub.slice, it, vt
        return None

    # -------------------------------------------------------------- types
    def typeof(self, e):
        if not isinstance(e, ast.Constant) and ast.unparse(e) in self.schema.aliases:
            return self.schema.aliases[ast.unparse(e)][1]
        if self.indexed_match(e):
            return self.indexed_match(e)[3]
        if isinstance(e, ast.Constant):
            if isinstance(e.value, bool):
                return "Bool"
            if isinstance(e.value, (int, float)):
                return "Int"
            if e.value is None:
                return "None"
            return "?"
        if isinstance(e, ast.Name):
            return self.locals.get(e.id, "?")
        if isinstance(e, ast.Attribute):
            if isinstance(e.value, ast.Name) and e.value.id == "self":
                return self.schema.fields.get(e.attr, "?")
            if isinstance(e.value, ast.Name) and e.value.id in self.rec_params:
                return self.schema.records[self.rec_params[e.value.id]].get(e.attr, "?")
            if e.attr == "days":
                return "Int"
            key = ast.unparse(e)
            if key in self.schema.const_env:
                return "Int"
            if key in self.schema.consts:
                return "Const"
            return "?"
        if isinstance(e, (ast.Compare, ast.BoolOp)):
            return "Bool"
        if isinstance(e, ast.UnaryOp):
            return "Bool" if isinstance(e.op, ast.Not) else "Int"
        if isinstance(e, ast.BinOp):
            return "Int"
        if isinstance(e, ast.IfExp):
            return self.typeof(e.body)
        if isinstance(e, ast.Call):
            k = self.call_kind(e)
            if k[0] in ("self", "super"):
                name = self.tr.need(self.final, k[1], self.owner if k[0] == "super" else None)
                return self.tr.sigs[name][1]
            if k[0] == "opaque":
                return self.schema.opaque_calls[k[1]][1]
            if k[0] in ("timedelta", "int", "max", "min", "abs", "math.ceil", "math.floor"):
                return "Int"
        return "?"

    def call_kind(self, e):
        f = e.func
        if isinstance(f, ast.Attribute):
            if f.attr in self.schema.effect_calls:
                return ("effect", f.attr)
            if isinstance(f.value, ast.Name) and f.value.id == "self":
                if f.attr in self.schema.opaque_calls:
                    return ("opaque", f.attr)
                return ("self", f.attr)
            if (isinstance(f.value, ast.Call) and isinstance(f.value.func, ast.Name)
                    and f.value.func.id == "super" and not f.value.args):
                return ("super", f.attr)
            if f.attr in self.schema.opaque_calls:
                return ("opaque", f.attr)
        if isinstance(f, ast.Name):
            if f.id in self.schema.opaque_calls:
                return ("opaque", f.id)
            if f.id in ("timedelta", "int", "max", "min", "abs"):
                return (f.id,)
        if (isinstance(f, ast.Attribute) and isinstance(f.value, ast.Name) and f.value.id == "math"
                and f.attr in ("ceil", "floor")):
            return ("math." + f.attr,)
        return ("?",)

    # -------------------------------------------------------------- expressions
    def enum_const(self, e, enum):
        """python expression -> constructor of `enum` (or None when it is not a constant of it)"""
        table = self.schema.enums[enum]
        if isinstance(e, ast.Constant) and e.value is None:
            if "none" in table:
                return f"{enum}.{table['none']}"
            self.fail(e, f"None is not a value of {enum}")
        key = ast.unparse(e)
        if key in self.schema.consts:
            v = self.schema.consts[key]
            if v in table.get("values", {}):
                return f"{enum}.{table['values'][v]}"
            self.fail(e, f"constant {key} = {v!r} is not a value of {enum}")
        if isinstance(e, ast.Constant) and isinstance(e.value, str):
            if e.value in table.get("values", {}):
                return f"{enum}.{table['values'][e.value]}"
            self.fail(e, f"string {e.value!r} is not a value of {enum}")
        return None

    def val(self, e, expect=None):
        """value-position translation; `expect` = lean type wanted (for None / enum constants / wrapping)"""
        if expect in self.schema.enums:
            c = self.enum_const(e, expect)
            if c is not None:
                return c
            t = self.typeof(e)
            if t == expect:
                return self.val(e)
            wrap = self.schema.enums[expect].get("wrap")
            if wrap and t == wrap[0]:
                return f"({expect}.{wrap[1]} {self.val(e)})"
            self.fail(e, f"cannot use a value of type {t} as {expect}")
        if expect in ("OptInt", "OptNat"):
            t = self.typeof(e)
            if t == "None":
                return "none"
            if t == expect:
                return self.val(e)
            inner = "Int" if expect == "OptInt" else "Nat"
            if t == inner:
                return f"(some {self.val(e)})"
            self.fail(e, f"cannot store a value of type {t} in {expect}")
        if not isinstance(e, ast.Constant) and ast.unparse(e) in self.schema.aliases:
            return f"o.{self.schema.aliases[ast.unparse(e)][0]}"
        im = self.indexed_match(e)
        if im:
            f, idx, it, vt = im
            if self.typeof(idx) != it:
                self.fail(e, f"index of type {self.typeof(idx)} where {it} is declared")
            return f"(o.{f} {self.val(idx)})"
        if isinstance(e, ast.Constant):
            if isinstance(e.value, bool):
                return "true" if e.value else "false"
            if isinstance(e.value, int):
                return f"({e.value} : {self.schema.num})" if e.value >= 0 else f"(-{-e.value} : {self.schema.num})"
            if isinstance(e.value, float) and e.value == int(e.value):
                return f"({int(e.value)} : {self.schema.num})"
            self.fail(e, f"constant {e.value!r}")
        if isinstance(e, ast.Name):
            if e.id in self.locals:
                return lname(e.id)
            self.fail(e, f"unknown name {e.id}")
        if isinstance(e, ast.Attribute):
            if isinstance(e.value, ast.Name) and e.value.id == "self":
                if e.attr in self.schema.fields:
                    return f"o.{lname(e.attr)}"
                self.fail(e, f"attribute self.{e.attr} is not in the schema")
            if isinstance(e.value, ast.Name) and e.value.id in self.rec_params:
                rn = self.rec_params[e.value.id]
                if e.attr in self.schema.records[rn]:
                    return f"o.{self.schema.record_prefix[rn]}_{e.attr}"
                self.fail(e, f"attribute {e.attr} of {rn} is not in the schema")
            if e.attr == "days":
                return self.val(e.value)
            key = ast.unparse(e)
            if key in self.schema.const_env:
                return f"o.{self.schema.const_env[key]}"
            self.fail(e, f"attribute {key}")
        if isinstance(e, ast.BinOp):
            a, b = self.val(e.left), self.val(e.right)
            for s in (e.left, e.right):
                if self.typeof(s) != "Int":
                    self.fail(e, "arithmetic on a non-integer")
            if isinstance(e.op, ast.Add):
                return f"({a} + {b})"
            if isinstance(e.op, ast.Sub):
                return f"({a} - {b})"
            if isinstance(e.op, ast.Mult):
                return f"({a} * {b})"
            if isinstance(e.op, ast.Div) and self.schema.num == "Rat":
                return f"({a} / {b})"
            if isinstance(e.op, ast.FloorDiv) and self.schema.num == "Int":
                return f"(Int.fdiv {a} {b})"
            if isinstance(e.op, ast.Mod) and self.schema.num == "Int":
                return f"(Int.fmod {a} {b})"
            self.fail(e, "operator " + type(e.op).__name__)
        if isinstance(e, ast.UnaryOp):
            if isinstance(e.op, ast.USub):
                return f"(-{self.val(e.operand)})"
            if isinstance(e.op, ast.Not):
                return f"(decide {self.prop(e)})"
            self.fail(e, "unary operator")
        if isinstance(e, (ast.Compare, ast.BoolOp)):
            return f"(decide {self.prop(e)})"
        if isinstance(e, ast.IfExp):
            t = self.typeof(e.body)
            return f"(if {self.prop(e.test)} then {self.val(e.body, expect)} else {self.val(e.orelse, expect)})"
        if isinstance(e, ast.Call):
            k = self.call_kind(e)
            if k[0] == "opaque":
                return f"o.{self.schema.opaque_calls[k[1]][0]}"
            if k[0] == "timedelta":
                if e.args or len(e.keywords) != 1 or e.keywords[0].arg != "days":
                    self.fail(e, "timedelta with anything but days=")
                return self.val(e.keywords[0].value)
            if k[0] == "int":
                if len(e.args) != 1 or self.typeof(e.args[0]) != "Int":
                    self.fail(e, "int() of a non-integer")
                return self.val(e.args[0])
            if k[0] in ("max", "min"):
                if len(e.args) != 2 or e.keywords:
                    self.fail(e, k[0] + " with other than two arguments")
                return f"({k[0]} {self.val(e.args[0])} {self.val(e.args[1])})"
            if k[0] in ("math.ceil", "math.floor") and self.schema.num == "Rat" and len(e.args) == 1:
                fn = "Rat.ceil" if k[0] == "math.ceil" else "Rat.floor"
                return f"((({fn} {self.val(e.args[0])}) : Int) : Rat)"
            if k[0] == "abs" and self.schema.num == "Int":
                return f"(Int.natAbs {self.val(e.args[0])} : Int)"
            if k[0] in ("self", "super"):
                name, argtxt, pure = self.method_call(e, k)
                if not pure:
                    self.fail(e, "call of a mutating method inside an expression")
                return f"({name} o{argtxt}).2"
            self.fail(e, "call " + ast.unparse(e.func))
        self.fail(e, "expression " + type(e).__name__)

    def prop(self, e):
        """test-position translation (a Lean Prop with a Decidable instance)"""
        if not isinstance(e, ast.Constant) and ast.unparse(e) in self.schema.aliases:
            if self.schema.aliases[ast.unparse(e)][1] != "Bool":
                self.fail(e, "test on a non-boolean alias")
            return f"(o.{self.schema.aliases[ast.unparse(e)][0]} = true)"
        if isinstance(e, ast.BoolOp):
            op = " ∧ " if isinstance(e.op, ast.And) else " ∨ "
            for v in e.values:
                if self.typeof(v) != "Bool":
                    self.fail(e, "and/or on a non-boolean (Python truthiness is not translated)")
            return "(" + op.join(self.prop(v) for v in e.values) + ")"
        if isinstance(e, ast.UnaryOp) and isinstance(e.op, ast.Not):
            if self.typeof(e.operand) != "Bool":
                self.fail(e, "not on a non-boolean")
            return f"(¬ {self.prop(e.operand)})"
        if isinstance(e, ast.Compare):
            if len(e.ops) != 1:
                # a < b < c  ==  (a < b) and (b < c)   (operands here are side-effect free)
                parts, left = [], e.left
                for op, right in zip(e.ops, e.comparators):
                    parts.append(self.prop(ast.copy_location(ast.Compare(left=left, ops=[op], comparators=[right]), e)))
                    left = right
                return "(" + " ∧ ".join(parts) + ")"
            l, r, op = e.left, e.comparators[0], e.ops[0]
            if isinstance(l, ast.Tuple) and isinstance(r, ast.Tuple) and len(l.elts) == 2 and len(r.elts) == 2:
                # lexicographic order on pairs of numbers
                a, b, c, dd = (self.val(x) for x in (l.elts[0], l.elts[1], r.elts[0], r.elts[1]))
                for x in l.elts + r.elts:
                    if self.typeof(x) != "Int":
                        self.fail(e, "tuple comparison on non-numbers")
                strict = {ast.LtE: "≤", ast.Lt: "<", ast.GtE: "≥", ast.Gt: ">"}.get(type(op))
                if strict is None:
                    self.fail(e, "tuple comparison operator")
                first = "<" if strict in ("≤", "<") else ">"
                return f"(({a} {first} {c}) ∨ (({a} = {c}) ∧ ({b} {strict} {dd})))"
            if (isinstance(op, (ast.Is, ast.IsNot)) and isinstance(r, ast.Constant) and isinstance(r.value, bool)):
                # `x is False` on a value the translation types as Bool (a numpy.bool_ would behave differently:
                # the schema's typing is part of the trusted base)
                if isinstance(l, ast.Call) and self.call_kind(l)[0] in ("self", "super"):
                    name, argtxt, pure = self.method_call(l, self.call_kind(l))
                    if not pure or self.tr.sigs[name][1] != "Bool":
                        self.fail(e, "`is <bool>` on a call that is not a pure boolean method")
                    lv = f"({name} o{argtxt}).2"
                elif self.typeof(l) == "Bool":
                    lv = self.val(l)
                else:
                    self.fail(e, "`is <bool>` on a non-boolean")
                want = "true" if r.value else "false"
                return f"({lv} = {want})" if isinstance(op, ast.Is) else f"({lv} ≠ {want})"
            tl, tr_ = self.typeof(l), self.typeof(r)
            special = None
            for t in (tl, tr_):
                if t in self.schema.enums or t in ("OptInt", "OptNat"):
                    special = t
            if special:
                a, b = self.val(l, special), self.val(r, special)
                if isinstance(op, (ast.Eq, ast.Is)):
                    return f"({a} = {b})"
                if isinstance(op, (ast.NotEq, ast.IsNot)):
                    return f"({a} ≠ {b})"
                self.fail(e, "ordering on an enum / optional")
            if tl == "Bool" and tr_ == "Bool" and isinstance(op, (ast.Eq, ast.NotEq)):
                a, b = self.val(l), self.val(r)
                return f"({a} = {b})" if isinstance(op, ast.Eq) else f"({a} ≠ {b})"
            if tl != "Int" or tr_ != "Int":
                self.fail(e, f"comparison of {tl} with {tr_}")
            a, b = self.val(l), self.val(r)
            sym = {ast.Eq: "=", ast.NotEq: "≠", ast.Lt: "<", ast.LtE: "≤", ast.Gt: ">", ast.GtE: "≥"}.get(type(op))
            if sym is None:
                self.fail(e, "comparison operator")
            return f"({a} {sym} {b})"
        if self.typeof(e) == "Bool":
            return f"({self.val(e)} = true)"
        self.fail(e, "test on a non-boolean (Python truthiness is not translated)")

    def effect_label(self, call):
        """label of an effect call: the schema's label, the receiver when it is a local obtained from an
        earlier effect call (`@$<that label>`), and the arguments: a local obtained from an effect call is
        written `$<that label>`, a constructor call `new <Class>`, anything else as written"""
        lab = self.schema.effect_calls[call.func.attr]
        bound = getattr(self, "effect_locals", {})

        def show(a):
            if isinstance(a, ast.Name) and a.id in bound:
                return "$" + bound[a.id]
            if isinstance(a, ast.Call) and isinstance(a.func, ast.Name) and a.func.id[:1].isupper():
                return "new " + a.func.id
            return ast.unparse(a)
        recv = call.func.value
        at = "@$" + bound[recv.id] if isinstance(recv, ast.Name) and recv.id in bound else ""
        args = [show(a) for a in call.args] + [f"{k.arg}={show(k.value)}" for k in call.keywords]
        return (lab + at + "(" + ", ".join(args) + ")").replace('"', "'")

    def method_call(self, e, k):
        name = self.tr.need(self.final, k[1], self.owner if k[0] == "super" else None)
        params, ret, pure, pynames = self.tr.sigs[name]
        given = {}
        pos = list(e.args)
        if any(isinstance(a, ast.Starred) for a in pos):
            self.fail(e, "star arguments")
        if len(pos) > len(pynames):
            self.fail(e, "too many arguments")
        for (pn, pt), a in zip(pynames, pos):
            given[pn] = a
        for kw in e.keywords:
            if kw.arg is None or kw.arg in given or kw.arg not in [p for p, _ in pynames]:
                self.fail(e, "keyword argument " + str(kw.arg))
            given[kw.arg] = kw.value
        txt = ""
        for pn, pt in pynames:
            if pn not in given:
                self.fail(e, f"argument {pn} missing (defaults are not translated)")
            if pt is None:
                a = given[pn]
                if not (isinstance(a, ast.Name) and (a.id in self.rec_params)):
                    # a dropped parameter must be handed on unchanged
                    if not isinstance(a, ast.Name):
                        self.fail(e, f"argument for {pn} is not a plain name")
                continue
            txt += " " + self.val(given[pn], pt if pt in self.schema.enums or pt.startswith("Opt") else None)
        if not pure:
            self.pure = False
        return name, txt, pure

    # -------------------------------------------------------------- statements
    def ind(self, d):
        return "  " * d

    def block(self, stmts, d):
        if not stmts:
            if self.ret == "Unit":
                return f"{self.ind(d)}(o, ())"
            self.fail(self.fn, "a path falls off the end of a function that returns a value")
        s, rest = stmts[0], stmts[1:]
        if isinstance(s, ast.Expr) and isinstance(s.value, ast.Constant) and isinstance(s.value.value, str):
            return self.block(rest, d)
        if isinstance(s, ast.Pass):
            return self.block(rest, d)
        if isinstance(s, ast.Return):
            if s.value is None or (isinstance(s.value, ast.Constant) and s.value.value is None
                                   and self.ret == "Unit"):
                if self.ret != "Unit":
                    self.fail(s, "bare return in a function that returns a value")
                return f"{self.ind(d)}(o, ())"
            if isinstance(s.value, ast.Call) and self.call_kind(s.value)[0] in ("self", "super"):
                name, argtxt, pure = self.method_call(s.value, self.call_kind(s.value))
                return f"{self.ind(d)}{name} o{argtxt}"
            if isinstance(s.value, ast.Tuple):
                parts = getattr(self, "tuple_ret", None)
                if parts is None or len(parts) != len(s.value.elts):
                    self.fail(s, "tuple returned from a function without a Tuple[...] annotation of that length")
                vals = []
                for pt, el in zip(parts, s.value.elts):
                    if isinstance(pt, tuple):
                        if not (isinstance(el, ast.Name) and el.id in self.rec_params):
                            self.fail(s, "a record component of the returned tuple is not the parameter itself")
                        continue
                    if self.typeof(el) != pt:
                        self.fail(s, f"tuple component of type {self.typeof(el)} where {pt} is declared")
                    vals.append(self.val(el))
                return f"{self.ind(d)}(o, {', '.join(vals)})"
            return f"{self.ind(d)}(o, {self.val(s.value, self.ret if self.ret in self.schema.enums or self.ret.startswith('Opt') else None)})"
        if isinstance(s, ast.If):
            pre = ""
            if isinstance(s.test, ast.Call) and self.call_kind(s.test)[0] in ("self", "super"):
                name, argtxt, pure = self.method_call(s.test, self.call_kind(s.test))
                if self.tr.sigs[name][1] != "Bool":
                    self.fail(s, "test on a non-boolean call")
                pre = f"{self.ind(d)}let r := {name} o{argtxt}\n{self.ind(d)}let o := r.1\n"
                cond = "r.2 = true"
            else:
                cond = self.prop(s.test)
            saved = dict(self.locals)
            a = self.block(list(s.body) + rest, d + 1)
            self.locals = dict(saved)
            b = self.block(list(s.orelse) + rest, d + 1)
            self.locals = saved
            return f"{pre}{self.ind(d)}if {cond} then\n{a}\n{self.ind(d)}else\n{b}"
        if isinstance(s, ast.Expr) and isinstance(s.value, ast.Call):
            k = self.call_kind(s.value)
            if k[0] in ("self", "super"):
                name, argtxt, pure = self.method_call(s.value, k)
                return f"{self.ind(d)}let o := ({name} o{argtxt}).1\n{self.block(rest, d)}"
            f = s.value.func
            if isinstance(f, ast.Name) and f.id in self.schema.ignored_calls:
                self.tr.ignored.append(f"{self.owner}.{self.method}:{s.lineno}: {f.id}")
                return self.block(rest, d)
            if isinstance(f, ast.Attribute) and f.attr in self.schema.effect_calls:
                self.pure = False
                lab = self.effect_label(s.value)
                return f"{self.ind(d)}let o := {{ o with effects := o.effects ++ [\"{lab}\"] }}\n{self.block(rest, d)}"
            if isinstance(f, ast.Attribute) and f.attr in self.schema.ignored_calls:
                self.tr.ignored.append(f"{self.owner}.{self.method}:{s.lineno}: {ast.unparse(f)}")
                return self.block(rest, d)
            self.fail(s, "statement call " + ast.unparse(s.value.func))
        if isinstance(s, (ast.Assign, ast.AnnAssign, ast.AugAssign)):
            if isinstance(s, ast.Assign):
                if len(s.targets) != 1:
                    self.fail(s, "multiple assignment targets")
                target, value = s.targets[0], s.value
            else:
                target, value = s.target, s.value
                if value is None:
                    return self.block(rest, d)
            if isinstance(s, ast.AugAssign):
                if not isinstance(s.op, (ast.Add, ast.Sub)):
                    self.fail(s, "augmented operator")
                value = ast.BinOp(left=target, op=s.op, right=s.value)
                ast.copy_location(value, s)
            # where does it go?
            im = self.indexed_match(target)
            if im:
                f, idx, it, vt = im
                if self.typeof(idx) != it or self.typeof(value) != vt:
                    self.fail(s, "types of an indexed assignment")
                self.pure = False
                i, v = self.val(idx), self.val(value)
                return (f"{self.ind(d)}let o := {{ o with {f} := fun k => if k = {i} then {v} else o.{f} k }}\n"
                        f"{self.block(rest, d)}")
            if ast.unparse(target) in self.schema.aliases:
                fld, ft = self.schema.aliases[ast.unparse(target)]
                self.pure = False
                v = self.val(value, ft if ft in self.schema.enums or ft.startswith("Opt") else None)
                if not (ft in self.schema.enums or ft.startswith("Opt")) and self.typeof(value) != ft:
                    self.fail(s, f"value of type {self.typeof(value)} stored in {ast.unparse(target)} : {ft}")
                return f"{self.ind(d)}let o := {{ o with {fld} := {v} }}\n{self.block(rest, d)}"
            if isinstance(target, ast.Attribute) and isinstance(target.value, ast.Name):
                base = target.value.id
                if base == "self":
                    if target.attr not in self.schema.fields:
                        self.fail(s, f"assignment to self.{target.attr}, which is not in the schema")
                    ft, fld = self.schema.fields[target.attr], lname(target.attr)
                elif base in self.rec_params:
                    rn = self.rec_params[base]
                    if target.attr not in self.schema.records[rn]:
                        self.fail(s, f"assignment to {rn}.{target.attr}, which is not in the schema")
                    ft, fld = self.schema.records[rn][target.attr], f"{self.schema.record_prefix[rn]}_{target.attr}"
                else:
                    self.fail(s, "assignment to an attribute of " + base)
                self.pure = False
                if isinstance(value, ast.Call) and self.call_kind(value)[0] in ("self", "super"):
                    name, argtxt, pure = self.method_call(value, self.call_kind(value))
                    if pure:
                        v = f"({name} o{argtxt}).2"
                    else:
                        self.fail(s, "field assigned from a mutating call")
                else:
                    v = self.val(value, ft if ft in self.schema.enums or ft.startswith("Opt") else None)
                    if not (ft in self.schema.enums or ft.startswith("Opt")) and self.typeof(value) != ft:
                        self.fail(s, f"value of type {self.typeof(value)} stored in a field of type {ft}")
                return f"{self.ind(d)}let o := {{ o with {fld} := {v} }}\n{self.block(rest, d)}"
            if (isinstance(target, ast.Name) and isinstance(value, ast.Call)
                    and isinstance(value.func, ast.Attribute) and value.func.attr in self.schema.effect_calls):
                # a collaborator object obtained through a call that is itself an effect (e.g. a plan popped from
                # a pool): the name is not bound; what the code reads from it must be declared as aliases
                self.pure = False
                lab = self.effect_label(value)
                if not hasattr(self, "effect_locals"):
                    self.effect_locals = {}
                self.effect_locals[target.id] = self.schema.effect_calls[value.func.attr]
                return f"{self.ind(d)}let o := {{ o with effects := o.effects ++ [\"{lab}\"] }}\n{self.block(rest, d)}"
            if isinstance(target, ast.Name):
                if isinstance(value, ast.Call) and self.call_kind(value)[0] in ("self", "super"):
                    name, argtxt, pure = self.method_call(value, self.call_kind(value))
                    t = self.tr.sigs[name][1]
                    self.locals[target.id] = t
                    n = lname(target.id)
                    return (f"{self.ind(d)}let r := {name} o{argtxt}\n{self.ind(d)}let o := r.1\n"
                            f"{self.ind(d)}let {n} := r.2\n{self.block(rest, d)}")
                t = self.typeof(value)
                if t in ("?", "None", "Const"):
                    self.fail(s, f"local {target.id} of unknown type")
                v = self.val(value)
                self.locals[target.id] = t
                return f"{self.ind(d)}let {lname(target.id)} := {v}\n{self.block(rest, d)}"
            self.fail(s, "assignment target")
        self.fail(s, "statement " + type(s).__name__)


def read_class_constants(path, cls):
    """{NAME: literal value} of the simple assignments in `class cls` of `path`"""
    tree = ast.parse(open(path).read(), path)
    out = {}
    for node in tree.body:
        if isinstance(node, ast.ClassDef) and node.name == cls:
            for n in node.body:
                if isinstance(n, ast.Assign) and len(n.targets) == 1 and isinstance(n.targets[0], ast.Name):
                    try:
                        out[n.targets[0].id] = ast.literal_eval(n.value)
                    except Exception:
                        pass
    return out


def import_aliases(path):
    """{alias: class name} for `from x import Y as alias` lines of a module"""
    tree = ast.parse(open(path).read(), path)
    out = {}
    for node in tree.body:
        if isinstance(node, ast.ImportFrom):
            for a in node.names:
                out[a.asname or a.name] = a.name
        elif isinstance(node, ast.Import):
            for a in node.names:
                out[a.asname or a.name] = a.name.split(".")[-1]
    return out


# ---------------------------------------------------------------------------------------------------
# executable driver for the translated functions (translation validation: the harness calls the real
# Python method and the translated Lean function on the same object and compares every field)
# ---------------------------------------------------------------------------------------------------
def driver_text(tr, entries, imports, opens, namespace):
    """Lean source of a `main` that reads lines `<entry> <obj fields...> <args...>` and prints
    `<obj fields after the call> | <returned components>`.

    entries: [(public name used on the wire and in Lean, e.g. "RE.update", internal lean name)]
    Field encodings: Int / Nat decimal; Bool 1/0; Option "-" or value; enum constructor name (a wrapping
    constructor as `<ctor><n>`); function field `k:v,k:v` or `_` (default 0 elsewhere; printed at the same
    keys); `effects` printed joined by `;` (input ignored)."""
    sch = tr.schema
    fields = sch.obj_fields()
    L = []
    L += [f"import {i}" for i in imports]
    L += [f"open {o}" for o in opens]
    L += [f"namespace {namespace}", "",
          "def pInt (s : String) : Int := s.toInt?.getD 0",
          "def pNat (s : String) : Nat := s.toNat?.getD 0",
          "def pBool (s : String) : Bool := s == \"1\"",
          "def pOptInt (s : String) : Option Int := if s == \"-\" then none else s.toInt?",
          "def pOptNat (s : String) : Option Nat := if s == \"-\" then none else s.toNat?",
          "def sBool (b : Bool) : String := if b then \"1\" else \"0\"",
          "def sOptInt : Option Int → String | none => \"-\" | some i => toString i",
          "def sOptNat : Option Nat → String | none => \"-\" | some i => toString i",
          "def pMap (s : String) : List (Int × Int) :=",
          "  if s == \"_\" then [] else (s.splitOn \",\").filterMap (fun kv => match kv.splitOn \":\" with",
          "    | [k, v] => some (pInt k, pInt v) | _ => none)",
          "def mapFn (l : List (Int × Int)) : Int → Int := fun k => (l.lookup k).getD 0",
          "def sMap (f : Int → Int) (l : List (Int × Int)) : String :=",
          "  if l.isEmpty then \"_\" else String.intercalate \",\" (l.map (fun kv => s!\"{kv.1}:{f kv.1}\"))", ""]
    for en, tab in sch.enums.items():
        ctors = list(dict.fromkeys(list(tab.get("values", {}).values()) + ([tab["none"]] if "none" in tab else [])))
        wrap = tab.get("wrap")
        L.append(f"def p{en} (s : String) : {en} :=")
        for c in ctors:
            L.append(f"  if s == \"{c}\" then {en}.{c} else")
        if wrap:
            L.append(f"  {en}.{wrap[1]} (pNat (s.drop {len(wrap[1])}).toString)")
        else:
            L.append(f"  {en}.{ctors[0]}")
        L.append(f"def s{en} : {en} → String")
        for c in ctors:
            L.append(f"  | .{c} => \"{c}\"")
        if wrap:
            L.append(f"  | .{wrap[1]} n => s!\"{wrap[1]}{{n}}\"")
        L.append("")

    def parser(t, tok):
        if t == "Int":
            return f"pInt {tok}" if sch.num == "Int" else f"((pInt {tok} : Int) : {sch.num})"
        if t in ("Nat", "Bool", "OptInt", "OptNat"):
            return f"p{t} {tok}"
        if t in sch.enums:
            return f"p{t} {tok}"
        return None

    def shower(t, v):
        if t == "Int":
            return f"toString {v}"
        if t == "Nat":
            return f"toString {v}"
        if t == "Bool":
            return f"sBool {v}"
        if t in ("OptInt", "OptNat"):
            return f"s{t} {v}"
        if t in sch.enums:
            return f"s{t} {v}"
        if t == "Unit":
            return "\"()\""
        return None

    fn_fields = [f for _c, _a, f, _it, _vt in sch.indexed]
    L.append(f"def parseObj (a : Array String) : {tr.obj} :=")
    items = []
    for i, (f, t) in enumerate(fields):
        if f in fn_fields:
            items.append(f"{f} := mapFn (pMap a[{i}]!)")
        elif f == "effects":
            items.append("effects := []")
        else:
            ps = parser(t, f"a[{i}]!")
            if ps is None:
                raise Untranslatable(f"driver: field {f} : {t}")
            items.append(f"{f} := {ps}")
    L.append("  { " + ", ".join(items) + " }")
    L.append(f"def showObj (o : {tr.obj}) (a : Array String) : String :=")
    outs = []
    for i, (f, t) in enumerate(fields):
        if f in fn_fields:
            outs.append(f"sMap o.{f} (pMap a[{i}]!)")
        elif f == "effects":
            outs.append("(if o.effects.isEmpty then \"_\" else String.intercalate \";\" o.effects)")
        else:
            outs.append(shower(t, f"o.{f}"))
    L.append("  String.intercalate \" \" [" + ", ".join(outs) + "]")
    n = len(fields)
    L.append("")
    L.append(f"def call (name : String) (o : {tr.obj}) (a : Array String) : String :=")
    for pub, internal in entries:
        params, ret, pure, pynames = tr.sigs[internal]
        args = []
        for j, (pn, pt) in enumerate(params):
            args.append("(" + parser(pt, f"a[{n + j}]!") + ")")
        parts = tr.ret_parts[internal]
        if len(parts) == 1:
            rs = shower(parts[0], "r.2")
        else:
            acc, comps = "r.2", []
            for k, pt in enumerate(parts):
                last = k == len(parts) - 1
                comps.append(shower(pt, acc if last else acc + ".1"))
                acc = acc + ".2"
            rs = "String.intercalate \" \" [" + ", ".join(comps) + "]"
        L.append(f"  if name == \"{pub}\" then let r := {internal} o {' '.join(args)}; showObj r.1 a ++ \" | \" ++ {rs} else")
    L.append("  \"bad-op\"")
    L += ["",
          "partial def loop (h : IO.FS.Stream) : IO Unit := do",
          "  let line ← h.getLine",
          "  if line.isEmpty then return ()",
          "  let toks := ((line.trimAscii.toString).splitOn \" \").toArray",
          f"  if toks.size < {n + 1} then IO.println \"bad-op\" else",
          "    IO.println (call toks[0]! (parseObj (toks.extract 1 toks.size)) (toks.extract 1 toks.size))",
          "  loop h",
          "",
          f"end {namespace}",
          "",
          f"def main : IO Unit := do {namespace}.loop (← IO.getStdin)",
          ""]
    return "\n".join(L), [f for f, _ in fields]
