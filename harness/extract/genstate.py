"""ast extractor: state that could survive between cases in one process, for the modules C16 models
-> lean/LdarModel/Generated/GenState.lean (rewritten on every run of ./check C16).

Listed per module (virtual_world/sources.py, file_processing/input_processing/emissions_source_processing.py,
utils/unit_converter.py, initialization/preseed.py, initialization/initialize_emissions.py):
  * class-level assignments of mutable containers (dict / list / set literals, comprehensions, dict()/list()/
    set()/defaultdict()/OrderedDict()/Counter() calls)
  * module-level mutable containers, and every place inside a function that mutates one of them
    (.append/.extend/.update/.insert/.pop/.clear/.setdefault/.remove/.add, subscript stores, del, augmented
    assignment, `global`)
  * functions / methods decorated with a cache (lru_cache, cache, cached_property)
  * copy / pickle hooks (__deepcopy__, __copy__, __reduce__, __reduce_ex__, __getstate__, __setstate__)
  * Source.__reduce__: the attributes in its argument tuple, and for Source._reconstruct the attribute each
    positional parameter is stored into (argument ORDER of the pickling round trip)
"""
from __future__ import annotations

import ast
import os

from harness import shim
from harness.extract.units import ExtractError, LEAN_GEN, _write_if_changed, lean_str

MODULES = {
    "sources": ("virtual_world", "sources.py"),
    "emissions_source_processing": ("file_processing", "input_processing", "emissions_source_processing.py"),
    "unit_converter": ("utils", "unit_converter.py"),
    "preseed": ("initialization", "preseed.py"),
    "initialize_emissions": ("initialization", "initialize_emissions.py"),
}
CONTAINER_CALLS = {"dict", "list", "set", "defaultdict", "OrderedDict", "Counter", "deque"}
MUTATORS = {"append", "extend", "update", "insert", "pop", "clear", "setdefault", "remove", "add", "popitem",
            "discard", "sort", "reverse"}
CACHES = {"lru_cache", "cache", "cached_property"}
HOOKS = {"__deepcopy__", "__copy__", "__reduce__", "__reduce_ex__", "__getstate__", "__setstate__"}


def _is_container(v):
    if isinstance(v, (ast.Dict, ast.List, ast.Set, ast.ListComp, ast.DictComp, ast.SetComp)):
        return True
    if isinstance(v, ast.Call):
        f = v.func
        name = f.id if isinstance(f, ast.Name) else f.attr if isinstance(f, ast.Attribute) else None
        return name in CONTAINER_CALLS
    return False


def _targets(node):
    if isinstance(node, ast.Assign):
        return [t.id for t in node.targets if isinstance(t, ast.Name)], node.value
    if isinstance(node, ast.AnnAssign) and isinstance(node.target, ast.Name) and node.value is not None:
        return [node.target.id], node.value
    return [], None


def _deco_name(d):
    d = d.func if isinstance(d, ast.Call) else d
    return d.id if isinstance(d, ast.Name) else d.attr if isinstance(d, ast.Attribute) else None


def _root_name(node):
    while isinstance(node, (ast.Subscript, ast.Attribute)):
        node = node.value
    return node.id if isinstance(node, ast.Name) else None


def scan():
    out = {"class_level": [], "module_level": [], "mutations": [], "cached": [], "hooks": [],
           "reduce_attrs": None, "reconstruct_attrs": None}
    for mod, rel in MODULES.items():
        path = os.path.join(shim.REPO_SRC, *rel)
        tree = ast.parse(open(path).read())
        mod_names = set()
        for node in tree.body:
            names, val = _targets(node)
            if names and _is_container(val):
                for n in names:
                    mod_names.add(n)
                    out["module_level"].append((mod, n))
        for node in ast.walk(tree):
            if isinstance(node, ast.ClassDef):
                for st in node.body:
                    names, val = _targets(st)
                    if names and _is_container(val):
                        for n in names:
                            out["class_level"].append((mod, node.name, n))
                    if isinstance(st, (ast.FunctionDef, ast.AsyncFunctionDef)) and st.name in HOOKS:
                        out["hooks"].append((mod, node.name, st.name))
            if isinstance(node, (ast.FunctionDef, ast.AsyncFunctionDef)):
                for d in node.decorator_list:
                    if _deco_name(d) in CACHES:
                        out["cached"].append((mod, node.name))
                local = {a.arg for a in node.args.args + node.args.kwonlyargs}
                for sub in ast.walk(node):
                    if isinstance(sub, ast.Global):
                        for n in sub.names:
                            out["mutations"].append((mod, n, sub.lineno))
                    if isinstance(sub, ast.Call) and isinstance(sub.func, ast.Attribute) and sub.func.attr in MUTATORS:
                        r = _root_name(sub.func.value)
                        if r in mod_names and r not in local:
                            out["mutations"].append((mod, r, sub.lineno))
                    if isinstance(sub, (ast.Assign, ast.AugAssign, ast.Delete)):
                        tg = sub.targets if isinstance(sub, (ast.Assign, ast.Delete)) else [sub.target]
                        for t in tg:
                            if isinstance(t, (ast.Subscript, ast.Attribute)):
                                r = _root_name(t)
                                if r in mod_names and r not in local:
                                    out["mutations"].append((mod, r, sub.lineno))
        if mod == "sources":
            src_cls = next((n for n in tree.body if isinstance(n, ast.ClassDef) and n.name == "Source"), None)
            if src_cls is None:
                raise ExtractError("sources.py: class Source not found")
            red = next((n for n in src_cls.body if isinstance(n, ast.FunctionDef) and n.name == "__reduce__"), None)
            rec = next((n for n in src_cls.body if isinstance(n, ast.FunctionDef) and n.name == "_reconstruct"), None)
            if red is not None and rec is not None:
                tup = None
                for sub in ast.walk(red):
                    if isinstance(sub, ast.Assign) and isinstance(sub.value, ast.Tuple) and \
                            all(isinstance(e, ast.Attribute) for e in sub.value.elts):
                        tup = sub.value
                if tup is None:
                    raise ExtractError("sources.py: Source.__reduce__ argument tuple not found")
                out["reduce_attrs"] = [e.attr for e in tup.elts]
                params = [a.arg for a in rec.args.args][1:]
                stored = {}
                for sub in ast.walk(rec):
                    if isinstance(sub, ast.Assign) and len(sub.targets) == 1 and isinstance(sub.targets[0], ast.Attribute) \
                            and isinstance(sub.value, ast.Name) and sub.value.id in params:
                        stored.setdefault(sub.value.id, sub.targets[0].attr)
                out["reconstruct_attrs"] = [stored.get(p_, "?" + p_) for p_ in params]
    for k in ("class_level", "module_level", "mutations", "cached", "hooks"):
        out[k] = sorted(set(out[k]))
    if out["reduce_attrs"] is None:
        out["reduce_attrs"], out["reconstruct_attrs"] = [], []
    return out


def _tuples(rows):
    if not rows:
        return "[]"
    return "[\n" + ",\n".join("    (" + ", ".join(lean_str(str(x)) if not isinstance(x, int) else str(x) for x in r) + ")"
                              for r in rows) + "\n  ]"


def render(st) -> str:
    strs = lambda l: "[" + ", ".join(lean_str(x) for x in l) + "]"  # noqa: E731
    return f"""/-
GENERATED by harness/extract/genstate.py from /repo/LDAR_Sim/src ({', '.join('/'.join(v) for v in MODULES.values())})
— rewritten on every run of ./check C16, do not edit.
State that could survive between cases in one process, and the argument order of the pickling round trip.
-/
namespace LdarModel.Generated.GenState

/-- (module, class, attribute): class-level mutable containers -/
def classLevelContainers : List (String × String × String) := {_tuples(st['class_level'])}

/-- (module, name): module-level mutable containers -/
def moduleLevelContainers : List (String × String) := {_tuples(st['module_level'])}

/-- (module, name, line): places inside a function that mutate a module-level container -/
def moduleContainerMutations : List (String × String × Nat) := {_tuples(st['mutations'])}

/-- (module, function): functions decorated with a cache -/
def cachedFunctions : List (String × String) := {_tuples(st['cached'])}

/-- (module, class, method): copy / pickle hooks -/
def copyHooks : List (String × String × String) := {_tuples(st['hooks'])}

/-- attributes in the argument tuple of `Source.__reduce__`, in order -/
def sourceReduceAttrs : List String := {strs(st['reduce_attrs'])}

/-- attribute each positional parameter of `Source._reconstruct` is stored into, in order -/
def sourceReconstructAttrs : List String := {strs(st['reconstruct_attrs'])}

end LdarModel.Generated.GenState
"""


def regenerate():
    st = scan()
    changed = _write_if_changed(os.path.join(LEAN_GEN, "GenState.lean"), render(st))
    return st, (["Generated/GenState.lean"] if changed else [])


def extract():
    return scan()


def write(st):
    _write_if_changed(os.path.join(LEAN_GEN, "GenState.lean"), render(st))


if __name__ == "__main__":
    st, ch = regenerate()
    print(ch)
    for k, v in st.items():
        print(k, v)
