"""Second part of C12's extractor (used by harness/extract/effects.py):

  copy hooks        every `__deepcopy__` / `__reduce__` / `__reduce_ex__` / `__getstate__` / `__setstate__` defined in a
                    reachable module, with the syntactic verdict `deep`:
                      __deepcopy__ (and __copy__)      deep = False   (a hand-written copy needs a review; none exists today)
                      the others                       deep = True iff the hook body and the reconstructor it returns
                                                       (`self.__class__.X` / `cls.X` / `self.X`, a method of the same class)
                                                       are CLOSED: they load no name other than their own parameters,
                                                       locals and builtins (copy.deepcopy deep-copies the arguments and the
                                                       state of a reduce tuple, so a closed reconstructor cannot re-introduce
                                                       a shared object)
  copy wiring       simulate(): `infra = copy.deepcopy(infrastructure)` on every path and `infrastructure` used nowhere else
                    (own extraction; C01's Generated/Wiring.lean carries the same two facts and is imported by Props/C12.lean)
  prologue rng      RNG sites lexically reachable (name-based call graph, over-approximating) from what a task runs BEFORE the
                    first re-seed: everything simulate() calls except `.run_simulation()`, and the statements of
                    LdarSim.run_simulation that precede the day loop
  nondeterminism    non-RNG sources reachable from a run: iteration over a `set` whose order can reach an output
                    (for/comprehension over a set expression or a local bound to one; list()/tuple()/enumerate()/iter()/
                    next()/str.join() of one — sorted()/len()/min()/max()/membership are order-free and not listed),
                    directory listings (os.listdir/scandir/walk, glob.glob/iglob, Path.iterdir/glob/rglob),
                    wall-clock reads (datetime.now/today/utcnow, date.today, time.time/time_ns/perf_counter/monotonic/
                    strftime/localtime/ctime), identity/hash (`id(`, `hash(`)

Call-graph resolution (every rule over-approximates; builtin container/str methods on non-self receivers excepted, see
BUILTIN_METHODS): Name(...) -> function / class constructor chain (__init__, __new__, __post_init__, inherited);
self.m / cls.m / super().m -> m in the class, its ancestors and descendants; Alias.m / module.m -> resolved;
anything.m -> every method named m in a reachable module, EXCEPT when the receiver certainly is a builtin
dict/list/set/str: a literal/comprehension/dict()/list()/set()/str()/sorted() call, a local bound only to such values
in the function, or `self.X` where every `self.X = v` of the class family binds such a value; a bare reference to a function (callback) counts as a call;
an attribute load whose name is a @property in a reachable module counts as a call of that property.
"""
from __future__ import annotations

import ast
import builtins

BUILTIN_NAMES = set(dir(builtins))
HOOKS = ("__deepcopy__", "__copy__", "__reduce__", "__reduce_ex__", "__getstate__", "__setstate__")
# methods of dict/list/set/str/numpy/pandas objects: a call `x.<name>(...)` on a receiver that is not self/cls and does not
# resolve to a src class or module is NOT linked to same-named src methods when the name is in this list and no
# src method of that name exists on a class that is ever instantiated... (kept simple: linked only if a src method has it)
DIR_LISTING = {"os.listdir", "os.scandir", "os.walk", "glob.glob", "glob.iglob", "os.path.walk"}
DIR_METHODS = {"iterdir", "rglob"}
WALL_CLOCK = {"datetime.datetime.now", "datetime.datetime.today", "datetime.datetime.utcnow", "datetime.date.today",
              "time.time", "time.time_ns", "time.perf_counter", "time.monotonic", "time.strftime", "time.localtime",
              "time.ctime", "time.process_time", "time.gmtime"}


def _builtin_container(v):
    """the expression certainly evaluates to a builtin dict/list/set/str (so its methods are not src methods)"""
    if isinstance(v, (ast.Dict, ast.List, ast.Set, ast.ListComp, ast.DictComp, ast.SetComp, ast.JoinedStr)):
        return True
    if isinstance(v, ast.Constant) and isinstance(v.value, str):
        return True
    if isinstance(v, ast.Call) and isinstance(v.func, ast.Name) and v.func.id in ("dict", "list", "set", "frozenset", "str", "tuple", "sorted"):
        return True
    return False


def chain(node):
    parts = []
    while isinstance(node, ast.Attribute):
        parts.append(node.attr)
        node = node.value
    if isinstance(node, ast.Name):
        parts.append(node.id)
        return list(reversed(parts))
    return None


class Graph:
    def __init__(self, mods, reach):
        self.mods, self.reach = mods, reach
        self.funcs = {}        # (mod, qual) -> (FunctionDef, class qual or None)
        self.methods = {}      # method name -> [(mod, qual)]
        self.props = {}        # property name -> [(mod, qual)]
        self.bases = {}        # (mod, classqual) -> [(mod, classqual)]
        self.subs = {}
        for name in sorted(reach):
            m = mods[name]
            self._index(m, m.tree.body, "", None)
        self.attr_builtin = {}   # (mod, classqual) -> {attr: True iff every `self.attr = v` in the class binds a builtin container}
        for n in sorted(reach):
            for cq, cnode in mods[n].class_nodes.items():
                d = {}
                for x in ast.walk(cnode):
                    tg, val = [], None
                    if isinstance(x, ast.Assign):
                        tg, val = x.targets, x.value
                    elif isinstance(x, ast.AnnAssign) and x.value is not None:
                        tg, val = [x.target], x.value
                    for t in tg:
                        if isinstance(t, ast.Attribute) and isinstance(t.value, ast.Name) and t.value.id == "self":
                            d[t.attr] = d.get(t.attr, True) and _builtin_container(val)
                self.attr_builtin[(n, cq)] = d
        for (mod, cq), cnode in [((n, c), mods[n].class_nodes[c]) for n in sorted(reach) for c in mods[n].class_nodes]:
            bl = []
            for b in cnode.bases:
                bp = chain(b)
                if bp:
                    r = self.resolve_class(mods[mod], bp)
                    if r:
                        bl.append(r)
            self.bases[(mod, cq)] = bl
            for b in bl:
                self.subs.setdefault(b, []).append((mod, cq))

    def _index(self, m, body, prefix, cls):
        for st in body:
            if isinstance(st, (ast.FunctionDef, ast.AsyncFunctionDef)):
                q = prefix + st.name
                self.funcs[(m.name, q)] = (st, cls)
                if cls:
                    self.methods.setdefault(st.name, []).append((m.name, q))
                    for d in st.decorator_list:
                        dc = chain(d)
                        if dc and (dc[-1] in ("property", "cached_property") or (len(dc) > 1 and dc[-1] in ("setter", "getter"))):
                            self.props.setdefault(st.name, []).append((m.name, q))
                # nested functions
                self._index(m, st.body, q + ".", cls)
            elif isinstance(st, ast.ClassDef):
                self._index(m, st.body, prefix + st.name + ".", prefix + st.name)
            elif isinstance(st, (ast.If, ast.Try, ast.With, ast.For, ast.While)):
                for fld in ("body", "orelse", "finalbody"):
                    self._index(m, getattr(st, fld, []) or [], prefix, cls)
                for h in getattr(st, "handlers", []) or []:
                    self._index(m, h.body, prefix, cls)

    # -- resolution ------------------------------------------------------------------------------
    def resolve_class(self, m, parts, depth=0):
        """chain -> (mod, classqual) or None"""
        if depth > 6:
            return None
        q = ".".join(parts)
        if q in m.classes:
            return (m.name, q)
        a = m.alias.get(parts[0])
        if a:
            if a[0] == "sym" and a[1] in self.mods:
                return self.resolve_class(self.mods[a[1]], [a[2]] + parts[1:], depth + 1)
            if a[0] == "mod" and a[1] in self.mods and len(parts) > 1:
                return self.resolve_class(self.mods[a[1]], parts[1:], depth + 1)
        return None

    def resolve_func(self, m, parts, depth=0):
        """chain -> (mod, qual) of a module-level function, or None"""
        if depth > 6:
            return None
        if len(parts) == 1 and (m.name, parts[0]) in self.funcs and self.funcs[(m.name, parts[0])][1] is None:
            return (m.name, parts[0])
        a = m.alias.get(parts[0])
        if a:
            if a[0] == "sym" and a[1] in self.mods:
                return self.resolve_func(self.mods[a[1]], [a[2]] + parts[1:], depth + 1)
            if a[0] == "mod" and a[1] in self.mods and len(parts) > 1:
                return self.resolve_func(self.mods[a[1]], parts[1:], depth + 1)
        return None

    def ancestors(self, c, acc=None):
        acc = acc if acc is not None else []
        for b in self.bases.get(c, []):
            if b not in acc:
                acc.append(b)
                self.ancestors(b, acc)
        return acc

    def descendants(self, c, acc=None):
        acc = acc if acc is not None else []
        for b in self.subs.get(c, []):
            if b not in acc:
                acc.append(b)
                self.descendants(b, acc)
        return acc

    def class_methods(self, c, name, down=True):
        out = []
        fam = [c] + self.ancestors(c) + (self.descendants(c) if down else [])
        for (mod, cq) in fam:
            if (mod, cq + "." + name) in self.funcs:
                out.append((mod, cq + "." + name))
        return out

    def ctor(self, c):
        out = []
        for n in ("__init__", "__new__", "__post_init__"):
            out += self.class_methods(c, n, down=False)
        return out

    def callees(self, key, skip_attr_calls=(), stmts=None):
        fn, cls = self.funcs[key]
        m = self.mods[key[0]]
        me = (key[0], cls) if cls else None
        out = set()
        body = stmts if stmts is not None else fn.body
        # locals bound ONLY to builtin containers in this function
        lb = {}
        for x in ast.walk(fn):
            if isinstance(x, ast.Assign):
                for t in x.targets:
                    if isinstance(t, ast.Name):
                        lb[t.id] = lb.get(t.id, True) and _builtin_container(x.value)
            elif isinstance(x, ast.AnnAssign) and isinstance(x.target, ast.Name):
                lb[x.target.id] = lb.get(x.target.id, True) and (x.value is not None and _builtin_container(x.value))
            elif isinstance(x, (ast.For, ast.comprehension, ast.withitem, ast.NamedExpr, ast.AugAssign)):
                for y in ast.walk(x.target if hasattr(x, "target") else (x.optional_vars or ast.Pass())):
                    if isinstance(y, ast.Name):
                        lb[y.id] = False
        for a in fn.args.posonlyargs + fn.args.args + fn.args.kwonlyargs:
            lb[a.arg] = False
        local_builtin = {k for k, v in lb.items() if v}
        todo = list(body)
        while todo:
            n = todo.pop()
            if isinstance(n, (ast.FunctionDef, ast.AsyncFunctionDef)) and n is not fn:
                # a nested function is reachable when its enclosing function is
                for k, (node, _) in self.funcs.items():
                    if node is n:
                        out.add(k)
                continue
            if isinstance(n, ast.ClassDef):
                continue
            todo.extend(ast.iter_child_nodes(n))
            if isinstance(n, ast.Call):
                f = n.func
                if isinstance(f, ast.Attribute) and f.attr in skip_attr_calls:
                    continue
                parts = chain(f)
                if isinstance(f, ast.Name):
                    r = self.resolve_func(m, [f.id])
                    if r:
                        out.add(r)
                    c = self.resolve_class(m, [f.id])
                    if c:
                        out.update(self.ctor(c))
                elif isinstance(f, ast.Attribute):
                    name = f.attr
                    recv = f.value
                    rp = chain(recv)
                    done = False
                    if rp and rp[0] in ("self", "cls") and len(rp) == 1 and me:
                        out.update(self.class_methods(me, name))
                        done = True
                    elif isinstance(recv, ast.Call) and chain(recv.func) == ["super"] and me:
                        out.update(self.class_methods(me, name))
                        done = True
                    elif parts:
                        r = self.resolve_func(m, parts)
                        if r:
                            out.add(r)
                            done = True
                        c = self.resolve_class(m, parts)
                        if c:
                            out.update(self.ctor(c))
                            done = True
                        c = self.resolve_class(m, parts[:-1]) if len(parts) > 1 else None
                        if c:
                            out.update(self.class_methods(c, name))
                            done = True
                    if not done and rp and len(rp) == 2 and rp[0] == "self" and me:
                        fam = [me] + self.ancestors(me) + self.descendants(me)
                        known = [self.attr_builtin.get(c, {}).get(rp[1]) for c in fam]
                        known = [k for k in known if k is not None]
                        if known and all(known):
                            done = True   # receiver is a builtin container in every assignment of the class family
                    if not done and rp and len(rp) == 1 and rp[0] in local_builtin:
                        done = True
                    if not done and _builtin_container(recv):
                        done = True
                    if not done:
                        out.update(self.methods.get(name, []))
            elif isinstance(n, ast.Attribute) and isinstance(n.ctx, ast.Load):
                if n.attr in self.props:
                    out.update(self.props[n.attr])
            elif isinstance(n, ast.Name) and isinstance(n.ctx, ast.Load):
                r = self.resolve_func(m, [n.id])
                if r:
                    out.add(r)
        return out

    def closure(self, roots):
        seen, todo = set(roots), list(roots)
        while todo:
            k = todo.pop()
            if k not in self.funcs:
                continue
            for c in self.callees(k):
                if c not in seen:
                    seen.add(c)
                    todo.append(c)
        return seen


def prologue_functions(ex, G):
    """functions reachable before the first re-seed of a task"""
    from harness.extract.effects import PatternError

    k_sim = ("simulation.simulation_helpers", "simulate")
    k_run = ("ldar_sim", "LdarSim.run_simulation")
    if k_sim not in G.funcs:
        raise PatternError("pattern missing: simulation.simulation_helpers.simulate")
    if k_run not in G.funcs:
        raise PatternError("pattern missing: ldar_sim.LdarSim.run_simulation")
    roots = set(G.callees(k_sim, skip_attr_calls=("run_simulation",)))
    fn, _ = G.funcs[k_run]
    pre = []
    for st in fn.body:
        if isinstance(st, ast.While):
            break
        pre.append(st)
    else:
        raise PatternError("pattern missing: day loop in LdarSim.run_simulation")
    roots |= set(G.callees(k_run, stmts=pre))
    roots.discard(k_run)
    reach = G.closure(roots)
    # run_simulation itself is reached through .run_simulation(); its loop body is not prologue
    reach.discard(k_run)
    return reach


# ------------------------------------------------------------------------------------------------
# copy hooks
# ------------------------------------------------------------------------------------------------
def _closed(fn, extra_ok=()):
    """the function loads only its parameters, locals, builtins (attribute access on them is fine)"""
    a = fn.args
    ok = {x.arg for x in a.posonlyargs + a.args + a.kwonlyargs} | set(extra_ok)
    if a.vararg:
        ok.add(a.vararg.arg)
    if a.kwarg:
        ok.add(a.kwarg.arg)
    for n in ast.walk(fn):
        if isinstance(n, ast.Name) and isinstance(n.ctx, ast.Store):
            ok.add(n.id)
    bad = []
    for n in ast.walk(fn):
        if isinstance(n, ast.Name) and isinstance(n.ctx, ast.Load) and n.id not in ok and n.id not in BUILTIN_NAMES:
            bad.append(n.id)
        if isinstance(n, (ast.Global, ast.Nonlocal)):
            bad.append("global")
    return sorted(set(bad))


def copy_hooks(ex, G):
    rows = []
    for (mod, qual), (fn, cls) in sorted(G.funcs.items()):
        name = qual.split(".")[-1]
        if cls is None or name not in HOOKS or qual != cls + "." + name:
            continue
        m = ex.mods[mod]
        why = ""
        if name in ("__deepcopy__", "__copy__"):
            deep = name == "__copy__"   # copy.deepcopy never calls __copy__
            why = "hand-written deep copy" if not deep else "not used by deepcopy"
        else:
            bad = _closed(fn)
            # reconstructor named in the returned tuple
            for n in ast.walk(fn):
                if isinstance(n, ast.Return) and n.value is not None:
                    first = n.value.elts[0] if isinstance(n.value, ast.Tuple) and n.value.elts else None
                    p = chain(first) if first is not None else None
                    if name in ("__reduce__", "__reduce_ex__"):
                        if not p or p[0] not in ("self", "cls"):
                            bad.append("reconstructor:" + (ast.unparse(first) if first is not None else ast.unparse(n.value)))
                        else:
                            target = (mod, cls)
                            cands = G.class_methods(target, p[-1], down=False)
                            if not cands:
                                bad.append("reconstructor-not-found:" + p[-1])
                            for k in cands:
                                bad += ["in " + k[1] + ": " + b for b in _closed(G.funcs[k][0])]
            deep = not bad
            why = "; ".join(bad)
        rows.append({"file": m.rel, "line": fn.lineno, "cls": cls, "hook": name, "deep": deep, "why": why})
    return rows


def copy_wiring(ex, G):
    from harness.extract.effects import PatternError

    k = ("simulation.simulation_helpers", "simulate")
    if k not in G.funcs:
        raise PatternError("pattern missing: simulation.simulation_helpers.simulate")
    fn, _ = G.funcs[k]
    params = [a.arg for a in fn.args.posonlyargs + fn.args.args + fn.args.kwonlyargs]
    if "infrastructure" not in params:
        raise PatternError("pattern missing: parameter `infrastructure` of simulate()")
    n_copy, targets = 0, set()
    for n in ast.walk(fn):
        if isinstance(n, ast.Assign) and isinstance(n.value, ast.Call):
            c = n.value
            if ast.unparse(c.func) in ("copy.deepcopy", "deepcopy") and len(c.args) == 1 and ast.unparse(c.args[0]) == "infrastructure":
                n_copy += 1
                targets |= {t.id for t in n.targets if isinstance(t, ast.Name)}
    uses = [n for n in ast.walk(fn) if isinstance(n, ast.Name) and n.id == "infrastructure" and isinstance(n.ctx, ast.Load)]
    # `deepcopy` must be the library function
    m = ex.mods[k[0]]
    a = m.alias.get("copy") or m.alias.get("deepcopy")
    lib = bool(a and a[0] == "ext" and a[1] in ("copy", "copy.deepcopy"))
    return {"file": m.rel, "line": fn.lineno, "deepCopies": bool(n_copy >= 1 and len(targets) == 1 and lib),
            "usesOnlyCopy": bool(n_copy >= 1 and len(uses) == n_copy)}


# ------------------------------------------------------------------------------------------------
# non-RNG nondeterminism
# ------------------------------------------------------------------------------------------------
def _is_set_expr(n, set_locals):
    if isinstance(n, (ast.Set, ast.SetComp)):
        return True
    if isinstance(n, ast.Call):
        c = chain(n.func)
        if c in (["set"], ["frozenset"]):
            return True
        if isinstance(n.func, ast.Attribute) and n.func.attr in ("union", "intersection", "difference", "symmetric_difference") \
                and _is_set_expr(n.func.value, set_locals):
            return True
        if isinstance(n.func, ast.Attribute) and n.func.attr in ("keys",) and False:
            return True
    if isinstance(n, ast.Name) and n.id in set_locals:
        return True
    if isinstance(n, ast.BinOp) and isinstance(n.op, (ast.BitOr, ast.BitAnd, ast.Sub, ast.BitXor)):
        return _is_set_expr(n.left, set_locals) and _is_set_expr(n.right, set_locals)
    return False


ORDER_CONSUMERS = {"list", "tuple", "enumerate", "iter", "next", "zip", "map", "filter", "reversed"}


def nondet_sites(ex, G):
    rows = []
    for (mod, qual), (fn, cls) in sorted(G.funcs.items()):
        m = ex.mods[mod]
        set_locals = set()
        own = []
        todo = list(fn.body)
        while todo:
            n = todo.pop()
            own.append(n)
            for c in ast.iter_child_nodes(n):
                if isinstance(c, (ast.FunctionDef, ast.AsyncFunctionDef, ast.ClassDef)):
                    continue
                todo.append(c)
        for n in own:
            if isinstance(n, ast.Assign) and len(n.targets) == 1 and isinstance(n.targets[0], ast.Name):
                if _is_set_expr(n.value, set()):
                    set_locals.add(n.targets[0].id)
            if isinstance(n, ast.AnnAssign) and isinstance(n.target, ast.Name) and n.value is not None and _is_set_expr(n.value, set()):
                set_locals.add(n.target.id)

        def add(node, kind, call):
            rows.append({"file": m.rel, "line": node.lineno, "func": qual, "kind": kind, "call": call})

        for n in own:
            if isinstance(n, (ast.For, ast.AsyncFor)) and _is_set_expr(n.iter, set_locals):
                add(n, "setIteration", "for ... in " + ast.unparse(n.iter)[:60])
            if isinstance(n, ast.comprehension) and _is_set_expr(n.iter, set_locals):
                add(n.iter, "setIteration", "comprehension over " + ast.unparse(n.iter)[:60])
            if isinstance(n, ast.Call):
                c = chain(n.func)
                if c and len(c) == 1 and c[0] in ORDER_CONSUMERS and n.args and _is_set_expr(n.args[0], set_locals):
                    add(n, "setIteration", c[0] + "(" + ast.unparse(n.args[0])[:60] + ")")
                if isinstance(n.func, ast.Attribute) and n.func.attr == "join" and n.args and _is_set_expr(n.args[0], set_locals):
                    add(n, "setIteration", "join(" + ast.unparse(n.args[0])[:60] + ")")
                if isinstance(n.func, ast.Attribute) and n.func.attr == "pop" and not n.args and _is_set_expr(n.func.value, set_locals):
                    add(n, "setIteration", ast.unparse(n.func.value)[:60] + ".pop()")
                if c:
                    a = m.alias.get(c[0])
                    p = ".".join([a[1]] + c[1:]) if a and a[0] == "ext" else None
                    if p in DIR_LISTING:
                        add(n, "dirListing", p)
                    elif p in WALL_CLOCK or (p and p.startswith("datetime.") and c[-1] in ("now", "today", "utcnow")):
                        add(n, "wallClock", p)
                    elif len(c) == 1 and c[0] in ("id", "hash") and c[0] not in m.alias:
                        add(n, "identity", c[0] + "(...)")
                if isinstance(n.func, ast.Attribute) and n.func.attr in DIR_METHODS:
                    add(n, "dirListing", "<path>." + n.func.attr)
                if isinstance(n.func, ast.Attribute) and n.func.attr == "glob" and not (c and m.alias.get(c[0], ("",))[0] == "ext"):
                    add(n, "dirListing", "<path>.glob")
    return rows


def memo_functions(ex, G):
    """functions whose results are memoised in a process-wide cache (functools.lru_cache / cache / cached_property on a
    class-level descriptor is per instance and not listed): the cache is module-level state that survives between tasks;
    listed among the shared mutations (operation "@lru_cache" / "@cache")"""
    rows = []
    for (mod, qual), (fn, cls) in sorted(G.funcs.items()):
        m = ex.mods[mod]
        for d in fn.decorator_list:
            c = chain(d.func if isinstance(d, ast.Call) else d)
            if c and c[-1] in ("lru_cache", "cache"):
                rows.append({"file": m.rel, "line": fn.lineno, "func": qual, "target": f"{mod}:{qual}.<memo cache>", "op": "@" + c[-1]})
    return rows
