"""ast extractor: key tables of the propagating parameters -> lean/LdarModel/Generated/Levels.lean

Read from the working tree of the repo on every run of C15 (nothing is imported, only parsed):
  constants/infrastructure_const.py  every constant class of Infrastructure_Constants (the key each
                                     level uses for each propagating parameter, the lists the levels
                                     loop over, the lists that are scaled / cleaned) and
                                     Virtual_World_To_Prop_Params_Mapping (global key -> access path)
  constants/param_default_const.py   the names used in those access paths; Common_Params
  constants/general_const.py         Emission_Constants.REP_PREFIX / NON_REP_PREFIX, placeholder names
  virtual_world/sources.py           the un-prefixing rule of Source._update_prop_params (pattern
                                     checked), the key behind every attribute that
                                     _set_propagating_source_properties assigns, the prefix choice
  virtual_world/sites.py             the four method-specific entries Site.__init__ pops, the lists
                                     _create_equipment_groups scales, the keys of the placeholder test
  virtual_world/equipment_groups.py  the two entries _set_method_specific_params pops, the two keys
                                     _create_components divides, the lists the cleaning drops
  virtual_world/infrastructure.py    the lists update_propagating_params loops over at each level
The extractor fails loudly (ExtractError -> infrastructure error, exit 2) when a pattern it expects
is missing; it never guesses.
"""
from __future__ import annotations

import ast
import hashlib
import json
import os

from harness import shim

LEAN_GEN = os.path.join(os.path.dirname(os.path.dirname(os.path.dirname(os.path.abspath(__file__)))),
                        "lean", "LdarModel", "Generated")


class ExtractError(Exception):
    pass


# ----------------------------------------------------------------------------------------------
# a tiny evaluator for constant classes
# ----------------------------------------------------------------------------------------------
class _Cls(dict):
    """namespace of a constants class: name -> str | list | dict | _Cls"""


def _eval(node, scopes, src, where):
    """scopes: list of dicts searched innermost first"""
    if isinstance(node, ast.Constant) and isinstance(node.value, (str, bool, int)):
        return node.value
    if isinstance(node, ast.Name):
        for sc in scopes:
            if node.id in sc:
                return sc[node.id]
        raise ExtractError(f"{where}: unknown name {node.id} (line {node.lineno})")
    if isinstance(node, ast.Attribute):
        base = _eval(node.value, scopes, src, where)
        if not isinstance(base, dict) or node.attr not in base:
            raise ExtractError(f"{where}: cannot resolve .{node.attr} (line {node.lineno})")
        return base[node.attr]
    if isinstance(node, (ast.List, ast.Tuple)):
        return [_eval(e, scopes, src, where) for e in node.elts]
    if isinstance(node, ast.Dict):
        return {_eval(k, scopes, src, where): _eval(v, scopes, src, where)
                for k, v in zip(node.keys, node.values)}
    if isinstance(node, ast.BinOp) and isinstance(node.op, ast.Add):
        a, b = _eval(node.left, scopes, src, where), _eval(node.right, scopes, src, where)
        if isinstance(a, str) and isinstance(b, str):
            return a + b
        raise ExtractError(f"{where}: + on non-strings (line {node.lineno})")
    if (isinstance(node, ast.Call) and isinstance(node.func, ast.Attribute) and node.func.attr == "join"
            and isinstance(node.func.value, ast.Constant) and isinstance(node.func.value.value, str)
            and len(node.args) == 1 and not node.keywords):
        parts = _eval(node.args[0], scopes, src, where)
        if not (isinstance(parts, list) and all(isinstance(p, str) for p in parts)):
            raise ExtractError(f"{where}: join of non-strings (line {node.lineno})")
        return node.func.value.value.join(parts)
    raise ExtractError(f"{where}: untranslatable expression {ast.dump(node)[:80]} (line {getattr(node, 'lineno', '?')})")


def _eval_class(cdef, outer, src, where):
    ns = _Cls()
    for st in cdef.body:
        if isinstance(st, ast.ClassDef):
            ns[st.name] = _eval_class(st, [ns] + outer, src, where)
        elif isinstance(st, ast.Assign) and len(st.targets) == 1 and isinstance(st.targets[0], ast.Name):
            try:
                ns[st.targets[0].id] = _eval(st.value, [ns] + outer, src, where)
            except ExtractError:
                pass  # constants of other kinds (floats, dataclass fields …) are not needed
        elif isinstance(st, ast.AnnAssign) and isinstance(st.target, ast.Name) and st.value is not None:
            try:
                ns[st.target.id] = _eval(st.value, [ns] + outer, src, where)
            except ExtractError:
                pass
    return ns


def _load_constants(relpath, imports=None):
    path = os.path.join(shim.REPO_SRC, relpath)
    src = open(path).read()
    tree = ast.parse(src)
    top = dict(imports or {})
    for st in tree.body:
        if isinstance(st, ast.ClassDef):
            top[st.name] = _eval_class(st, [top], src, relpath)
    return top, src, tree


# ----------------------------------------------------------------------------------------------
# method bodies
# ----------------------------------------------------------------------------------------------
def _find_method(tree, cls, name, where):
    for st in tree.body:
        if isinstance(st, ast.ClassDef) and st.name == cls:
            for f in st.body:
                if isinstance(f, ast.FunctionDef) and f.name == name:
                    return f
    raise ExtractError(f"{where}: {cls}.{name} not found")


def _import_aliases(tree):
    """alias -> dotted original, for `from m import A as B`, `import m as B`, nested tuples"""
    out = {}
    for st in tree.body:
        if isinstance(st, ast.ImportFrom):
            for a in st.names:
                out[a.asname or a.name] = (st.module, a.name)
        elif isinstance(st, ast.Import):
            for a in st.names:
                out[a.asname or a.name] = (a.name, None)
    return out


class _Repo:
    def __init__(self):
        self.pdc, _, _ = _load_constants("constants/param_default_const.py")
        self.gc, _, _ = _load_constants("constants/general_const.py")
        self.ic_top, self.ic_src, self.ic_tree = _load_constants(
            "constants/infrastructure_const.py", imports={"param_default_const": self.pdc})
        if "Infrastructure_Constants" not in self.ic_top or "Virtual_World_To_Prop_Params_Mapping" not in self.ic_top:
            raise ExtractError("infrastructure_const.py: constant classes not found")
        self.IC = self.ic_top["Infrastructure_Constants"]
        self.VW = self.ic_top["Virtual_World_To_Prop_Params_Mapping"]

    def scope_for(self, tree):
        """names a virtual_world module can use to reach the constant classes"""
        sc = {}
        for alias, (mod, name) in _import_aliases(tree).items():
            if mod == "constants.infrastructure_const" and name in self.ic_top:
                sc[alias] = self.ic_top[name]
            elif mod == "constants.param_default_const" and name is None:
                sc[alias] = self.pdc
            elif mod == "constants.param_default_const" and name in self.pdc:
                sc[alias] = self.pdc[name]
            elif mod == "constants.general_const" and name in self.gc:
                sc[alias] = self.gc[name]
            elif mod == "constants" and name == "param_default_const":
                sc[alias] = self.pdc
        return sc


def _parse(rel):
    path = os.path.join(shim.REPO_SRC, rel)
    src = open(path).read()
    return src, ast.parse(src)


def _self_attr(node):
    return node.attr if (isinstance(node, ast.Attribute) and isinstance(node.value, ast.Name)
                         and node.value.id == "self") else None


def _subscript_chain(node):
    """prop_params[a][b] -> ('prop_params', [a, b]) (slice nodes)"""
    keys = []
    while isinstance(node, ast.Subscript):
        keys.append(node.slice)
        node = node.value
    if isinstance(node, ast.Name):
        return node.id, list(reversed(keys))
    return None, []


def _extract_sources(repo):
    rel = "virtual_world/sources.py"
    src, tree = _parse(rel)
    sc = [repo.scope_for(tree)]
    meth = repo.pdc["Common_Params"]["METH_SPECIFIC"]
    # (a) attribute <- key in _set_propagating_source_properties
    f = _find_method(tree, "Source", "_set_propagating_source_properties", rel)
    attr_key, attr_meth = {}, {}
    for node in ast.walk(f):
        if isinstance(node, ast.Assign) and len(node.targets) == 1 and _self_attr(node.targets[0]):
            attr = _self_attr(node.targets[0])
            val = node.value
            # unwrap int(...) and self._helper(...)
            while isinstance(val, ast.Call) and len(val.args) == 1:
                val = val.args[0]
            base, keys = _subscript_chain(val)
            if base != "prop_params" or not keys:
                continue
            ks = [_eval(k, sc, src, rel) for k in keys]
            if ks[0] == meth and len(ks) >= 2:
                attr_meth[attr] = ks[1]
            else:
                attr_key[attr] = ks[0]
    need = {"_emis_rate_source", "_emis_prod_rate", "_emis_duration", "_multi_emissions",
            "_emis_rep_delay", "_emis_rep_cost"}
    needm = {"_meth_spat_covs", "_meth_temp_covs"}
    if not need <= set(attr_key) or not needm <= set(attr_meth):
        raise ExtractError(f"{rel}: _set_propagating_source_properties: attributes {sorted(need - set(attr_key))}"
                           f" {sorted(needm - set(attr_meth))} not assigned from prop_params[...]")
    # (b) the un-prefixing rule
    f = _find_method(tree, "Source", "_update_prop_params", rel)
    ok_in = ok_sub = ok_get = ok_set = False
    for node in ast.walk(f):
        if (isinstance(node, ast.Compare) and len(node.ops) == 1 and isinstance(node.ops[0], ast.In)
                and _self_attr(node.left) == "_prefix" and isinstance(node.comparators[0], ast.Name)
                and node.comparators[0].id == "param"):
            ok_in = True
        if (isinstance(node, ast.Call) and isinstance(node.func, ast.Attribute) and node.func.attr == "sub"
                and isinstance(node.func.value, ast.Name) and node.func.value.id == "re"
                and len(node.args) == 3 and _self_attr(node.args[0]) == "_prefix"
                and isinstance(node.args[1], ast.Constant) and node.args[1].value == ""
                and isinstance(node.args[2], ast.Name) and node.args[2].id == "param"):
            ok_sub = True
        if (isinstance(node, ast.Call) and isinstance(node.func, ast.Attribute) and node.func.attr == "get"
                and isinstance(node.func.value, ast.Name) and node.func.value.id == "info"
                and node.args and isinstance(node.args[0], ast.Name) and node.args[0].id == "src_param"):
            ok_get = True
        if (isinstance(node, ast.Assign) and isinstance(node.targets[0], ast.Subscript)
                and isinstance(node.targets[0].value, ast.Name) and node.targets[0].value.id == "prop_params"
                and isinstance(node.targets[0].slice, ast.Name) and node.targets[0].slice.id == "src_param"):
            ok_set = True
    if not (ok_in and ok_sub and ok_get and ok_set):
        raise ExtractError(f"{rel}: _update_prop_params: un-prefixing pattern not recognised "
                           f"(in={ok_in} sub={ok_sub} get={ok_get} set={ok_set})")
    # (c) prefix choice
    f = _find_method(tree, "Source", "_set_prefix", rel)
    pre = None
    for node in ast.walk(f):
        if isinstance(node, ast.IfExp) and _self_attr(node.test) == "_repairable":
            pre = (_eval(node.body, sc, src, rel), _eval(node.orelse, sc, src, rel))
    if pre is None:
        raise ExtractError(f"{rel}: _set_prefix: `A if self._repairable else B` not found")
    return attr_key, attr_meth, pre, (f.lineno, f.end_lineno)


def _pops(func, sc, src, rel, dict_names):
    """self.attr = <dict>[METH].pop(KEY)  ->  {attr: KEY}"""
    out = {}
    for node in ast.walk(func):
        if isinstance(node, (ast.Assign, ast.AnnAssign)):
            tgt = node.targets[0] if isinstance(node, ast.Assign) else node.target
            attr = _self_attr(tgt)
            val = node.value
            if (attr and isinstance(val, ast.Call) and isinstance(val.func, ast.Attribute)
                    and val.func.attr == "pop" and len(val.args) == 1):
                base, _ = _subscript_chain(val.func.value)
                if base in dict_names:
                    out[attr] = _eval(val.args[0], sc, src, rel)
    return out


def _loop_lists(func, sc, src, rel):
    """the iterables of every `for x in <constant list>` of a function, in source order"""
    out = []
    for node in ast.walk(func):
        if isinstance(node, ast.For):
            try:
                v = _eval(node.iter, sc, src, rel)
            except ExtractError:
                continue
            if isinstance(v, list):
                out.append((node.lineno, ast.unparse(node.iter).split(".")[-2:], v))
    out.sort(key=lambda t: t[0])
    return out


# ----------------------------------------------------------------------------------------------
# state that could survive between two constructions, and the pickling hooks
# ----------------------------------------------------------------------------------------------
WORLD_MODULES = ["virtual_world/infrastructure.py", "virtual_world/sites.py", "virtual_world/equipment_groups.py",
                 "virtual_world/component.py", "virtual_world/sources.py"]
_MUTATORS = {"append", "extend", "insert", "remove", "pop", "clear", "sort", "reverse", "update", "setdefault",
             "popitem", "add", "discard"}
_CONTAINER_CALLS = {"list", "dict", "set", "defaultdict", "OrderedDict", "deque", "Counter"}
_CONST_MODULES = {"constants.infrastructure_const", "constants.param_default_const", "constants.general_const",
                  "constants.error_messages", "constants.output_file_constants", "constants"}


def _is_container(node):
    if isinstance(node, (ast.List, ast.Dict, ast.Set, ast.ListComp, ast.DictComp, ast.SetComp)):
        return True
    return (isinstance(node, ast.Call) and isinstance(node.func, ast.Name) and node.func.id in _CONTAINER_CALLS)


def _root(node):
    while isinstance(node, (ast.Attribute, ast.Subscript)):
        node = node.value
    return node.id if isinstance(node, ast.Name) else None


def scan_shared_state():
    """(hazards, reduce_table): syntactic table of everything in the five world-building modules that
    could carry state from one construction to the next or between sibling objects:
      module-/class-level mutable containers, caching decorators, __deepcopy__/__copy__/__getstate__
      hooks, in-place mutation of a constants container (directly, through a local alias bound without
      a copy, or through a class attribute); and, for every class with __reduce__, the arity and the
      order of the arguments against _reconstruct"""
    hazards, reduce_rows = [], []
    for rel in WORLD_MODULES:
        src, tree = _parse(rel)
        mod = rel.split("/")[-1][:-3]
        const_roots = {alias for alias, (m, name) in _import_aliases(tree).items() if m in _CONST_MODULES}
        class_names = {n.name for n in tree.body if isinstance(n, ast.ClassDef)}
        for st in tree.body:
            if isinstance(st, (ast.Assign, ast.AnnAssign)) and st.value is not None and _is_container(st.value):
                hazards.append((mod, "module-level-container", ast.unparse(st).split("\n")[0][:60]))
        for cdef in [n for n in tree.body if isinstance(n, ast.ClassDef)]:
            for st in cdef.body:
                if isinstance(st, (ast.Assign, ast.AnnAssign)) and st.value is not None and _is_container(st.value):
                    hazards.append((mod, "class-level-container", f"{cdef.name}: " + ast.unparse(st).split("\n")[0][:60]))
            funcs = {f.name: f for f in cdef.body if isinstance(f, ast.FunctionDef)}
            for f in funcs.values():
                for dec in f.decorator_list:
                    text = ast.unparse(dec)
                    if any(w in text for w in ("lru_cache", "cache", "cached_property", "memo")):
                        hazards.append((mod, "caching-decorator", f"{cdef.name}.{f.name}: @{text}"))
                if f.name in ("__deepcopy__", "__copy__", "__getstate__", "__setstate__"):
                    hazards.append((mod, "copy-hook", f"{cdef.name}.{f.name}"))
                # aliases of constants / class attributes bound without a copy
                aliases = set()
                for node in ast.walk(f):
                    if isinstance(node, (ast.Assign, ast.AnnAssign)) and node.value is not None:
                        tgt = node.targets[0] if isinstance(node, ast.Assign) else node.target
                        val = node.value
                        if isinstance(val, (ast.Attribute, ast.Subscript)) and \
                                (_root(val) in const_roots | class_names | {"cls"}):
                            aliases.add(ast.unparse(tgt))
                def shared(expr):
                    r = _root(expr)
                    text = ast.unparse(expr)
                    if r in const_roots | class_names or r == "cls":
                        return isinstance(expr, (ast.Attribute, ast.Subscript))
                    if text.startswith("type(self).") or text.startswith("self.__class__."):
                        return True
                    return text in aliases
                for node in ast.walk(f):
                    if isinstance(node, ast.Call) and isinstance(node.func, ast.Attribute) \
                            and node.func.attr in _MUTATORS and shared(node.func.value):
                        hazards.append((mod, "in-place-mutation-of-shared-container",
                                        f"{cdef.name}.{f.name}:{node.lineno}: {ast.unparse(node)[:70]}"))
                    if isinstance(node, (ast.Assign, ast.AugAssign, ast.Delete)):
                        tgts = node.targets if isinstance(node, (ast.Assign, ast.Delete)) else [node.target]
                        for tg in tgts:
                            if isinstance(tg, ast.Subscript) and shared(tg.value):
                                hazards.append((mod, "in-place-mutation-of-shared-container",
                                                f"{cdef.name}.{f.name}:{node.lineno}: {ast.unparse(node)[:70]}"))
                            if isinstance(tg, ast.Attribute) and (_root(tg) in const_roots | class_names | {"cls"}):
                                hazards.append((mod, "assignment-to-class-or-constant-attribute",
                                                f"{cdef.name}.{f.name}:{node.lineno}: {ast.unparse(node)[:70]}"))
            # pickling: __reduce__ hands _reconstruct its arguments positionally
            if "__reduce__" in funcs:
                red, rec = funcs["__reduce__"], funcs.get("_reconstruct")
                args = None
                for node in ast.walk(red):
                    if isinstance(node, ast.Assign) and isinstance(node.targets[0], ast.Name) \
                            and node.targets[0].id == "args" and isinstance(node.value, ast.Tuple):
                        args = [_self_attr(e) for e in node.value.elts]
                if args is None or rec is None or None in args:
                    hazards.append((mod, "reduce-shape-not-recognised", cdef.name))
                    continue
                params = [a.arg for a in rec.args.args][1:]
                n_default = len(rec.args.defaults)
                assigned = {}
                for node in ast.walk(rec):
                    if isinstance(node, ast.Assign) and isinstance(node.targets[0], ast.Attribute) \
                            and isinstance(node.targets[0].value, ast.Name) and node.targets[0].value.id == "instance" \
                            and isinstance(node.value, ast.Name):
                        assigned[node.value.id] = node.targets[0].attr
                order_ok = len(args) <= len(params) and all(assigned.get(pn) == a for a, pn in zip(args, params))
                reduce_rows.append((cdef.name, len(args), len(params) - n_default, len(params), order_ok))
    return hazards, reduce_rows


def extract():
    repo = _Repo()
    IC, VW = repo.IC, repo.VW
    S, T, E, R = (IC[c] for c in ("Sites_File_Constants", "Site_Type_File_Constants",
                                  "Equipment_Group_File_Constants", "Sources_File_Constants"))
    attr_key, attr_meth, prefixes, _ = _extract_sources(repo)

    rel = "virtual_world/sites.py"
    src, tree = _parse(rel)
    sc = [repo.scope_for(tree)]
    site_pops = _pops(_find_method(tree, "Site", "__init__", rel), sc, src, rel, {"propagating_params"})
    for a in ("_survey_frequencies", "_deployment_months", "_deployment_years", "_deploy_method"):
        if a not in site_pops:
            raise ExtractError(f"{rel}: Site.__init__ does not pop {a}")
    ceg = _find_method(tree, "Site", "_create_equipment_groups", rel)
    scale_lists = _loop_lists(ceg, sc, src, rel)
    scale_plain = [v for (_, nm, v) in scale_lists if nm[-1] == "PROPAGATING_PARAMS_TO_SCALE"]
    scale_meth = [v for (_, nm, v) in scale_lists if nm[-1] == "METH_SPEC_PROP_PARAMS_TO_SCALE"]
    if not scale_plain or not scale_meth or any(v != scale_plain[0] for v in scale_plain) \
            or any(v != scale_meth[0] for v in scale_meth):
        raise ExtractError(f"{rel}: _create_equipment_groups: scaling loops not recognised")
    # keys of the placeholder decision: propagating_params[<const>] reads in _create_equipment_groups
    ph_keys = []
    for node in ast.walk(ceg):
        if isinstance(node, ast.Assign) and isinstance(node.targets[0], ast.Name) \
                and node.targets[0].id in ("rep_emis_epr", "nonrep_emis_epr"):
            base, keys = _subscript_chain(node.value)
            if base == "propagating_params" and len(keys) == 1:
                ph_keys.append((node.targets[0].id, _eval(keys[0], sc, src, rel)))
    ph = dict(ph_keys)
    if set(ph) != {"rep_emis_epr", "nonrep_emis_epr"} or len(set(ph_keys)) != 2:
        raise ExtractError(f"{rel}: placeholder production-rate reads not recognised: {ph_keys}")

    rel = "virtual_world/equipment_groups.py"
    src, tree = _parse(rel)
    sc = [repo.scope_for(tree)]
    eq_pops = _pops(_find_method(tree, "Equipment_Group", "_set_method_specific_params", rel), sc, src, rel,
                    {"prop_params"})
    if set(eq_pops) != {"_meth_survey_times", "_meth_survey_costs"}:
        raise ExtractError(f"{rel}: _set_method_specific_params pops {sorted(eq_pops)}")
    cc = _find_method(tree, "Equipment_Group", "_create_components", rel)
    div = {}
    for node in ast.walk(cc):
        if isinstance(node, ast.Assign) and isinstance(node.targets[0], ast.Name) \
                and node.targets[0].id in ("nonrep_epr", "rep_epr"):
            base, keys = _subscript_chain(node.value)
            if base == "prop_params" and len(keys) == 1:
                div[node.targets[0].id] = _eval(keys[0], sc, src, rel)
    if set(div) != {"nonrep_epr", "rep_epr"}:
        raise ExtractError(f"{rel}: _create_components: divided keys not recognised: {div}")
    clean = _find_method(tree, "Equipment_Group", "_clean_propagating_parameters_from_equipment_info", rel)
    clean_plain = clean_meth = None
    for node in ast.walk(clean):
        if isinstance(node, (ast.Assign, ast.AnnAssign)):
            tgt = node.targets[0] if isinstance(node, ast.Assign) else node.target
            if isinstance(tgt, ast.Name) and tgt.id == "info_labels_to_drop":
                val = node.value
                if (isinstance(val, ast.Call) and isinstance(val.func, ast.Name) and val.func.id == "list"
                        and len(val.args) == 1 and not val.keywords):
                    val = val.args[0]          # list(CONSTANT): a copy of the constant list
                clean_plain = _eval(val, sc, src, rel)
        if isinstance(node, ast.For):
            try:
                v = _eval(node.iter, sc, src, rel)
                if isinstance(v, list):
                    clean_meth = v
            except ExtractError:
                pass
    if clean_plain is None or clean_meth is None:
        raise ExtractError(f"{rel}: cleaning lists not recognised")

    rel = "virtual_world/infrastructure.py"
    src, tree = _parse(rel)
    sc = [repo.scope_for(tree)]
    upp = _find_method(tree, "Infrastructure", "update_propagating_params", rel)
    loops = _loop_lists(upp, sc, src, rel)
    by = {}
    for (_, nm, v) in loops:
        by.setdefault(tuple(nm), v)
    want = {("Site_Type_File_Constants", "PROPAGATING_PARAMS"): "typePlain",
            ("Site_Type_File_Constants", "METH_SPEC_PROP_PARAMS"): "typeMeth",
            ("Sites_File_Constants", "PROPAGATING_PARAMS"): "sitePlain",
            ("Sites_File_Constants", "METH_SPEC_PROP_PARAMS"): "siteMeth"}
    lv = {}
    for k, name in want.items():
        if k not in by:
            raise ExtractError(f"{rel}: update_propagating_params: loop over {'.'.join(k)} not found")
        lv[name] = by[k]
    gpp = _find_method(tree, "Infrastructure", "generate_propagating_params", rel)
    gsrc = ast.unparse(gpp)
    if "VW.PROPAGATING_PARAMS.items()" not in gsrc or "VW.METH_SPEC_PROP_PARAMS.items()" not in gsrc \
            or "SITE_DEPLOYMENT_PLACEHOLDER" not in gsrc:
        raise ExtractError(f"{rel}: generate_propagating_params: pattern not recognised")

    # the sampling call: `<frame>.sample(n_samples)` — one positional argument, no `replace=` / `weights=`
    gi = _find_method(tree, "Infrastructure", "generate_infrastructure", rel)
    sample_calls = [n for n in ast.walk(gi) if isinstance(n, ast.Call) and isinstance(n.func, ast.Attribute)
                    and n.func.attr == "sample"]
    if len(sample_calls) != 1:
        raise ExtractError(f"{rel}: generate_infrastructure: expected exactly one `<frame>.sample(...)` call, "
                           f"found {[ast.unparse(c) for c in sample_calls]}")
    # a changed call shape is not an extraction failure: it is reported as a broken obligation and the
    # worlds built in the same run show whether the sample is still n distinct rows
    sample_plain = (len(sample_calls[0].args) == 1 and not sample_calls[0].keywords
                    and isinstance(sample_calls[0].args[0], ast.Name))
    sample_call = ast.unparse(sample_calls[0])

    # the form of the per-method lookup at every level: `<row>.get(method + param, None)` inside loops over
    # the parameters and the methods (an exact match of the column name, never a split of the label)
    def exact_lookup(func, row_names):
        found = set()
        for node in ast.walk(func):
            if (isinstance(node, ast.Call) and isinstance(node.func, ast.Attribute) and node.func.attr == "get"
                    and isinstance(node.func.value, ast.Name) and node.func.value.id in row_names and node.args
                    and isinstance(node.args[0], ast.BinOp) and isinstance(node.args[0].op, ast.Add)
                    and isinstance(node.args[0].left, ast.Name) and node.args[0].left.id == "method"
                    and isinstance(node.args[0].right, ast.Name) and node.args[0].right.id == "param"):
                found.add(node.func.value.id)
        # no other way of reading the row by a computed label
        other = [n for n in ast.walk(func) if isinstance(n, ast.Call) and isinstance(n.func, ast.Attribute)
                 and n.func.attr in ("items", "partition", "split", "rsplit", "startswith", "endswith", "index")
                 and isinstance(n.func.value, (ast.Name, ast.Call)) and ast.unparse(n.func.value).split("(")[-1].rstrip(")") in row_names | {"label", "str(label)"}]
        return found == set(row_names) and not other
    _, eq_tree = _parse("virtual_world/equipment_groups.py")
    _, src_tree = _parse("virtual_world/sources.py")
    meth_lookup = {
        "site_type+site": exact_lookup(upp, {"site_type_info", "site_row_df_info"}),
        "equipment": exact_lookup(_find_method(eq_tree, "Equipment_Group", "_update_prop_params",
                                               "virtual_world/equipment_groups.py"), {"info"}),
        "source": exact_lookup(_find_method(src_tree, "Source", "_update_prop_params",
                                            "virtual_world/sources.py"), {"info"}),
    }

    placeholders = repo.gc["Placeholder_Constants"]
    tables = {
        "globalPlain": list(VW["PROPAGATING_PARAMS"].keys()),
        "globalMeth": list(VW["METH_SPEC_PROP_PARAMS"].keys()),
        "siteDeploy": S["SITE_DEPLOYMENT_PLACEHOLDER"],
        "typePlain": lv["typePlain"], "typeMeth": lv["typeMeth"],
        "sitePlain": lv["sitePlain"], "siteMeth": lv["siteMeth"],
        "scalePlain": scale_plain[0], "scaleMeth": scale_meth[0],
        "freqKey": site_pops["_survey_frequencies"], "monthsKey": site_pops["_deployment_months"],
        "yearsKey": site_pops["_deployment_years"], "deployKey": site_pops["_deploy_method"],
        "eqTimeKey": eq_pops["_meth_survey_times"], "eqCostKey": eq_pops["_meth_survey_costs"],
        "eqCleanPlain": clean_plain, "eqCleanMeth": clean_meth,
        "eqRepEpr": div["rep_epr"], "eqNonRepEpr": div["nonrep_epr"],
        "repPrefix": prefixes[0], "nonRepPrefix": prefixes[1],
        "srcErs": attr_key["_emis_rate_source"], "srcEpr": attr_key["_emis_prod_rate"],
        "srcDur": attr_key["_emis_duration"], "srcMulti": attr_key["_multi_emissions"],
        "srcRd": attr_key["_emis_rep_delay"], "srcRc": attr_key["_emis_rep_cost"],
        "srcSpatial": attr_meth["_meth_spat_covs"], "srcTemporal": attr_meth["_meth_temp_covs"],
        "siteRepEpr": ph["rep_emis_epr"], "siteNonRepEpr": ph["nonrep_emis_epr"],
        "placeholderBoth": placeholders["PLACEHOLDER_EQUIPMENT"],
        "placeholderRep": placeholders["PLACEHOLDER_REP_EQUIPMENT"],
        "placeholderNonRep": placeholders["PLACEHOLDER_NON_EQUIPMENT"],
    }
    for k, v in tables.items():
        ok = isinstance(v, str) or (isinstance(v, list) and all(isinstance(x, str) for x in v))
        if not ok:
            raise ExtractError(f"table {k}: strings expected, got {v!r}")
    extra = {
        "globalPlainPaths": list(VW["PROPAGATING_PARAMS"].items()),
        "globalMethPaths": list(VW["METH_SPEC_PROP_PARAMS"].items()),
        # per-level key of each plain propagating parameter, by the constant's name
        "levelKeys": {
            lvl: {n: v for n, v in ns.items() if isinstance(v, str) and (n.startswith("REP_EMIS_") or n.startswith("NON_REP_EMIS_"))}
            for lvl, ns in (("site_type", T), ("sites", S), ("equipment", E))
        },
        "levelMethKeys": {
            lvl: {n: v for n, v in ns.items() if isinstance(v, str) and n.endswith("_PLACEHOLDER")}
            for lvl, ns in (("site_type", T), ("sites", S), ("equipment", E), ("sources", R))
        },
        "sourceFile": {n: v for n, v in R.items() if isinstance(v, str)},
        "sampleCall": sample_call,
        "samplePlain": sample_plain,
        "sharedState": scan_shared_state(),
        "methLookupExact": meth_lookup,
        "methSpecific": repo.pdc["Common_Params"]["METH_SPECIFIC"],
        "values": repo.pdc["Common_Params"]["VAL"],
    }
    return tables, extra


# ----------------------------------------------------------------------------------------------
# Lean emission
# ----------------------------------------------------------------------------------------------
def _s(x):
    return '"' + x.replace("\\", "\\\\").replace('"', '\\"') + '"'


def _l(xs):
    return "[" + ", ".join(_s(x) for x in xs) + "]"


def render(tables, extra):
    consts = sorted({n for lv in extra["levelKeys"].values() for n in lv})
    mconsts = sorted({n for lv in extra["levelMethKeys"].values() for n in lv})
    out = [
        "import LdarModel.Model.Propagate",
        "/-",
        "GENERATED by harness/extract/levels.py from the working tree of /repo",
        "(constants/infrastructure_const.py, param_default_const.py, general_const.py,",
        " virtual_world/sources.py, sites.py, equipment_groups.py, infrastructure.py) — do not edit.",
        "Rewritten on every run of `./check C15`; the obligations over these tables are in Props/C15.lean.",
        "-/",
        "namespace LdarModel.Generated.Levels",
        "open LdarModel.Propagate",
        "",
        "/-- the keys every level of the propagation uses (see `Tables`) -/",
        "def tables : Tables where",
    ]
    for k, v in tables.items():
        out.append(f"  {k} := {_s(v) if isinstance(v, str) else _l(v)}")
    out += [
        "",
        "/-- global key ↦ access path into the virtual world parameters -/",
        "def globalPlainPaths : List (String × String) := ["
        + ", ".join(f"({_s(k)}, {_s(v)})" for k, v in extra["globalPlainPaths"]) + "]",
        "/-- method-specific global key ↦ access path into a method's parameters -/",
        "def globalMethPaths : List (String × String) := ["
        + ", ".join(f"({_s(k)}, {_s(v)})" for k, v in extra["globalMethPaths"]) + "]",
        "",
        "/-- for every plain propagating parameter (by the name of its constant): the key used in the",
        "site type file, the sites file and the equipment file (`none`: the level has no such constant) -/",
        "def levelKeys : List (String × Option String × Option String × Option String) := [",
    ]
    rows = []
    for n in consts:
        cells = []
        for lvl in ("site_type", "sites", "equipment"):
            v = extra["levelKeys"][lvl].get(n)
            cells.append("none" if v is None else f"some {_s(v)}")
        rows.append(f"  ({_s(n)}, {cells[0]}, {cells[1]}, {cells[2]})")
    out.append(",\n".join(rows) + "]")
    out += [
        "",
        "/-- the same for the method-specific parameters (suffix appended to the method name): site type,",
        "sites, equipment and sources file -/",
        "def levelMethKeys : List (String × Option String × Option String × Option String × Option String) := [",
    ]
    rows = []
    for n in mconsts:
        cells = []
        for lvl in ("site_type", "sites", "equipment", "sources"):
            v = extra["levelMethKeys"][lvl].get(n)
            cells.append("none" if v is None else f"some {_s(v)}")
        rows.append(f"  ({_s(n)}, {', '.join(cells)})")
    out.append(",\n".join(rows) + "]")
    hazards, reduce_rows = extra["sharedState"]
    out += [
        "",
        "/-- everything in infrastructure.py / sites.py / equipment_groups.py / component.py / sources.py that could",
        "carry state from one construction to the next or between sibling objects: (module, kind, where) -/",
        "def sharedStateHazards : List (String × String × String) := ["
        + ", ".join(f"({_s(a)}, {_s(b)}, {_s(c)})" for a, b, c in hazards) + "]",
        "",
        "/-- pickling: per class with `__reduce__`: (class, number of arguments handed over, least and greatest number",
        "of parameters `_reconstruct` accepts, every argument lands in the attribute it was read from) -/",
        "def reduceTable : List (String × Nat × Nat × Nat × Bool) := ["
        + ", ".join(f"({_s(c)}, {n}, {lo}, {hi}, {'true' if ok else 'false'})" for c, n, lo, hi, ok in reduce_rows) + "]",
    ]
    out += ["", "end LdarModel.Generated.Levels", ""]
    return "\n".join(out)


def regenerate():
    """rewrite Generated/Levels.lean if its content changed; returns (tables, extra, changed, sha)"""
    tables, extra = extract()
    text = render(tables, extra)
    path = os.path.join(LEAN_GEN, "Levels.lean")
    os.makedirs(LEAN_GEN, exist_ok=True)
    old = open(path).read() if os.path.exists(path) else None
    changed = old != text
    if changed:
        tmp = path + f".tmp{os.getpid()}"
        with open(tmp, "w") as fh:
            fh.write(text)
        os.replace(tmp, path)
    if not os.environ.get("LDAR_REPO"):   # a scratch copy (seed evaluation) never becomes the reference
        with open(LAST_GOOD + f".tmp{os.getpid()}", "w") as fh:
            json.dump({"tables": tables, "extra": extra}, fh, indent=1)
        os.replace(LAST_GOOD + f".tmp{os.getpid()}", LAST_GOOD)
    return tables, extra, changed, hashlib.sha256(text.encode()).hexdigest()[:16]


LAST_GOOD = os.path.join(os.path.dirname(os.path.abspath(__file__)), "levels_last_good.json")


def last_good():
    """tables of the last successful extraction (used to keep searching for a failing input when the
    current source no longer has the shape the extractor reads)"""
    with open(LAST_GOOD) as fh:
        d = json.load(fh)
    ex = d["extra"]
    ex["globalPlainPaths"] = [tuple(x) for x in ex["globalPlainPaths"]]
    ex["globalMethPaths"] = [tuple(x) for x in ex["globalMethPaths"]]
    ex["sharedState"] = tuple(ex["sharedState"])
    return d["tables"], ex


if __name__ == "__main__":
    t, e, ch, sha = regenerate()
    print("changed" if ch else "unchanged", sha)
    for k, v in t.items():
        print(k, "=", v)
