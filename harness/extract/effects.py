"""C12's translator: a Python `ast` pass over <repo>/LDAR_Sim/src that regenerates
lean/LdarModel/Generated/Effects.lean on EVERY run (DESIGN.md 5.12).

What is extracted (all with file:line so that a reader can check it against the source):

  rngSites         every reference to a random-number source in a module REACHABLE from a simulation run
                   (file, line, function, generator in {numpyGlobal, stdlibRandom, other}, spelled call)
  seedSites        every call that (re-)seeds a generator (np.random.seed / random.seed)
  seedPoints       the three places where the design relies on a re-seed before random numbers are
                   consumed, with the syntactic verdict `seeded`:
                     dayLoop        the day loop of LdarSim.run_simulation: first statement of the body
                                    is (an `if` around) np.random.seed(...)
                     emissionLoop   every loop of initialize_emissions() that calls .generate_emissions:
                                    first statement of the body is (an `if` around) np.random.seed(...)
                   each with the source text of the seed ARGUMENT; `seeded` is false as well when that argument can be
                   None (np.random.seed(None) re-seeds from OS entropy): no argument, the constant None, `d.get(k)`
                   without a non-None default, a conditional / `or` with such a branch
  seedSeriesReuse  the test under which gen_seed_timeseries() re-uses a saved daily seed series: length == simulated
                   days, first day in series, last day in series
                     infrastructure every `Infrastructure(...)` construction in initialize_infrastructure():
                                    an earlier statement of the same block is (an `if` around) np.random.seed
  sharedMutations  every module-level / class-level binding (or mutable default argument) that a
                   FUNCTION of a reachable module mutates in place or rebinds
                   (file, line, function, target = "<module>:<qualified name>", operation)

Reachability rule (stated in MANIFEST note): a module is reachable iff it is in the transitive closure
of `import` / `from ... import` statements (anywhere in a file, including inside functions) starting at
`ldar_sim_run` (the entry point of a simulation run), restricted to files under LDAR_Sim/src.  testing/,
the sensitivity-analysis driver and its visualisation helpers, dev_tools/ and the ERA5 download scripts
are outside that closure and therefore not in the tables (the list of reachable and excluded modules is
returned for the evidence).  Every function of a reachable module counts as reachable (over-approximation).

Generator classification
  numpyGlobal   numpy.random.<fn> (any spelling: np.random.x, `from numpy import random`, `from numpy.random
                import x`), scipy `<dist>.rvs(...)` and pandas `<frame>.sample(...)` without random_state= or with
                random_state=<the numpy.random module> (scipy/pandas map it to the global RandomState)
  stdlibRandom  random.<fn> of the standard library (`import random`, `from random import x`)
  other         own generator objects (numpy.random.default_rng/RandomState/Generator/..., random.Random,
                random.SystemRandom), os.urandom, secrets.*, uuid.uuid1/uuid4, `.rvs/.sample` WITH random_state=,
                numpy.random.set_state/get_state

Shared-state analysis (syntactic; aliases through parameters / return values are NOT seen - the dynamic
monitor and the differential whole runs of harness/props/c12.py are the back-stop)
  shared object   a name bound at module level or in a class body whose value is not an obviously
                  immutable literal; also list/dict/set literals used as default arguments
                  (dataclasses.field(...) defaults are per instance; `self.X` is not taken for the class-level X
                  when some method of the class assigns an instance attribute `self.X = <fresh value>`)
  how it is reached in a function: the bare module-level name; `Class.ATTR` / `Outer.Inner.ATTR`;
                  `self.ATTR` / `cls.ATTR` for class-level ATTR; an imported name/alias/module attribute chain
                  that resolves to one of these in another src module; a local variable or `self.X`
                  assigned from such an expression (aliasing, e.g. Component.set_emis_sum_dtypes)
  mutation        .append .extend .insert .update .pop .popitem .clear .remove .setdefault .sort .reverse
                  .add .discard .appendleft .extendleft  |  x[...] = v  |  del x[...]  |  x += v  |
                  `global X` + assignment  |  Class.ATTR = v / module.ATTR = v inside a function

The extractor exits 2 (never passes silently) when a source file cannot be read/parsed or the entry module is
missing.  A missing code PATTERN (day loop, emission loops, Infrastructure(...) construction, simulate(),
gen_seed_timeseries' reuse test) is not an exit: it is listed in the table `patternErrors` (obligation
`patterns_found : patternErrors = []` breaks), the affected entries take their failing default, and the check
goes on searching for a failing input with the differential runs.
"""
from __future__ import annotations

import ast
import hashlib
import os
import sys
import warnings

VERIF = os.path.dirname(os.path.dirname(os.path.dirname(os.path.abspath(__file__))))
OUT = os.path.join(VERIF, "lean", "LdarModel", "Generated", "Effects.lean")
ENTRY = "ldar_sim_run"

MUTATORS = {
    "append", "extend", "insert", "update", "pop", "popitem", "clear", "remove", "setdefault", "sort",
    "reverse", "add", "discard", "appendleft", "extendleft",
}
NP_OWN_GEN = {"default_rng", "RandomState", "Generator", "SeedSequence", "PCG64", "PCG64DXSM", "MT19937",
              "Philox", "SFC64", "BitGenerator", "set_state", "get_state", "get_bit_generator",
              "set_bit_generator"}
STD_OWN_GEN = {"Random", "SystemRandom", "setstate", "getstate"}
OTHER_PATHS = {"os.urandom", "uuid.uuid1", "uuid.uuid4"}


class ExtractError(Exception):
    """the source cannot be read / parsed at all: exit 2"""


class PatternError(ExtractError):
    """a code shape the extractor relies on is gone: recorded in the table `patternErrors` (obligation
    `patterns_found` breaks, the affected table entries take their failing default) and the check goes on"""


def repo_root():
    return os.environ.get("LDAR_REPO", "/repo")


def src_root(repo=None):
    return os.path.join(repo or repo_root(), "LDAR_Sim", "src")


# ------------------------------------------------------------------------------------------------
# module table
# ------------------------------------------------------------------------------------------------
class Mod:
    def __init__(self, name, path, rel, tree, is_pkg):
        self.name, self.path, self.rel, self.tree, self.is_pkg = name, path, rel, tree, is_pkg
        self.imports = set()       # src modules imported (anywhere in the file)
        self.alias = {}            # local name -> ("mod", modname) | ("sym", modname, symbol) | ("ext", dotted)
        self.mvars = {}            # module-level name -> value node (None if unknown)
        self.classes = {}          # qualified class name -> {attr: value node}
        self.class_nodes = {}      # qualified class name -> ClassDef


def load_modules(src):
    if not os.path.isdir(src):
        raise ExtractError(f"source root {src} missing")
    mods = {}
    for root, dirs, files in os.walk(src):
        dirs[:] = sorted(d for d in dirs if d != "__pycache__")
        for f in sorted(files):
            if not f.endswith(".py"):
                continue
            path = os.path.join(root, f)
            rel = os.path.relpath(path, src)
            parts = rel[:-3].split(os.sep)
            is_pkg = parts[-1] == "__init__"
            if is_pkg:
                parts = parts[:-1]
            if not parts:
                continue
            name = ".".join(parts)
            try:
                with open(path, "rb") as fh:
                    text = fh.read()
                with warnings.catch_warnings():
                    warnings.simplefilter("ignore", SyntaxWarning)
                    tree = ast.parse(text, filename=path)
            except (OSError, SyntaxError, ValueError) as e:
                raise ExtractError(f"cannot parse {path}: {e}")
            mods[name] = Mod(name, path, rel, tree, is_pkg)
    return mods


def immutable_literal(node):
    if node is None:
        return False
    if isinstance(node, ast.Constant):
        return True
    if isinstance(node, ast.JoinedStr):
        return True
    if isinstance(node, ast.Tuple):
        return all(immutable_literal(e) for e in node.elts)
    if isinstance(node, ast.UnaryOp):
        return immutable_literal(node.operand)
    if isinstance(node, ast.BinOp) and not isinstance(node.left, (ast.List, ast.Dict, ast.Set)):
        return immutable_literal(node.left) and immutable_literal(node.right)
    if isinstance(node, ast.Lambda):
        return True
    if isinstance(node, ast.Call):
        c = chain(node.func)
        if c and c[-1] == "field":   # dataclasses.field(...): the default is created per instance
            return True
    return False


def _targets(stmt):
    if isinstance(stmt, ast.Assign):
        out = []
        for t in stmt.targets:
            out += [e for e in (t.elts if isinstance(t, (ast.Tuple, ast.List)) else [t])]
        return out, stmt.value
    if isinstance(stmt, ast.AnnAssign):
        return [stmt.target], stmt.value
    if isinstance(stmt, ast.AugAssign):
        return [stmt.target], stmt.value
    return [], None


def index_bindings(mods):
    for m in mods.values():
        def scan_class(cnode, qual):
            attrs = {}
            for st in cnode.body:
                tg, val = _targets(st)
                for t in tg:
                    if isinstance(t, ast.Name):
                        attrs[t.id] = val
                if isinstance(st, ast.ClassDef):
                    scan_class(st, qual + "." + st.name)
            m.classes[qual] = attrs
            m.class_nodes[qual] = cnode

        def scan_block(body):
            for st in body:
                tg, val = _targets(st)
                for t in tg:
                    if isinstance(t, ast.Name):
                        m.mvars[t.id] = val
                if isinstance(st, ast.ClassDef):
                    scan_class(st, st.name)
                elif isinstance(st, (ast.If, ast.Try, ast.With)):
                    for fld in ("body", "orelse", "finalbody"):
                        scan_block(getattr(st, fld, []) or [])
                    for h in getattr(st, "handlers", []) or []:
                        scan_block(h.body)

        scan_block(m.tree.body)


def index_imports(mods):
    for m in mods.values():
        pkg_parts = m.name.split(".") if m.is_pkg else m.name.split(".")[:-1]
        for node in ast.walk(m.tree):
            if isinstance(node, ast.Import):
                for a in node.names:
                    full = a.name
                    if full in mods or any(k.startswith(full + ".") for k in mods):
                        parts = full.split(".")
                        for i in range(1, len(parts) + 1):
                            p = ".".join(parts[:i])
                            if p in mods:
                                m.imports.add(p)
                        if a.asname:
                            m.alias[a.asname] = ("mod", full)
                        else:
                            m.alias[parts[0]] = ("mod", parts[0])
                    else:
                        if a.asname:
                            m.alias[a.asname] = ("ext", full)
                        else:
                            m.alias[full.split(".")[0]] = ("ext", full.split(".")[0])
            elif isinstance(node, ast.ImportFrom):
                base = node.module or ""
                if node.level:
                    up = pkg_parts[: len(pkg_parts) - (node.level - 1)] if node.level > 1 else pkg_parts
                    base = ".".join(list(up) + ([node.module] if node.module else []))
                in_src = base in mods or any(k.startswith(base + ".") for k in mods) if base else False
                if in_src:
                    parts = base.split(".")
                    for i in range(1, len(parts) + 1):
                        p = ".".join(parts[:i])
                        if p in mods:
                            m.imports.add(p)
                for a in node.names:
                    local = a.asname or a.name
                    if a.name == "*":
                        if base in mods:
                            for k in list(mods[base].mvars) + [c for c in mods[base].classes if "." not in c]:
                                m.alias[k] = ("sym", base, k)
                        continue
                    if in_src:
                        sub = base + "." + a.name
                        if sub in mods:
                            m.imports.add(sub)
                            m.alias[local] = ("mod", sub)
                        else:
                            m.alias[local] = ("sym", base, a.name)
                    else:
                        m.alias[local] = ("ext", (base + "." if base else "") + a.name)


def reachable(mods, entry):
    if entry not in mods:
        raise ExtractError(f"entry module {entry} not found under src")
    seen, todo = {entry}, [entry]
    while todo:
        x = todo.pop()
        for y in sorted(mods[x].imports):
            if y not in seen:
                seen.add(y)
                todo.append(y)
    return seen


# ------------------------------------------------------------------------------------------------
# expression resolution
# ------------------------------------------------------------------------------------------------
def chain(node):
    """Name / Attribute chain -> list of identifiers, else None"""
    parts = []
    while isinstance(node, ast.Attribute):
        parts.append(node.attr)
        node = node.value
    if isinstance(node, ast.Name):
        parts.append(node.id)
        return list(reversed(parts))
    return None


def ext_path(m, parts):
    """dotted external path of a chain, or None"""
    a = m.alias.get(parts[0])
    if a and a[0] == "ext":
        return ".".join([a[1]] + parts[1:])
    return None


class Shared:
    """identity of a shared object: (module, qualified name)"""

    def __init__(self, mod, qual, value):
        self.mod, self.qual, self.value = mod, qual, value

    @property
    def key(self):
        return f"{self.mod}:{self.qual}"


def walk_from(mods, modname, qual_prefix, rest, depth=0):
    """resolve `rest` attributes starting at module `modname` (qual_prefix = class path or '')"""
    if depth > 8 or modname not in mods:
        return None
    m = mods[modname]
    if not rest:
        return None
    head, tail = rest[0], rest[1:]
    if qual_prefix:
        cq = qual_prefix + "." + head
        if cq in m.classes:
            return walk_from(mods, modname, cq, tail, depth + 1) if tail else None
        attrs = m.classes.get(qual_prefix, {})
        if head in attrs:
            if tail:
                return None  # attribute of a shared object: not tracked further
            return Shared(modname, qual_prefix + "." + head, attrs[head])
        # inherited class attribute
        cnode = m.class_nodes.get(qual_prefix)
        if cnode is not None:
            for b in cnode.bases:
                bp = chain(b)
                if bp:
                    r = resolve_chain(mods, m, bp + [head] + tail, {}, None, depth + 1)
                    if r is not None:
                        return r
        return None
    if head in m.classes:
        return walk_from(mods, modname, head, tail, depth + 1) if tail else None
    if head in m.mvars:
        if tail:
            return None
        return Shared(modname, head, m.mvars[head])
    a = m.alias.get(head)
    if a:
        if a[0] == "mod":
            return walk_from(mods, a[1], "", tail, depth + 1) if tail else None
        if a[0] == "sym":
            return walk_from(mods, a[1], "", [a[2]] + tail, depth + 1)
    sub = modname + "." + head
    if sub in mods:
        return walk_from(mods, sub, "", tail, depth + 1) if tail else None
    return None


def resolve_chain(mods, m, parts, local_alias, cur_class, depth=0):
    """chain of identifiers -> Shared or None.  local_alias: dict str -> Shared (locals and self.X)"""
    key = ".".join(parts)
    if key in local_alias:
        return local_alias[key]
    if parts[0] in ("self", "cls") and cur_class and len(parts) >= 2:
        return walk_from(mods, m.name, cur_class, parts[1:], depth)
    if parts[0] in local_alias and len(parts) == 1:
        return local_alias[parts[0]]
    return walk_from(mods, m.name, "", parts, depth)


# ------------------------------------------------------------------------------------------------
# per-function analysis
# ------------------------------------------------------------------------------------------------
def classify_rng(m, node):
    """node: outermost Name/Attribute reference.  -> (generator, spelled) | ("seed", gen, spelled) | None"""
    parts = chain(node)
    if not parts:
        return None
    p = ext_path(m, parts)
    if p is None:
        return None
    if p.startswith("numpy.random."):
        fn = p[len("numpy.random."):]
        if fn == "seed":
            return ("seed", "numpyGlobal", p)
        if fn.split(".")[0] in NP_OWN_GEN:
            return ("other", p)
        return ("numpyGlobal", p)
    if p.startswith("random."):
        fn = p[len("random."):]
        if fn == "seed":
            return ("seed", "stdlibRandom", p)
        if fn.split(".")[0] in STD_OWN_GEN:
            return ("other", p)
        return ("stdlibRandom", p)
    if p.startswith("secrets.") or p in OTHER_PATHS:
        return ("other", p)
    return None


def is_np_seed_call(m, node):
    if isinstance(node, ast.Call):
        r = classify_rng(m, node.func)
        return bool(r and r[0] == "seed" and r[1] == "numpyGlobal")
    return False


def stmt_seed_call(m, st):
    """the np.random.seed(...) call if the statement is one, or an `if` whose body's first statement is; else None"""
    if isinstance(st, ast.Expr) and is_np_seed_call(m, st.value):
        return st.value
    if isinstance(st, ast.If) and st.body and not st.orelse:
        return stmt_seed_call(m, st.body[0])
    return None


def stmt_seeds(m, st):
    return stmt_seed_call(m, st) is not None


def seed_arg(call):
    """(source text of the seed argument, may_be_None): np.random.seed(None) / seed() re-seed from OS entropy.
    May be None: no argument, the constant None, `<x>.get(k)` without a default or with default None, a conditional
    expression / `or` with such a branch.  A subscript, a name, an arithmetic expression or a call of something else
    is taken as a value."""
    if call is None:
        return "", True
    if not call.args and not call.keywords:
        return "<no argument>", True
    a = call.args[0] if call.args else call.keywords[0].value

    def maybe_none(e):
        if isinstance(e, ast.Constant):
            return e.value is None
        if isinstance(e, ast.Call) and isinstance(e.func, ast.Attribute) and e.func.attr in ("get", "pop", "setdefault"):
            if e.func.attr == "get" or e.func.attr == "pop":
                dflt = e.args[1] if len(e.args) > 1 else next((k.value for k in e.keywords if k.arg == "default"), None)
                if e.func.attr == "pop" and dflt is None and len(e.args) < 2:
                    return False   # pop without default raises
                return dflt is None or maybe_none(dflt)
            return len(e.args) < 2 or maybe_none(e.args[1])
        if isinstance(e, ast.IfExp):
            return maybe_none(e.body) or maybe_none(e.orelse)
        if isinstance(e, ast.BoolOp):
            return any(maybe_none(v) for v in e.values)
        if isinstance(e, ast.NamedExpr):
            return maybe_none(e.value)
        return False

    return ast.unparse(a), maybe_none(a)


def seed_point(mod, line, func, kind, call):
    arg, none = seed_arg(call)
    return {"file": mod.rel, "line": line, "func": func, "kind": kind, "seededFirst": call is not None,
            "arg": arg, "argMayBeNone": bool(call is not None and none), "seeded": bool(call is not None and not none)}


class FuncScan(ast.NodeVisitor):
    def __init__(self, ex, m, qual, cur_class, node, class_alias):
        self.ex, self.m, self.qual, self.cur_class = ex, m, qual, cur_class
        self.local = dict(class_alias)   # "self.X" aliases known for the class
        self.globals = set()
        self.node = node
        # mutable default arguments
        args = node.args
        pos = args.posonlyargs + args.args
        for a, d in zip(pos[len(pos) - len(args.defaults):], args.defaults):
            self._default(a, d)
        for a, d in zip(args.kwonlyargs, args.kw_defaults):
            if d is not None:
                self._default(a, d)

    def _default(self, a, d):
        if isinstance(d, (ast.List, ast.Dict, ast.Set, ast.ListComp, ast.DictComp, ast.SetComp)) or (
            isinstance(d, ast.Call) and chain(d.func) in (["list"], ["dict"], ["set"])
        ):
            self.local[a.arg] = Shared(self.m.name, f"{self.qual}(<default {a.arg}>)", d)

    def res(self, node):
        parts = chain(node)
        if not parts:
            return None
        is_self = parts[0] in ("self", "cls") and self.cur_class is not None
        if parts[0] in self.shadow and not is_self and ".".join(parts) not in self.local and parts[0] not in self.local:
            return None
        if (parts[0] == "self" and is_self and len(parts) >= 2 and ".".join(parts[:2]) not in self.local
                and parts[1] in self.ex.instance_attrs.get((self.m.name, self.cur_class), ())):
            return None   # an instance attribute of that name is assigned somewhere in the class
        sh = resolve_chain(self.ex.mods, self.m, parts, self.local, self.cur_class)
        if sh is not None and immutable_literal(sh.value):
            return None   # str/int/tuple constants cannot be mutated in place
        return sh

    def res_any(self, node):
        """like res but also for immutable values (needed for rebinding detection)"""
        parts = chain(node)
        if not parts:
            return None
        is_self = parts[0] in ("self", "cls") and self.cur_class is not None
        if parts[0] in self.shadow and parts[0] not in self.globals and not is_self:
            return None
        return resolve_chain(self.ex.mods, self.m, parts, self.local, self.cur_class)

    def run(self):
        # names assigned locally (without `global`) shadow module-level names
        self.shadow = set()
        for n in ast.walk(self.node):
            if isinstance(n, ast.Global):
                self.globals.update(n.names)
        a = self.node.args
        for arg in a.posonlyargs + a.args + a.kwonlyargs + ([a.vararg] if a.vararg else []) + ([a.kwarg] if a.kwarg else []):
            self.shadow.add(arg.arg)
        for n in self._own_nodes(self.node):
            if isinstance(n, ast.Name) and isinstance(n.ctx, ast.Store) and n.id not in self.globals:
                self.shadow.add(n.id)
        for st in self.node.body:
            self.visit(st)

    def _own_nodes(self, fn):
        todo = list(fn.body)
        while todo:
            n = todo.pop()
            yield n
            for c in ast.iter_child_nodes(n):
                if isinstance(c, (ast.FunctionDef, ast.AsyncFunctionDef, ast.ClassDef, ast.Lambda)):
                    continue
                todo.append(c)

    # nested defs are scanned on their own by the extractor
    def visit_FunctionDef(self, node):
        self.ex.scan_function(self.m, node, self.qual + "." + node.name, self.cur_class, {})

    visit_AsyncFunctionDef = visit_FunctionDef

    def visit_ClassDef(self, node):
        pass

    def mut(self, node, sh, op):
        self.ex.mutations.append({"file": self.m.rel, "line": node.lineno, "func": self.qual,
                                  "target": sh.key, "op": op})

    def _assign_target(self, t, value, node, aug=False):
        if isinstance(t, (ast.Tuple, ast.List)):
            for e in t.elts:
                self._assign_target(e, None, node, aug)
            return
        if isinstance(t, ast.Starred):
            return self._assign_target(t.value, None, node, aug)
        if isinstance(t, ast.Subscript):
            sh = self.res(t.value)
            if sh is not None:
                self.mut(node, sh, "[]+=" if aug else "[]=")
            return
        if isinstance(t, ast.Name):
            if t.id in self.globals:
                sh = walk_from(self.ex.mods, self.m.name, "", [t.id])
                tgt = sh or Shared(self.m.name, t.id, None)
                self.mut(node, tgt, "global+=" if aug else "global=")
                return
            if aug:
                sh = self.local.get(t.id)
                if sh is not None and not immutable_literal(sh.value):
                    self.mut(node, sh, "+=")
                return
            # local alias?
            v = self.res(value) if value is not None else None
            if v is not None:
                self.local[t.id] = v
            else:
                self.local.pop(t.id, None)
            return
        if isinstance(t, ast.Attribute):
            parts = chain(t)
            if not parts:
                return
            key = ".".join(parts)
            if parts[0] in ("self",) and len(parts) == 2 and not aug:
                v = self.res(value) if value is not None else None
                if v is not None:
                    self.local[key] = v
                    self.ex.class_alias.setdefault((self.m.name, self.cur_class), {})[key] = v
                    return
                # instance attribute hides a class-level one; nothing shared is written
                self.local.pop(key, None)
                self.ex.instance_attrs.setdefault((self.m.name, self.cur_class), set()).add(parts[1])
                return
            if parts[0] == "self":
                return
            # Class.ATTR = v / module.ATTR = v / cls.ATTR = v
            sh = self.res_any(t)
            if sh is not None:
                self.mut(node, sh, "attr+=" if aug else "attr=")
                return
            # new attribute on a class / module object
            owner = parts[:-1]
            if owner[0] == "cls" and self.cur_class:
                self.mut(node, Shared(self.m.name, self.cur_class + "." + parts[-1], None), "attr=")
                return
            if owner[0] not in self.shadow:
                mm = self.m
                a = mm.alias.get(owner[0])
                is_cls = (len(owner) == 1 and owner[0] in mm.classes) or (a and a[0] in ("mod", "sym"))
                if is_cls:
                    self.mut(node, Shared(self.m.name, ".".join(parts), None), "attr=")

    def visit_Assign(self, node):
        self.visit(node.value)
        for t in node.targets:
            self._assign_target(t, node.value, node)

    def visit_AnnAssign(self, node):
        if node.value is not None:
            self.visit(node.value)
            self._assign_target(node.target, node.value, node)

    def visit_AugAssign(self, node):
        self.visit(node.value)
        t = node.target
        if isinstance(t, ast.Attribute):
            sh = self.res(t)
            if sh is not None:
                self.mut(node, sh, "+=")
                return
        self._assign_target(t, node.value, node, aug=True)

    def visit_Delete(self, node):
        for t in node.targets:
            if isinstance(t, ast.Subscript):
                sh = self.res(t.value)
                if sh is not None:
                    self.mut(node, sh, "del[]")
            elif isinstance(t, ast.Name) and t.id in self.globals:
                self.mut(node, Shared(self.m.name, t.id, None), "del")

    def visit_Call(self, node):
        f = node.func
        if isinstance(f, ast.Attribute):
            if f.attr in MUTATORS:
                sh = self.res(f.value)
                if sh is not None:
                    self.mut(node, sh, "." + f.attr)
            r = classify_rng(self.m, f)
            if r is None and f.attr in ("rvs", "sample"):
                def _own_state(v):
                    # random_state=None or random_state=<the numpy.random module / its singleton>: the global generator
                    if isinstance(v, ast.Constant) and v.value is None:
                        return False
                    c = chain(v)
                    pth = ext_path(self.m, c) if c else None
                    return pth not in ("numpy.random", "numpy.random.mtrand._rand")

                has_rs = any(k.arg == "random_state" and _own_state(k.value) for k in node.keywords)
                self.ex.rng.append({"file": self.m.rel, "line": node.lineno, "func": self.qual,
                                    "gen": "other" if has_rs else "numpyGlobal",
                                    "call": "<obj>." + f.attr + ("(random_state=...)" if has_rs else "")})
        self.generic_visit(node)

    def _ref(self, node):
        r = classify_rng(self.m, node)
        if r is None:
            return False
        if r[0] == "seed":
            self.ex.seeds.append({"file": self.m.rel, "line": node.lineno, "func": self.qual, "gen": r[1], "call": r[2]})
        else:
            self.ex.rng.append({"file": self.m.rel, "line": node.lineno, "func": self.qual, "gen": r[0], "call": r[1]})
        return True

    def visit_Attribute(self, node):
        if isinstance(node.ctx, ast.Load) and chain(node) and self._ref(node):
            return
        self.generic_visit(node)

    def visit_Name(self, node):
        if isinstance(node.ctx, ast.Load) and node.id not in getattr(self, "shadow", ()):
            self._ref(node)


class Extractor:
    def __init__(self, repo=None):
        self.repo = repo or repo_root()
        self.src = src_root(self.repo)
        self.mods = load_modules(self.src)
        index_bindings(self.mods)
        index_imports(self.mods)
        self.reach = reachable(self.mods, ENTRY)
        self.rng, self.seeds, self.mutations, self.seed_points = [], [], [], []
        self.class_alias = {}
        self.instance_attrs = {}
        self.pattern_errors = []

    # -- functions -------------------------------------------------------------------------------
    def scan_function(self, m, node, qual, cur_class, class_alias):
        fs = FuncScan(self, m, qual, cur_class, node, class_alias)
        fs.run()

    def scan_module(self, m):
        def methods(cnode, cq):
            return [st for st in cnode.body if isinstance(st, (ast.FunctionDef, ast.AsyncFunctionDef))]

        def do_class(cnode, cq):
            # pass 1 collects `self.X = <shared>` aliases of the whole class, pass 2 uses them everywhere
            for rounds in range(2):
                alias = dict(self.class_alias.get((m.name, cq), {}))
                mark = (len(self.rng), len(self.seeds), len(self.mutations))
                for fn in methods(cnode, cq):
                    self.scan_function(m, fn, cq + "." + fn.name, cq, alias)
                if rounds == 0:
                    del self.rng[mark[0]:]
                    del self.seeds[mark[1]:]
                    del self.mutations[mark[2]:]
            for st in cnode.body:
                if isinstance(st, ast.ClassDef):
                    do_class(st, cq + "." + st.name)

        def do_block(body):
            for st in body:
                if isinstance(st, (ast.FunctionDef, ast.AsyncFunctionDef)):
                    self.scan_function(m, st, st.name, None, {})
                elif isinstance(st, ast.ClassDef):
                    do_class(st, st.name)
                elif isinstance(st, (ast.If, ast.Try, ast.With, ast.For, ast.While)):
                    for fld in ("body", "orelse", "finalbody"):
                        do_block(getattr(st, fld, []) or [])
                    for h in getattr(st, "handlers", []) or []:
                        do_block(h.body)

        do_block(m.tree.body)
        # RNG references in module-level code (executed at import, i.e. once per process)
        top = ast.FunctionDef(name="<module>", args=ast.arguments(posonlyargs=[], args=[], kwonlyargs=[],
                                                                  kw_defaults=[], defaults=[]),
                              body=[st for st in m.tree.body
                                    if not isinstance(st, (ast.FunctionDef, ast.AsyncFunctionDef, ast.ClassDef,
                                                           ast.Import, ast.ImportFrom))],
                              decorator_list=[], lineno=1, col_offset=0)
        mark = len(self.mutations)
        fs = FuncScan(self, m, "<module>", None, top, {})
        fs.run()
        del self.mutations[mark:]   # import-time initialisation of a module's own containers is not a run effect

    # -- seed points -----------------------------------------------------------------------------
    def find_func(self, m, qual):
        parts = qual.split(".")
        body = m.tree.body
        node = None
        for p in parts:
            node = next((st for st in body if isinstance(st, (ast.FunctionDef, ast.ClassDef)) and st.name == p), None)
            if node is None:
                return None
            body = node.body
        return node

    def seed_point_patterns(self):
        for part in (self._sp_day_loop, self._sp_emission_loops, self._sp_infrastructure):
            try:
                part()
            except PatternError as e:
                self.pattern_errors.append(str(e))

    def _sp_day_loop(self):
        # 1. day loop
        mod = self.mods.get("ldar_sim")
        fn = self.find_func(mod, "LdarSim.run_simulation") if mod else None
        if fn is None:
            raise PatternError("pattern missing: ldar_sim.LdarSim.run_simulation")
        loops = [n for n in ast.walk(fn) if isinstance(n, (ast.While, ast.For))]
        day = [n for n in loops if isinstance(n, ast.While)]
        if len(day) != 1:
            raise PatternError(f"pattern missing: exactly one while-loop (the day loop) in LdarSim.run_simulation, found {len(day)}")
        lp = day[0]
        self.seed_points.append(seed_point(mod, lp.lineno, "LdarSim.run_simulation", "dayLoop",
                                           stmt_seed_call(mod, lp.body[0]) if lp.body else None))
    def _sp_emission_loops(self):
        # 2. emission generation loops
        mod = self.mods.get("initialization.initialize_emissions")
        fn = self.find_func(mod, "initialize_emissions") if mod else None
        if fn is None:
            raise PatternError("pattern missing: initialization.initialize_emissions.initialize_emissions")
        n = 0
        for lp in [x for x in ast.walk(fn) if isinstance(x, (ast.For, ast.While))]:
            calls = [c for c in ast.walk(lp) if isinstance(c, ast.Call) and isinstance(c.func, ast.Attribute)
                     and c.func.attr == "generate_emissions"]
            if calls:
                n += 1
                self.seed_points.append(seed_point(mod, lp.lineno, "initialize_emissions", "emissionLoop",
                                                   stmt_seed_call(mod, lp.body[0]) if lp.body else None))
        if n == 0:
            raise PatternError("pattern missing: a loop calling .generate_emissions in initialize_emissions()")
    def _sp_infrastructure(self):
        # 3. infrastructure construction
        mod = self.mods.get("initialization.initialize_infrastructure")
        fn = self.find_func(mod, "initialize_infrastructure") if mod else None
        if fn is None:
            raise PatternError("pattern missing: initialization.initialize_infrastructure.initialize_infrastructure")
        n = 0

        def blocks(node):
            for fld in ("body", "orelse", "finalbody"):
                b = getattr(node, fld, None)
                if isinstance(b, list) and b and isinstance(b[0], ast.stmt):
                    yield b
            for h in getattr(node, "handlers", []) or []:
                yield h.body

        def scan(body):
            nonlocal n
            for i, st in enumerate(body):
                own = [c for c in self._stmt_calls(st) if chain(c.func) == ["Infrastructure"]]
                if own:
                    n += 1
                    calls = [stmt_seed_call(mod, p) for p in body[:i]]
                    calls = [c for c in calls if c is not None]
                    self.seed_points.append(seed_point(mod, st.lineno, "initialize_infrastructure", "infrastructure",
                                                       calls[-1] if calls else None))
                for b in blocks(st):
                    scan(b)

        scan(fn.body)
        if n == 0:
            raise PatternError("pattern missing: Infrastructure(...) construction in initialize_infrastructure()")

    def seed_series_reuse(self):
        """the test under which gen_seed_timeseries() re-uses a saved daily seed series: it must compare the length
        with the number of simulated days AND test that the first and the last simulated day are keys of the saved
        series (series are written as contiguous day ranges, so the three together mean: exactly this period)"""
        mod = self.mods.get("initialization.preseed")
        fn = self.find_func(mod, "gen_seed_timeseries") if mod else None
        if fn is None:
            raise PatternError("pattern missing: initialization.preseed.gen_seed_timeseries")
        params = [a.arg for a in fn.args.posonlyargs + fn.args.args]
        if len(params) < 2:
            raise PatternError("pattern missing: gen_seed_timeseries(sim_start_date, sim_end_date, ...)")
        start, end = params[0], params[1]
        # the guard of the `return <saved series>` that sits inside the `if os.path.isfile(...)` block
        found = None
        for node in ast.walk(fn):
            if isinstance(node, ast.If) and any(isinstance(b, ast.Return) and b.value is not None for b in node.body):
                loads = [c for c in ast.walk(node.test)]
                if any(isinstance(c, ast.Call) and chain(c.func) == ["len"] for c in loads) or \
                        any(isinstance(c, ast.Compare) and any(isinstance(o, ast.In) for o in c.ops) for c in loads):
                    found = node
                    break
        if found is None:
            raise PatternError("pattern missing: guarded `return <saved series>` in gen_seed_timeseries()")
        ret = next(b for b in found.body if isinstance(b, ast.Return))
        series = ast.unparse(ret.value)
        test = found.test
        # names bound to the number of simulated days before the test
        day_count_names = set()
        for node in ast.walk(fn):
            if isinstance(node, (ast.Assign, ast.AnnAssign)) and node.value is not None:
                src = ast.unparse(node.value)
                if start in src and end in src and "days" in src:
                    tg = node.targets[0] if isinstance(node, ast.Assign) else node.target
                    if isinstance(tg, ast.Name):
                        day_count_names.add(tg.id)
        conj = test.values if isinstance(test, ast.BoolOp) and isinstance(test.op, ast.And) else [test]
        chk_len = chk_start = chk_end = False
        for c in conj:
            if not isinstance(c, ast.Compare) or len(c.ops) != 1:
                continue
            l, r, op = c.left, c.comparators[0], c.ops[0]
            if isinstance(op, ast.Eq):
                sides = [ast.unparse(l), ast.unparse(r)]
                has_len = any(x == f"len({series})" for x in sides)
                other = [x for x in sides if x != f"len({series})"]
                if has_len and other and ((start in other[0] and end in other[0] and "days" in other[0]) or other[0] in day_count_names):
                    chk_len = True
            if isinstance(op, ast.In) and ast.unparse(r) == series:
                if ast.unparse(l) == start:
                    chk_start = True
                if ast.unparse(l) == end:
                    chk_end = True
        return {"file": mod.rel, "line": found.lineno, "func": "gen_seed_timeseries", "test": ast.unparse(test),
                "checksLength": chk_len, "checksStart": chk_start, "checksEnd": chk_end}

    def _stmt_calls(self, st):
        """calls in the statement's own expressions (not in nested statement blocks)"""
        todo = [c for c in ast.iter_child_nodes(st) if not isinstance(c, ast.stmt)]
        if isinstance(st, (ast.If, ast.While, ast.For, ast.With, ast.Try)):
            todo = [c for c in ast.iter_child_nodes(st) if isinstance(c, ast.expr)]
        while todo:
            n = todo.pop()
            if isinstance(n, ast.Call):
                yield n
            todo.extend(c for c in ast.iter_child_nodes(n) if not isinstance(c, ast.stmt))

    # -- driver ----------------------------------------------------------------------------------
    def run(self):
        for name in sorted(self.reach):
            self.scan_module(self.mods[name])
        self.seed_point_patterns()
        from harness.extract import effects_more as MO

        G = MO.Graph(self.mods, self.reach)
        self.graph = G
        rel_of = {n: self.mods[n].rel for n in self.mods}
        try:
            pf = MO.prologue_functions(self, G)
            pkeys = {(rel_of[k[0]], k[1]) for k in pf}
        except PatternError as e:
            self.pattern_errors.append(str(e))
            pkeys = {(rel_of[k[0]], k[1]) for k in G.funcs}   # failing default: everything counts as prologue
        self.prologue_funcs = sorted(pkeys)
        self.copy_hooks = MO.copy_hooks(self, G)
        try:
            self.copy_wiring = MO.copy_wiring(self, G)
        except PatternError as e:
            self.pattern_errors.append(str(e))
            self.copy_wiring = {"file": "simulation/simulation_helpers.py", "line": 0, "deepCopies": False, "usesOnlyCopy": False}
        self.nondet = MO.nondet_sites(self, G)
        self.memo = MO.memo_functions(self, G)
        self.mutations += self.memo
        try:
            self.seed_reuse = self.seed_series_reuse()
        except PatternError as e:
            self.pattern_errors.append(str(e))
            self.seed_reuse = {"file": "initialization/preseed.py", "line": 0, "func": "gen_seed_timeseries", "test": "<pattern missing>",
                               "checksLength": False, "checksStart": False, "checksEnd": False}

        def dedupe(rows, keys):
            seen, out = set(), []
            for r in sorted(rows, key=lambda r: tuple(r[k] for k in keys)):
                k = tuple(r[k] for k in keys)
                if k not in seen:
                    seen.add(k)
                    out.append(r)
            return out

        self.rng = dedupe(self.rng, ("file", "line", "call", "gen", "func"))
        self.seeds = dedupe(self.seeds, ("file", "line", "call", "gen", "func"))
        self.mutations = dedupe(self.mutations, ("file", "line", "target", "op", "func"))
        self.seed_points = dedupe(self.seed_points, ("file", "line", "kind", "func", "seeded"))
        self.nondet = dedupe(self.nondet, ("file", "line", "kind", "call", "func"))
        self.prologue_rng = [r for r in self.rng if (r["file"], r["func"]) in pkeys]
        return self

    def tables(self):
        return {
            "repo": self.repo,
            "entry": ENTRY,
            "reachable_modules": sorted(self.reach),
            "excluded_modules": sorted(set(self.mods) - self.reach),
            "rngSites": self.rng,
            "seedSites": self.seeds,
            "seedPoints": self.seed_points,
            "sharedMutations": self.mutations,
            "prologueRngSites": self.prologue_rng,
            "prologueFunctions": len(self.prologue_funcs),
            "functions": len(self.graph.funcs),
            "copyHooks": self.copy_hooks,
            "copyWiring": self.copy_wiring,
            "nondetSites": self.nondet,
            "seedSeriesReuse": self.seed_reuse,
            "patternErrors": sorted(set(self.pattern_errors)),
        }


# ------------------------------------------------------------------------------------------------
# Lean emission
# ------------------------------------------------------------------------------------------------
def lstr(s):
    return '"' + str(s).replace("\\", "\\\\").replace('"', '\\"') + '"'


def render(t):
    L = []
    L.append("import LdarModel.Model.Effects")
    L.append("/-")
    L.append("GENERATED by harness/extract/effects.py from LDAR_Sim/src on every run of ./check C12 - do not edit.")
    L.append(f"entry module: {t['entry']}; reachable modules: {len(t['reachable_modules'])}; "
             f"excluded (not imported from a simulation run): {len(t['excluded_modules'])}")
    L.append("-/")
    L.append("namespace LdarModel.Generated.Effects")
    L.append("open LdarModel.Effects")
    L.append("")
    L.append("def rngSites : List RngSite := [")
    L.append(",\n".join(
        f"  {{ file := {lstr(r['file'])}, line := {r['line']}, func := {lstr(r['func'])}, gen := .{r['gen']}, call := {lstr(r['call'])} }}"
        for r in t["rngSites"]))
    L.append("]")
    L.append("")
    L.append("def seedSites : List RngSite := [")
    L.append(",\n".join(
        f"  {{ file := {lstr(r['file'])}, line := {r['line']}, func := {lstr(r['func'])}, gen := .{r['gen']}, call := {lstr(r['call'])} }}"
        for r in t["seedSites"]))
    L.append("]")
    L.append("")
    L.append("def seedPoints : List SeedPoint := [")
    L.append(",\n".join(
        f"  {{ file := {lstr(r['file'])}, line := {r['line']}, func := {lstr(r['func'])}, kind := .{r['kind']}, "
        f"seeded := {'true' if r['seeded'] else 'false'}, arg := {lstr(r['arg'])}, argMayBeNone := {'true' if r['argMayBeNone'] else 'false'} }}"
        for r in t["seedPoints"]))
    L.append("]")
    L.append("")
    L.append("def sharedMutations : List Mutation := [")
    L.append(",\n".join(
        f"  {{ file := {lstr(r['file'])}, line := {r['line']}, func := {lstr(r['func'])}, target := {lstr(r['target'])}, op := {lstr(r['op'])} }}"
        for r in t["sharedMutations"]))
    L.append("]")
    L.append("")
    L.append("def prologueRngSites : List RngSite := [")
    L.append(",\n".join(
        f"  {{ file := {lstr(r['file'])}, line := {r['line']}, func := {lstr(r['func'])}, gen := .{r['gen']}, call := {lstr(r['call'])} }}"
        for r in t["prologueRngSites"]))
    L.append("]")
    L.append("")
    L.append("def copyHooks : List CopyHook := [")
    L.append(",\n".join(
        f"  {{ file := {lstr(r['file'])}, line := {r['line']}, cls := {lstr(r['cls'])}, hook := {lstr(r['hook'])}, deep := {'true' if r['deep'] else 'false'}, why := {lstr(r['why'])} }}"
        for r in t["copyHooks"]))
    L.append("]")
    L.append("")
    w = t["copyWiring"]
    L.append(f"/-- simulate() ({w['file']}:{w['line']}): `infra = copy.deepcopy(infrastructure)` on every path -/")
    L.append(f"def simulateDeepCopies : Bool := {'true' if w['deepCopies'] else 'false'}")
    L.append("/-- simulate(): the parameter `infrastructure` is used nowhere but as the argument of that deepcopy -/")
    L.append(f"def simulateUsesOnlyCopy : Bool := {'true' if w['usesOnlyCopy'] else 'false'}")
    L.append("")
    u = t["seedSeriesReuse"]
    L.append(f"/-- {u['file']}:{u['line']} gen_seed_timeseries re-uses the saved daily seed series iff: {u['test']} -/")
    L.append(f"def seedSeriesReuse : SeedReuse := {{ file := {lstr(u['file'])}, line := {u['line']}, "
             f"checksLength := {'true' if u['checksLength'] else 'false'}, checksStart := {'true' if u['checksStart'] else 'false'}, "
             f"checksEnd := {'true' if u['checksEnd'] else 'false'} }}")
    L.append("")
    L.append("/-- code shapes the extractor relies on and did not find (must be empty) -/")
    L.append("def patternErrors : List String := [" + ", ".join(lstr(x) for x in t["patternErrors"]) + "]")
    L.append("")
    L.append("def nondetSites : List NondetSite := [")
    L.append(",\n".join(
        f"  {{ file := {lstr(r['file'])}, line := {r['line']}, func := {lstr(r['func'])}, kind := .{r['kind']}, call := {lstr(r['call'])} }}"
        for r in t["nondetSites"]))
    L.append("]")
    L.append("")
    L.append("def reachableModules : List String := [")
    L.append(",\n".join("  " + lstr(x) for x in t["reachable_modules"]))
    L.append("]")
    L.append("")
    L.append("/-- the effect summary of the code base, as one record -/")
    L.append("def tables : Tables where")
    for fld in ("rngSites", "seedPoints", "sharedMutations", "prologueRngSites", "copyHooks", "simulateDeepCopies",
                "simulateUsesOnlyCopy", "nondetSites", "seedSeriesReuse", "patternErrors"):
        L.append(f"  {fld} := {fld}")
    L.append("")
    L.append("end LdarModel.Generated.Effects")
    return "\n".join(L) + "\n"


def regenerate(repo=None, out=OUT, write=True):
    """returns (tables dict, changed: bool).  Raises ExtractError."""
    t = Extractor(repo).run().tables()
    text = render(t)
    old = None
    if os.path.exists(out):
        with open(out) as fh:
            old = fh.read()
    changed = old != text
    if write and changed:
        os.makedirs(os.path.dirname(out), exist_ok=True)
        tmp = out + f".tmp{os.getpid()}"
        with open(tmp, "w") as fh:
            fh.write(text)
        os.replace(tmp, out)
    t["sha256"] = hashlib.sha256(text.encode()).hexdigest()
    return t, changed


def main(argv):
    import json

    write = "--no-write" not in argv
    try:
        t, changed = regenerate(write=write)
    except ExtractError as e:
        print(f"effects extractor: {e}", file=sys.stderr)
        return 2
    except Exception as e:  # never pass silently
        import traceback

        traceback.print_exc()
        print(f"effects extractor crashed: {e}", file=sys.stderr)
        return 2
    if "--json" in argv:
        print(json.dumps(t, indent=1))
    else:
        print(f"effects: {len(t['reachable_modules'])} reachable modules, {len(t['rngSites'])} rng sites, "
              f"{len(t['seedSites'])} seed calls, {len(t['seedPoints'])} seed points, "
              f"{len(t['sharedMutations'])} shared mutations; table {'rewritten' if changed and write else ('differs (not written)' if changed else 'unchanged')}")
    return 0


if __name__ == "__main__":
    sys.exit(main(sys.argv[1:]))
