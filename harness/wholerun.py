"""Whole-simulation harness: generate a complete LDAR-Sim configuration (input folder + parameter
files), run the REAL simulator (SimulationManager via ldar_sim_run.run_ldar_sim) in a worker
process with the harness shims and observation-only wrappers, and read back outputs + trace.

API
    cfg  = make_config(rng, **overrides)        # abstract description (plain dict, JSON-able)
    res  = run_config(cfg, debug=True, processes=1, trace=True, workdir=None, keep=False)
    res.programs, res.n_sims, res.start, res.end, res.ndays
    res.emissions(prog, sim) -> list[dict]       # rows of <prog>_<sim>_emissions_summary.csv
    res.timeseries(prog, sim) -> list[dict]      # rows of <prog>_<sim>_timeseries.csv
    res.estimated(prog, sim) -> list[dict] | None
    res.summary(name) -> list[dict]              # "Emissions Summary" / "Timeseries Summary" / "Cost Summary"
    res.files() -> dict relpath -> bytes         # every file under the output dir (for byte comparison)
    res.trace -> list[dict]                      # wrapper events (see worker), [] if trace=False
    res.cleanup()
The worker is `python -m harness.wholerun_worker <job.json>`; everything random in a configuration
comes from the rng handed to make_config, so a configuration replays exactly from its dict.
"""
from __future__ import annotations

import csv
import json
import os
import shutil
import subprocess
import sys
import tempfile
from datetime import date, timedelta

VERIF = os.path.dirname(os.path.dirname(os.path.abspath(__file__)))
PY = "/venv/bin/python"


# ------------------------------------------------------------------------------------------------
# configuration generator
# ------------------------------------------------------------------------------------------------
def _dy(rng, choices):
    return rng.choice(choices)


def make_config(rng, **ov):
    """A structured, mostly-valid configuration. Rates/MDLs/costs are dyadic so that float sums are
    exact.  `ov` overrides any top-level key after generation."""
    granular = ov.get("granular", rng.random() < 0.5)
    start = date(rng.choice([2021, 2022, 2023]), rng.choice([1, 1, 3, 7, 11]), 1)
    if "start" in ov:   # optional override [y, m, d] (e.g. a run that ends on 31 Dec of a leap year)
        start = date(*ov["start"])
    ndays = ov.get("ndays", rng.choice([120, 200, 400, 500]))
    end = start + timedelta(days=ndays - 1)
    if not ov.get("allow_trailing_year", False) and (end.month, end.day) < (start.month, start.day):
        # ScheduledSurveyPlanner._get_simulation_years drops a trailing partial year; a routine survey
        # completing in it crashes the run (KeyError, finding recorded under C06).  Generated
        # configurations avoid that shape unless asked for.
        end = date(end.year - 1, 12, 31) if end.year > start.year else end
        if end <= start:
            end = date(start.year, 12, 31)
    n_sites = ov.get("n_sites", rng.randint(4, 10))
    cfg = {
        "granular": granular,
        "start": [start.year, start.month, start.day],
        "end": [end.year, end.month, end.day],
        "n_sites": n_sites,
        "n_sims": ov.get("n_sims", 1),
        "preseed": True,
        "pre_sim_emissions": rng.random() < 0.8,
        "consider_weather": rng.random() < 0.4,
        "rep": {"epr": rng.choice([0.0078125, 0.015625, 0.03125]), "duration": rng.choice([30, 60, 120, 365]),
                "multi": rng.random() < 0.6},
        "nonrep": {"epr": rng.choice([0.0, 0.00390625, 0.015625]), "duration": rng.choice([20, 45, 90]),
                   "multi": rng.random() < 0.6},
        "repair_delay": rng.choice([[0], [1], [3], [7], [14], [2, 9]]),
        "repair_cost": rng.choice([[200.0], [64.0, 128.0, 256.0]]),
        "rates": [rng.choice([0.25, 0.5, 1.0, 2.0, 4.0, 8.0]) for _ in range(6)],
        "weather_seed": rng.randrange(1 << 30),
        "daylight": rng.choice([None, 6.5, 9.0]),
    }
    # infrastructure
    sites = []
    for i in range(n_sites):
        sites.append({"id": i + 1, "lat": rng.choice([20.0, 40.0, 60.0]), "lon": rng.choice([-120.0, -100.0, -80.0]),
                      "type": rng.choice(["tA", "tB"]), "equipment": rng.randint(1, 3)})
    cfg["sites"] = sites
    if granular:
        cfg["site_types"] = {"tA": ["eq1", "eq2"], "tB": ["eq2", "eq3"]}
        cfg["equipment"] = {"eq1": {"compA": 1, "compB": 2}, "eq2": {"compA": 2, "compB": 0}, "eq3": {"compA": 1, "compB": 1}}
        cfg["sources"] = [
            {"component": "compA", "source": "sA", "repairable": True, "persistent": True, "active": 1, "inactive": 0},
            {"component": "compB", "source": "sB", "repairable": False, "persistent": True, "active": 1, "inactive": 0},
            {"component": "compB", "source": "sC", "repairable": True, "persistent": rng.random() < 0.5,
             "active": rng.randint(1, 4), "inactive": rng.randint(1, 4)},
        ]
        if ov.get("extra_sources"):
            # opt-in (C02-C04): a non-persistent NON-repairable source and a second repairable source on
            # compA (next to sA).  Drawn from a derived generator so that every other field of the
            # configuration is the one the main stream would have produced without the option.
            import random as _r

            xr = _r.Random(cfg["weather_seed"] * 7919 + 17)
            cfg["sources"] += [
                {"component": "compA", "source": "sD", "repairable": False, "persistent": False,
                 "active": xr.randint(1, 3), "inactive": xr.randint(1, 3)},
                {"component": "compA", "source": "sE", "repairable": True, "persistent": True, "active": 1, "inactive": 0},
            ]
            if cfg["nonrep"]["epr"] == 0.0:
                cfg["nonrep"]["epr"] = 0.00390625
    # methods and programs
    mdl = rng.choice([0.125, 0.5, 1.0])
    methods = {
        "OGI": {"deployment_type": "mobile", "measurement_scale": "component", "is_follow_up": False,
                "mdl": mdl, "qe": [0.0, 0.0], "spatial": rng.choice([1.0, 1.0, 0.5]), "temporal": 1.0,
                "cost": {"per_day": 0.0, "per_site": rng.choice([100.0, 256.0]), "upfront": rng.choice([0.0, 512.0])},
                "crew_count": rng.choice([1, 1, 2]), "surveys_per_year": rng.choice([1, 2, 4, 6]),
                "survey_time": rng.choice([60, 120, 240, 420]), "max_workday": rng.choice([8, 10]),
                "reporting_delay": rng.choice([0, 1, 2, 5]), "t_bw_sites": rng.choice([[30.0], [15.0, 45.0]]),
                "months": rng.choice([list(range(1, 13)), [3, 4, 5, 6, 7, 8, 9], [1, 2, 11, 12]]),
                "consider_daylight": cfg["daylight"] is not None},
        "AIR": {"deployment_type": "mobile", "measurement_scale": "site", "is_follow_up": False,
                "mdl": rng.choice([0.5, 2.0, 4.0]), "qe": [0.0, 0.0], "spatial": 1.0, "temporal": rng.choice([1.0, 0.75]),
                "cost": {"per_day": rng.choice([0.0, 1024.0]), "per_site": rng.choice([0.0, 64.0]), "upfront": 0.0},
                "crew_count": 1, "surveys_per_year": rng.choice([2, 4, 12]),
                "survey_time": rng.choice([5, 20]), "max_workday": 8,
                "reporting_delay": rng.choice([0, 2, 7]), "t_bw_sites": [rng.choice([5.0, 20.0])],
                "months": list(range(1, 13)), "consider_daylight": False,
                "follow_up": {"preferred_method": "OGI_FU", "delay": rng.choice([0, 3, 10]),
                              "threshold": rng.choice([0.0, 1.0, 2.0]), "proportion": rng.choice([1.0, 0.5]),
                              "interaction_priority": rng.choice(["threshold", "proportion"]),
                              "redundancy_filter": rng.choice(["recent", "max", "average"]),
                              "instant_threshold": rng.choice([None, 8.0])}},
        "OGI_FU": {"deployment_type": "mobile", "measurement_scale": "component", "is_follow_up": True,
                   "mdl": mdl, "qe": [0.0, 0.0], "spatial": 1.0, "temporal": 1.0,
                   "cost": {"per_day": 0.0, "per_site": 128.0, "upfront": 0.0},
                   "crew_count": 1, "survey_time": rng.choice([60, 200]), "max_workday": 8,
                   "reporting_delay": rng.choice([0, 1]), "t_bw_sites": [30.0],
                   "months": list(range(1, 13)), "consider_daylight": False},
        "FIX": {"deployment_type": "stationary", "measurement_scale": "site", "is_follow_up": False,
                "mdl": rng.choice([1.0, 4.0]), "qe": [0.0, 0.0], "spatial": 1.0, "temporal": 1.0,
                "cost": {"per_day": 2.0, "upfront": 1024.0}, "reporting_delay": rng.choice([0, 2]),
                "months": list(range(1, 13)), "consider_daylight": False,
                "follow_up": {"preferred_method": "OGI_FU2", "delay": rng.choice([0, 7]),
                              "threshold": 0.0, "proportion": 1.0, "interaction_priority": "threshold",
                              "instant_threshold": None,
                              "rolling": {"small_window": 3, "large_window": 10, "small_window_threshold": rng.choice([0.0, 1.0]),
                                          "large_window_threshold": rng.choice([0.5, 2.0])}}},
        "OGI_FU2": {"deployment_type": "mobile", "measurement_scale": "component", "is_follow_up": True,
                    "mdl": mdl, "qe": [0.0, 0.0], "spatial": 1.0, "temporal": 1.0,
                    "cost": {"per_day": 0.0, "per_site": 128.0, "upfront": 0.0},
                    "crew_count": 1, "survey_time": 120, "max_workday": 8,
                    "reporting_delay": 1, "t_bw_sites": [30.0],
                    "months": list(range(1, 13)), "consider_daylight": False},
    }
    cfg["methods"] = methods
    progs = [("P_none", []), ("P_OGI", ["OGI"]), ("P_air", ["AIR", "OGI_FU"])]
    if rng.random() < 0.5:
        progs.append(("P_fix", ["FIX", "OGI_FU2"]))
    cfg["programs"] = [{"name": n, "methods": m} for n, m in progs]
    if ov.get("ogi_clones"):
        # opt-in (no random draw): a program list for pool runs with MORE programs than 4 x processes, so
        # that Pool.starmap ships several program tuples in one pickled chunk (they then share one unpickled
        # infrastructure object unless simulate() copies it).  `ogi_clones = k` gives k identical
        # component-level OGI programs P_OGI, P_OGIb, ... plus P_air (and P_fix if it was drawn);
        # `baseline_position` in {"first", "middle", "last"} or an index places the no-LDAR program P_none.
        k = int(ov["ogi_clones"])
        clones = [{"name": "P_OGI" + ("" if i == 0 else "bcdefghij"[i - 1]), "methods": ["OGI"]} for i in range(k)]
        others = [p for p in cfg["programs"] if p["name"] not in ("P_none", "P_OGI")]
        rest = clones[:1] + others[:1] + clones[1:] + others[1:]
        pos = ov.get("baseline_position", "first")
        idx = {"first": 0, "middle": 1, "last": len(rest)}.get(pos, pos)
        rest.insert(min(int(idx), len(rest)), {"name": "P_none", "methods": []})
        cfg["programs"] = rest
    cfg["baseline"] = "P_none"
    cfg["duration_method"] = rng.choice(["measurement-based", "component-based"])
    cfg["duration_factor"] = rng.choice([1.0, 0.5, 0.75])
    if ov.get("wide"):
        apply_wide(cfg, ov["wide"])
    for k, v in ov.items():
        if k != "wide":
            cfg[k] = v
    return cfg


# ------------------------------------------------------------------------------------------------
# "wide" configurations: leaves of the parameter space the base generator never varies, and boundary
# values of those it does (tools/param_coverage.py lists both).  Opt-in (`make_config(rng, wide=True)` or
# `wide=["tag", ...]`): the base draws are unchanged, the extra choices come from a derived generator.
# Every applied entry is recorded in cfg["wide_applied"]; oracles must read the values from the cfg.
# ------------------------------------------------------------------------------------------------
def _wide_catalogue(cfg):
    y0, y1 = cfg["start"][0], cfg["end"][0]
    years = [[y0]] + ([[y1], [y0, y1]] if y1 > y0 else [])
    mob = [m for m, d in cfg["methods"].items() if d["deployment_type"] == "mobile" and not d["is_follow_up"]]
    scr = [m for m, d in cfg["methods"].items() if d.get("follow_up") and d["deployment_type"] == "mobile"]
    sta = [m for m, d in cfg["methods"].items() if d["deployment_type"] == "stationary"]
    cat = []
    for m in mob:
        cat += [("crews", ("m", m, "crew_count"), [0, 3, 5]),
                ("years", ("m", m, "years"), years),
                ("coverage", ("m", m, "spatial"), [0.0, 0.25]),
                ("coverage", ("m", m, "temporal"), [0.0, 0.5]),
                ("workday", ("m", m, "max_workday"), [1, 4, 24]),
                ("workday", ("m", m, "survey_time"), [1, 480, 600]),
                ("workday", ("m", m, "t_bw_sites"), [[0.0], [60.0, 0.0], [240.0]]),
                ("delays", ("m", m, "reporting_delay"), [30]),
                ("freq", ("m", m, "surveys_per_year"), [24, 52]),
                ("months", ("m", m, "months"), [[1], [12], [2, 7]]),
                ("cost", ("m", m, "cost"), [{"per_day": 512.0, "per_site": 64.0, "upfront": 256.0},
                                            {"per_day": 0.0, "per_site": 0.0, "upfront": 0.0}]),
                ("weather", ("m", m, "weather_envelopes"),
                 [{"temperature": [-10.0, 25.0], "wind": [0.0, 10.0], "precipitation": [0.0, 0.5]},
                  {"temperature": [-40.0, 40.0], "wind": [0.0, 3.0], "precipitation": [0.0, 0.0]},
                  {"temperature": [0.0, 0.0], "wind": [0.0, 10.0], "precipitation": [0.0, 0.5]}])]
    for m in scr:
        cat += [("followup", ("m", m, "follow_up", "proportion"), [0.0, 0.07, 0.25]),
                ("followup", ("m", m, "follow_up", "threshold"), [100.0, 0.125]),
                ("followup", ("m", m, "follow_up", "delay"), [30, 1]),
                ("followup", ("m", m, "follow_up", "instant_threshold"), [0.5, 2.0]),
                ("followup", ("m", m, "follow_up", "sort_by_rate"), [False])]
    for m in sta:
        cat += [("followup", ("m", m, "follow_up", "instant_threshold"), [2.0]),
                ("followup", ("m", m, "follow_up", "rolling", "small_window"), [1, 7]),
                ("followup", ("m", m, "follow_up", "rolling", "large_window"), [2, 30]),
                ("coverage", ("m", m, "spatial"), [0.5, 0.0]),
                ("months", ("m", m, "months"), [[3, 4, 5, 6, 7, 8, 9]]),
                ("years", ("m", m, "years"), years),
                ("cost", ("m", m, "cost"), [{"per_day": 0.0, "upfront": 0.0}])]
    cat += [("repairs", ("c", "repair_delay"), [[0], [0, 30]]),
            ("repairs", ("c", "repair_cost"), [[0.0], [1.0, 1000.0]]),
            ("durations", ("c", "rep", "duration"), [1, 2]),
            ("durations", ("c", "nonrep", "duration"), [1]),
            ("estimate", ("c", "duration_factor"), [0.0, 0.001]),
            ("sims", ("c", "n_sims"), [2, 3]),
            # more simulations than one batch of 5 holds, and not a multiple of 5 (batches [5, 1] / [5, 2])
            ("sims-batch", ("c", "n_sims"), [6, 7]),
            # values of another numeric type than the defaults: fractional days
            ("fractional", ("c", "repair_delay"), [[2.5, 6.5], [0.75, 10.25]]),
            ("economics", ("c", "economics"), ["per-program"])]
    return cat


def _wide_set(d, path, v):
    for k in path[:-1]:
        d = d[k]
    d[path[-1]] = v


def apply_wide(cfg, wide):
    import random as _r

    xr = _r.Random(cfg["weather_seed"] * 104729 + 71)
    tags = None if wide is True else set(wide)
    cat = [e for e in _wide_catalogue(cfg) if tags is None or e[0] in tags]
    applied = []
    for tag, path, vals in xr.sample(cat, min(len(cat), xr.choice([1, 2, 2, 3]))):
        v = xr.choice(vals)
        if path[0] == "m":
            _wide_set(cfg["methods"][path[1]], path[2:], v)
            if path[2] == "weather_envelopes":
                cfg["consider_weather"] = True
        elif path[-1] == "economics":
            # every program gets its own economics block (defaults are 28.0 / 3.0 for all)
            v = {p["name"]: {"global_warming_potential_CH4": xr.choice([28.0, 84.0, 1.0]),
                             "sale_price_of_natural_gas": xr.choice([3.0, 0.0, 7.5])} for p in cfg["programs"]}
            cfg["economics"] = v
        else:
            _wide_set(cfg, path[1:], v)
        applied.append({"tag": tag, "path": list(path), "value": v})
    # a workday that is not longer than the average travel time leaves no time for any survey: LDAR-Sim's crew
    # estimate then divides by zero (OverflowError in Method._estimate_method_crews_required) - not a
    # configuration any property speaks about; keep the travel time below the workday
    for m, d in cfg["methods"].items():
        if d["deployment_type"] == "mobile" and d.get("t_bw_sites") and d.get("max_workday"):
            if d["max_workday"] * 60 <= 2 * sum(d["t_bw_sites"]) / len(d["t_bw_sites"]):
                d["t_bw_sites"] = [min(15.0, d["max_workday"] * 15.0)]
                applied.append({"tag": "sanitised", "path": ["m", m, "t_bw_sites"], "value": d["t_bw_sites"]})
    cfg["wide_applied"] = applied
    return cfg


# ------------------------------------------------------------------------------------------------
# materialisation
# ------------------------------------------------------------------------------------------------
def _yaml_dump(d, path):
    import yaml  # available in /venv (the repo reads parameters with it)

    with open(path, "w") as fh:
        yaml.safe_dump(d, fh, sort_keys=False)


def method_params(name, m):
    p = {
        "parameter_level": "methods", "version": "4.0", "method_name": name,
        "deployment_type": m["deployment_type"], "measurement_scale": m["measurement_scale"],
        "is_follow_up": m["is_follow_up"],
        "sensor": {"type": m.get("sensor_type", "default"), "minimum_detection_limit": [m["mdl"]],
                   "quantification_error": {"quantification_parameters": m["qe"],
                                            "quantification_type": m.get("qe_type", "default")}},
        "coverage": {"spatial": m["spatial"], "temporal": m["temporal"]},
        "cost": dict(m["cost"]),
        "reporting_delay": m["reporting_delay"],
        "consider_daylight": m.get("consider_daylight", False),
        "scheduling": {"deployment_months": m["months"]},
    }
    if "years" in m:
        p["scheduling"]["deployment_years"] = m["years"]
    if m["deployment_type"] == "mobile":
        p["crew_count"] = m["crew_count"]
        p["survey_time"] = m["survey_time"]
        p["max_workday"] = m["max_workday"]
        p["time_between_sites"] = {"values": m["t_bw_sites"]}
        if not m["is_follow_up"]:
            p["surveys_per_year"] = m["surveys_per_year"]
    if "weather_envelopes" in m:
        p["weather_envelopes"] = m["weather_envelopes"]
    fu = m.get("follow_up")
    if fu:
        d = {"preferred_method": fu["preferred_method"], "delay": fu["delay"],
             "interaction_priority": fu["interaction_priority"], "proportion": fu["proportion"]}
        if fu.get("instant_threshold") is not None:
            d["instant_threshold"] = fu["instant_threshold"]
        if "sort_by_rate" in fu:
            d["sort_by_rate"] = fu["sort_by_rate"]
        if m["deployment_type"] == "mobile":
            d["threshold"] = fu["threshold"]
            d["redundancy_filter"] = fu["redundancy_filter"]
        else:
            p["rolling_average"] = dict(fu["rolling"])
        p["follow_up"] = d
    return p


def materialize(cfg, root):
    """writes <root>/inputs/*, <root>/params/*.yaml; returns (param_file_list, in_dir, out_dir)"""
    in_dir = os.path.join(root, "inputs")
    par_dir = os.path.join(root, "params")
    out_dir = os.path.join(root, "outputs")
    os.makedirs(in_dir, exist_ok=True)
    os.makedirs(par_dir, exist_ok=True)
    # emissions file: sample-type columns in g/s so that no unit conversion is involved here
    with open(os.path.join(in_dir, "emissions.csv"), "w", newline="") as fh:
        w = csv.writer(fh)
        # optional cfg["dist_sources"] = {"rep_src" | "nonrep_src": {"dist": "lognorm", "scale": -1.79, "shape": 2.17,
        #   "max": 100000, "unit": "kilogram", "time": "hour"}}: that column becomes a dist-type source (a frozen
        #   scipy.stats distribution) instead of the sample-type list of cfg["rates"]; absent (default): unchanged
        ds = cfg.get("dist_sources") or {}
        cols = ["rep_src", "nonrep_src"]
        w.writerow(cols)
        w.writerow(["dist" if c in ds else "sample" for c in cols])
        w.writerow([ds[c].get("dist", "lognorm") if c in ds else "" for c in cols])
        w.writerow([ds[c].get("max", 100000) if c in ds else 100000 for c in cols])
        w.writerow([ds[c].get("unit", "kilogram") if c in ds else "gram" for c in cols])
        w.writerow([ds[c].get("time", "hour") if c in ds else "second" for c in cols])
        for i, r in enumerate(cfg["rates"]):
            w.writerow([(ds[c]["scale"] if i == 0 else ds[c]["shape"] if i == 1 else "") if c in ds else r for c in cols])
    with open(os.path.join(in_dir, "weather.nc"), "wb") as fh:
        fh.write(b"stub")  # content served by the netCDF4 shim
    sites_cols = ["site_ID", "lat", "lon", "site_type"]
    if not cfg["granular"]:
        sites_cols.append("equipment")
    extra_site_cols = cfg.get("site_extra_cols", {})  # col -> {site_id: value}
    with open(os.path.join(in_dir, "sites.csv"), "w", newline="") as fh:
        w = csv.writer(fh)
        w.writerow(sites_cols + list(extra_site_cols))
        for s in cfg["sites"]:
            row = [s["id"], s["lat"], s["lon"], s["type"]]
            if not cfg["granular"]:
                row.append(s["equipment"])
            for c, vals in extra_site_cols.items():
                row.append(vals.get(str(s["id"]), vals.get(s["id"], "")))
            w.writerow(row)
    infra = {"sites_file": "sites.csv"}
    # optional (default absent: behaviour unchanged): extra columns of the site TYPE file, col -> {site_type: value}
    # (e.g. "<method>_site_deployment"); in a non-granular configuration a site type file holding only these
    # columns is written
    extra_type_cols = cfg.get("site_type_extra_cols") or {}
    if extra_type_cols and not cfg["granular"]:
        types = sorted({s["type"] for s in cfg["sites"]})
        with open(os.path.join(in_dir, "site_type.csv"), "w", newline="") as fh:
            w = csv.writer(fh)
            w.writerow(["site_type"] + list(extra_type_cols))
            for t in types:
                w.writerow([t] + [extra_type_cols[c].get(t, "") for c in extra_type_cols])
        infra["site_type_file"] = "site_type.csv"
    if cfg["granular"]:
        with open(os.path.join(in_dir, "site_type.csv"), "w", newline="") as fh:
            w = csv.writer(fh)
            w.writerow(["site_type", "equipment"] + list(extra_type_cols))
            for t, eqs in cfg["site_types"].items():
                w.writerow([t, ";".join(eqs) + ";"] + [extra_type_cols[c].get(t, "") for c in extra_type_cols])
        comps = sorted({c for e in cfg["equipment"].values() for c in e})
        with open(os.path.join(in_dir, "equipment.csv"), "w", newline="") as fh:
            w = csv.writer(fh)
            w.writerow(["equipment"] + comps)
            for e, cc in cfg["equipment"].items():
                w.writerow([e] + [cc.get(c, 0) for c in comps])
        with open(os.path.join(in_dir, "sources.csv"), "w", newline="") as fh:
            w = csv.writer(fh)
            w.writerow(["component", "source", "repairable", "persistent", "active_duration", "inactive_duration"])
            for s in cfg["sources"]:
                w.writerow([s["component"], s["source"], "TRUE" if s["repairable"] else "FALSE",
                            "TRUE" if s["persistent"] else "FALSE", s["active"], s["inactive"]])
        infra.update({"site_type_file": "site_type.csv", "equipment_group_file": "equipment.csv",
                      "sources_file": "sources.csv"})
    vw = {
        "parameter_level": "virtual_world", "version": "4.0",
        "start_date": cfg["start"], "end_date": cfg["end"],
        "infrastructure": infra, "site_samples": cfg["n_sites"],
        "consider_weather": cfg["consider_weather"], "weather_file": "weather.nc",
        "repairs": {"cost": {"values": cfg["repair_cost"]}, "delay": {"values": cfg["repair_delay"]}},
        "emissions": {
            "emissions_file": "emissions.csv", "Pre-Simulation Emissions": cfg["pre_sim_emissions"],
            "repairable_emissions": {"emissions_production_rate": cfg["rep"]["epr"], "emissions_rate_source": "rep_src",
                                     "duration": cfg["rep"]["duration"], "multiple_emissions_per_source": cfg["rep"]["multi"]},
            "non_repairable_emissions": {"emissions_production_rate": cfg["nonrep"]["epr"], "emissions_rate_source": "nonrep_src",
                                         "duration": cfg["nonrep"]["duration"], "multiple_emissions_per_source": cfg["nonrep"]["multi"]},
        },
    }
    files = []
    _yaml_dump(vw, os.path.join(par_dir, "virtual_world.yaml"))
    files.append(os.path.join(par_dir, "virtual_world.yaml"))
    ss = {"parameter_level": "simulation_settings", "version": "4.0", "input_directory": in_dir,
          "output_directory": out_dir, "baseline_program": cfg["baseline"],
          "processes_count": cfg.get("processes", 1), "simulation_count": cfg["n_sims"],
          "preseed_random": cfg["preseed"]}
    _yaml_dump(ss, os.path.join(par_dir, "Simulation_settings.yaml"))
    files.append(os.path.join(par_dir, "Simulation_settings.yaml"))
    outp = {"parameter_level": "outputs", "version": "4.0",
            "Program Outputs": {"Keep All Program Outputs": cfg.get("keep_all", True)},
            "Program Visualizations": {"Single Program Timeseries": False},
            "Summary Visualizations": {
                "True_vs_Estimated_Emissions_percent_differences": False,
                "True_vs_Estimated_Emissions_relative_differences": False,
                "True_and_Estimated_Paired_Emissions_Distribution": False,
                "True and Estimated Emissions Probit": False,
                "Program Mitigation Comparison": False,
                "Program Cost Value Comparison": False,
                "Cost to Mitigation Ratios": False}}
    _yaml_dump(outp, os.path.join(par_dir, "Outputs.yaml"))
    files.append(os.path.join(par_dir, "Outputs.yaml"))
    used = []
    for p in cfg["programs"]:
        d = {"parameter_level": "programs", "version": "4.0", "program_name": p["name"], "method_labels": p["methods"],
             "duration_estimate": {"duration_factor": cfg["duration_factor"], "duration_method": cfg["duration_method"]}}
        if (cfg.get("economics") or {}).get(p["name"]):
            d["economics"] = dict(cfg["economics"][p["name"]])
        path = os.path.join(par_dir, p["name"] + ".yaml")
        _yaml_dump(d, path)
        files.append(path)
        for m in p["methods"]:
            if m not in used:
                used.append(m)
    for m in used:
        path = os.path.join(par_dir, "M_" + m + ".yaml")
        _yaml_dump(method_params(m, cfg["methods"][m]), path)
        files.append(path)
    order = cfg.get("file_order")
    if order:
        files = [files[i] for i in order]
    # optional extra input files {name: text} (e.g. the sample file of a "sample" quantification type)
    for name, text in (cfg.get("extra_inputs") or {}).items():
        path = os.path.join(in_dir, name)
        if not os.path.exists(path):
            with open(path, "w") as fh:
                fh.write(text)
    return files, in_dir, out_dir


# ------------------------------------------------------------------------------------------------
# running
# ------------------------------------------------------------------------------------------------
class Result:
    def __init__(self, cfg, root, out_dir, trace, rc, log, own_root):
        self.cfg = cfg
        self.root = root
        self.out_dir = out_dir
        self.trace = trace
        self.rc = rc
        self.log = log
        self._own = own_root
        self.programs = [p["name"] for p in cfg["programs"]]
        self.n_sims = cfg["n_sims"]
        self.start = date(*cfg["start"])
        self.end = date(*cfg["end"])
        self.ndays = (self.end - self.start).days + 1

    def _csv(self, path):
        if not os.path.exists(path):
            return None
        with open(path, newline="") as fh:
            return list(csv.DictReader(fh))

    def _prog_file(self, prog, sim, suffix):
        for pre in ("", "kept"):
            p = os.path.join(self.out_dir, prog, f"{pre}{prog}_{sim}_{suffix}.csv")
            if os.path.exists(p):
                return p
        return os.path.join(self.out_dir, prog, f"{prog}_{sim}_{suffix}.csv")

    def emissions(self, prog, sim):
        return self._csv(self._prog_file(prog, sim, "emissions_summary"))

    def timeseries(self, prog, sim):
        return self._csv(self._prog_file(prog, sim, "timeseries"))

    def estimated(self, prog, sim):
        return self._csv(self._prog_file(prog, sim, "estimated_emissions"))

    def estimated_to_remove(self, prog, sim):
        return self._csv(self._prog_file(prog, sim, "estimated_repaired_emissions_to_remove"))

    def summary(self, name):
        return self._csv(os.path.join(self.out_dir, name + ".csv"))

    def files(self):
        out = {}
        for r, _, fs in os.walk(self.out_dir):
            for f in fs:
                p = os.path.join(r, f)
                out[os.path.relpath(p, self.out_dir)] = open(p, "rb").read()
        return out

    def day_index(self, s):
        """'YYYY-MM-DD' (or with time) -> day index; '' / NaT -> None"""
        if s is None or s == "" or s == "NaT" or s == "None":
            return None
        y, m, d = s[:10].split("-")
        return (date(int(y), int(m), int(d)) - self.start).days

    def cleanup(self):
        if self._own and os.path.isdir(self.root):
            shutil.rmtree(self.root, ignore_errors=True)


def run_config(cfg, debug=True, processes=1, trace=True, workdir=None, keep_inputs=False, timeout=1800,
               repo=None):
    """materialise (unless workdir already holds inputs and keep_inputs) and run the real simulator"""
    own = workdir is None
    root = workdir or tempfile.mkdtemp(prefix="ldarverif_")
    cfg = dict(cfg)
    cfg["processes"] = processes
    if not (keep_inputs and os.path.isdir(os.path.join(root, "params"))):
        files, in_dir, out_dir = materialize(cfg, root)
    else:
        # parameters are rewritten (process count may differ), inputs/generator folder are kept
        files, in_dir, out_dir = materialize(cfg, root)
    job = {"files": files, "debug": debug, "trace": trace, "cfg": cfg,
           "trace_path": os.path.join(root, "trace.json")}
    if cfg.get("pre_run_hook"):
        # optional "module:function" the worker calls with the job before the run (observation-only
        # wrappers of a single check, e.g. harness.adapters.sensor_trace:install); absent by default
        job["pre_run_hook"] = cfg["pre_run_hook"]
    job_path = os.path.join(root, "job.json")
    with open(job_path, "w") as fh:
        json.dump(job, fh)
    env = dict(os.environ)
    env["PYTHONPATH"] = VERIF + os.pathsep + env.get("PYTHONPATH", "")
    env["PYTHONDONTWRITEBYTECODE"] = "1"
    if repo:
        env["LDAR_REPO"] = repo
    p = subprocess.run([PY, "-m", "harness.wholerun_worker", job_path], cwd=VERIF, env=env,
                       stdout=subprocess.PIPE, stderr=subprocess.STDOUT, text=True, timeout=timeout)
    tr = []
    if trace and os.path.exists(job["trace_path"]):
        tr = json.load(open(job["trace_path"]))
    return Result(cfg, root, out_dir, tr, p.returncode, p.stdout, own)


# ------------------------------------------------------------------------------------------------
# run histories: the same input / generator folder used by an earlier run with other parameters.
# A property must hold for the run the user asked for, whatever was run in that folder before; the
# generator cache (inputs/generator) and the output folder are state that survives between runs.
# ------------------------------------------------------------------------------------------------
def prev_variant(cfg, rng):
    """a configuration an EARLIER run in the same folder could have had: `cfg` with one defining leaf
    changed (chosen by `rng`).  Returns (cfg_prev, what_differs)."""
    import copy as _c

    prev = _c.deepcopy(cfg)
    prev.pop("wide_applied", None)
    kinds = ["period-start", "period-end", "site-count", "per-site-cost", "coverage", "repair-delay",
             "duration", "surveys-per-year", "months", "mdl", "pre-sim", "n-sims", "rates"]
    mob = [m for m, d in prev["methods"].items() if d["deployment_type"] == "mobile" and not d["is_follow_up"]]
    kind = rng.choice(kinds)
    sd, ed = date(*prev["start"]), date(*prev["end"])
    if kind == "period-start":
        nd = sd - timedelta(days=rng.choice([31, 59, 120]))
        prev["start"] = [nd.year, nd.month, nd.day]
        if (ed.month, ed.day) < (nd.month, nd.day):      # keep the shape make_config guarantees
            prev["start"] = [sd.year, 1, 1]
    elif kind == "period-end":
        ne = ed - timedelta(days=rng.choice([10, 40]))
        if ne > sd and (ne.month, ne.day) >= (sd.month, sd.day):
            prev["end"] = [ne.year, ne.month, ne.day]
        else:
            kind = "site-count"
    if kind == "site-count":
        k = max(2, prev["n_sites"] - rng.choice([1, 2]))
        prev["n_sites"] = k                                   # `site_samples` of the earlier run
    elif kind == "per-site-cost" and mob:
        for m in mob:
            c = prev["methods"][m]["cost"]
            c["per_site"] = (c.get("per_site") or 0.0) + 32.0
    elif kind == "coverage" and mob:
        for m in mob:
            prev["methods"][m]["spatial"] = 1.0 if prev["methods"][m]["spatial"] != 1.0 else 0.5
    elif kind == "repair-delay":
        prev["repair_delay"] = [d + 5 for d in prev["repair_delay"]]
    elif kind == "duration":
        prev["rep"]["duration"] = prev["rep"]["duration"] + 30
        prev["nonrep"]["duration"] = prev["nonrep"]["duration"] + 10
    elif kind == "surveys-per-year" and mob:
        for m in mob:
            prev["methods"][m]["surveys_per_year"] = prev["methods"][m].get("surveys_per_year", 1) + 2
    elif kind == "months" and mob:
        for m in mob:
            prev["methods"][m]["months"] = [4, 5, 6] if prev["methods"][m]["months"] != [4, 5, 6] else [7, 8]
    elif kind == "mdl" and mob:
        for m in mob:
            prev["methods"][m]["mdl"] = prev["methods"][m]["mdl"] * 4
    elif kind == "pre-sim":
        prev["pre_sim_emissions"] = not prev["pre_sim_emissions"]
    elif kind == "n-sims":
        prev["n_sims"] = prev["n_sims"] + 1
    elif kind == "rates":
        prev["rates"] = [r * 2 for r in prev["rates"]]
    return prev, kind


def run_after(cfg_prev, cfg, **kw):
    """run `cfg_prev`, then `cfg` in the SAME folder (input files rewritten, generator folder and output
    folder left as the first run left them); returns the Result of the second run with `.prev_rc` and
    `.prev_log` of the first.  A first run that stops does not stop the history."""
    root = kw.pop("workdir", None) or tempfile.mkdtemp(prefix="ldarverif_")
    first_kw = dict(kw, trace=False)
    r0 = run_config(cfg_prev, workdir=root, **first_kw)
    r = run_config(cfg, workdir=root, keep_inputs=True, **kw)
    r.prev_rc, r.prev_log = r0.rc, r0.log[-2000:] if r0.log else ""
    r._own = True       # the history owns the folder: Result.cleanup() of the second run removes it
    return r
