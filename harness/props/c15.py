"""C15 — virtual-world parameters: most granular level wins, site totals are conserved.

Lean: Props/C15.lean (most_granular_wins …, unspecified_is_identity, closed forms of the modelled
levels, split_conserved …, site_count, structure …, table obligations over Generated/Levels.lean).
Tie: the REAL Infrastructure/Site/Equipment_Group/Component/Source classes are built from generated
input folders (sites / site type / equipment / sources CSV + parameter dicts from the real defaults)
in which a random subset of levels specifies each propagating parameter; the values in effect are
read from the constructed objects and compared with `drv_propagate` (exact: doubles on a grid where
every division of the code is exact).  Generated/Levels.lean is rewritten from the source on every run.
Oracle (independent of the model): value in effect == most granular specified one; unspecified levels
neutral; splits add back up; exactly n distinct sites with the structure the files describe.
"""
from __future__ import annotations

import math
from fractions import Fraction

from harness import core

MANIFEST_ENTRY = {
    "text": "Lean theorem C15 proves C15_statement over the model of the five-level propagation (global parameter files, site type, site, equipment group, source) instantiated with the key tables extracted from the source: for all parameter files, infrastructure files and samples, every source carries for every propagating parameter the value of the most granular level that specifies it and the global one if none does (most_granular_wins, most_granular_wins_global, resolve_eq_last_specified, unspecified_is_identity by list induction over any number of levels; source_most_granular_wins, source_production_rate_spec, source_coverage_most_granular_wins, group_survey_spec, site_most_granular_wins, placeholder_second_source: the dictionary-passing model of the code equals these closed forms under decidable well-formedness of the key tables), per-site production rate, survey time and survey cost split over groups and components add back up exactly over the rationals (split_conserved, placeholder_split_conserved, survey_split_conserved, site_production_rate_conserved(_nonrep), site_cost_conserved, site_time_conserved; source_rate_is_component_rate, mem_componentSources, observed_component_rate and site_source_rates_conserved state the production-rate clause on Source._emis_prod_rate of one un-overridden source per component; guards: whole-number equipment cell, no equipment-level override, every group has a component — conservation_counterexample_empty_group and conservation_counterexample_fractional_equipment prove the unguarded clause false, known findings F9b/F9c), a sample of n distinct rows yields exactly n sites with distinct ids (site_count, site_ids, site_ids_distinct) with the groups, components and sources the files describe (structure_groups_named/_numeric, structure_components, site_component_count, group_source_count, component_source_count_file, structure_sources_file/_placeholder(_ctx), structure_placeholder_counts). The key tables (which key each level uses for each parameter, the scaled and popped entries, the un-prefixing rule of the source level) are re-extracted from the source by an ast pass on every run and the obligations over them (tables_same_key_every_level, tables_level_keys_agree, tables_level_meth_keys_agree, tables_level_keys_cover, tables_unprefix_rule, tables_scaled_entries, tables_pops, tables_placeholder_names, tables_placeholder_shared_dict, tables_global_paths) are discharged by decide. The model is tied to the real Infrastructure/Site/Equipment_Group/Component/Source classes by differential correspondence on generated input folders on every run, and the property's clauses are evaluated directly on the constructed objects.",
    "design_ref": "DESIGN.md 5.15",
    "note": "trusted: Lean kernel + propext/Classical.choice/Quot.sound; the hand-written model (tied by sampled correspondence, not proof); the ast extractor of the key tables; harness adapters; CSV parsing by pandas (cells are read back and compared with the intended values on every case) and DataFrame.sample (the sampled rows are an input of the model, distinctness is checked on the implementation); exact-double grids (production rates 45m/2^13 resp. 9m/2^15, survey time/cost multiples of 1.5) so no tolerance is used; emission generation from the effective values is C16",
    "technique": "Lean 4 list-induction and closed-form proofs over a dictionary-passing model + key tables extracted from the source (decide) + differential correspondence with the real classes + direct oracle",
}

MODULE = "LdarModel.Props.C15"
FILE = "LdarModel/Props/C15.lean"

# production-rate grids: every division the code applies on the generated counts is exact in doubles
# and the decimal text is short enough for pandas' default float parser to read it back exactly
#   named equipment: groups <= 3, components per group <= 6  ->  divisors | 360 * 2^j
#   numeric equipment: placeholder counts c <= 12, groups k with k*ceil(c/k) | 72 * 2^j (k chosen so)
def epr_val(m, numeric=False):
    return 9 * m / 2 ** 15 if numeric else 45 * m / 2 ** 13


EPR_RANGE = {False: range(1, 181), True: range(1, 60)}


def placeholder_divisor(c, k):
    return c if k <= 1 else k * math.ceil(Fraction(c, k))


def allowed_k(c):
    return [k for k in (0, 1, 2, 3) if (72 * 64) % placeholder_divisor(c, k) == 0]


def frac_safe_rates(q):
    """production rates for a site whose equipment cell is the non-integer `q`: every float operation of
    the placeholder branch (x*365*2, /q, /ceil(ceil(730x)/q)) is exact"""
    out = []
    for num in (9, 45):
        for m in range(1, 60):
            x = num * m / 2 ** 15
            fx = Fraction(x)
            if fx * 730 > 12:
                continue
            cnt = math.ceil(x * 365 * 2)
            if cnt != math.ceil(fx * 730):
                continue
            per = math.ceil(cnt / q)
            if per != math.ceil(Fraction(cnt) / Fraction(q)) or per == 0:
                continue
            if Fraction(x / q) == fx / Fraction(q) and Fraction(x / q / per) == fx / Fraction(q) / per:
                out.append(x)
    return sorted(set(out))


# ----------------------------------------------------------------------------------------------
# generator
# ----------------------------------------------------------------------------------------------
# method names: plain ones, names with underscores (the follow-up convention OGI_FU), names that are
# prefixes of each other (OGI with OGI_FU, a_b with a_b_c) and names that end in a fragment of a
# parameter suffix (M_survey, X_site): every level looks a method's column up as exactly
# `method + suffix`, never by splitting the column name
METHOD_SETS = [[], ["M1"], ["M1", "OGI"], ["OGI", "AB"], ["OGI", "OGI_FU"], ["OGI_FU"], ["AIR_2", "M1"],
               ["a_b_c", "a_b"], ["M_survey", "M"], ["X_site", "X_deploy"], ["OGI_FU", "OGI", "M_survey"]]
EQUIP_STRINGS = [[0], [1], [2], [0, 1], [1, 2], [0, 2], [0, 1, 2], [0, 0], [2, 1, 0]]   # indices into the names
# names with underscores and digits, names that are prefixes of each other, ids whose numeric and
# lexicographic orders differ
EQUIP_NAME_SETS = [["e1", "e2", "e3"], ["e1", "e1_b", "e10"], ["tank_2", "tank", "x9"]]
COMP_NAME_SETS = [["c1", "c2", "c3"], ["c1", "c1_x", "c10"], ["valve_2", "valve", "p9"]]
TYPE_NAME_SETS = [["A", "B"], ["A_1", "A"], ["T10", "T9"], ["well_pad", "well"]]
START_DATES = [[2023, 1, 1], [2024, 2, 29], [2023, 12, 31], [2024, 3, 1], [2025, 2, 28], [2024, 12, 31]]


class Gen:
    def __init__(self, rng, tables, grid_ok):
        self.rng = rng
        self.tb = tables
        self.grid_ok = grid_ok
        self.used = {}
        self.frac_rates = None      # set for cases with a non-integer equipment cell
        self.frac_durations = 0.1   # share of durations that are not whole days

    def fresh(self, dom, pool):
        """a value of the pool not yet used for this domain in this case (falls back to any)"""
        used = self.used.setdefault(dom, set())
        for _ in range(8):
            v = self.rng.choice(pool)
            if v not in used:
                used.add(v)
                return v
        return self.rng.choice(pool)

    # value domains --------------------------------------------------------------------------
    def v_ers(self):
        return self.rng.choice(["E%d" % i for i in range(1, 9)])

    def v_epr(self, numeric):
        if self.frac_rates:
            return self.rng.choice(self.frac_rates)
        if self.rng.random() < 0.04:
            return 0.0
        return epr_val(self.fresh("epr", self.grid_ok[numeric]), numeric)

    def v_dur(self):
        d = 0 if self.rng.random() < 0.03 else self.fresh("dur", range(1, 500))
        return d + 0.5 if self.rng.random() < self.frac_durations else d

    def v_flag(self):
        return self.rng.random() < 0.5

    def v_rd(self):
        return self.fresh("rd", range(0, 90))

    def v_rc(self):
        return self.rng.choice([self.fresh("rc", range(1, 400)), self.fresh("rc", range(1, 400)) + 0.5])

    def v_cov(self):
        return self.rng.choice([0.0, 0.125, 0.25, 0.375, 0.5, 0.625, 0.75, 0.875, 1.0])

    def v_freq(self):
        return 0 if self.rng.random() < 0.05 else self.fresh("freq", range(1, 25))

    def v_scaled(self):          # survey time / cost given per site: /2 and /3 (and /0.5 /1.5 /2.5) are exact
        if self.rng.random() < 0.04:
            return 0.0
        return (7.5 if self.frac_rates else 1.5) * self.fresh("sc", range(1, 400))

    def v_group(self):           # survey time / cost given per equipment group: any dyadic
        return 0.25 * self.fresh("sc", range(1, 900))

    def v_months_cell(self):
        ms = sorted(self.rng.sample(range(1, 13), self.rng.randint(1, 5)))
        return "[" + ", ".join(map(str, ms)) + "]"

    def v_years_cell(self):
        ys = sorted(self.rng.sample(range(2023, 2028), self.rng.randint(1, 3)))
        return "[" + ", ".join(map(str, ys)) + "]"

    def plain_value(self, key, numeric, source_level=False):
        tb = self.tb
        suffix = key
        for p in (tb["nonRepPrefix"], tb["repPrefix"]):
            if key.startswith(p):
                suffix = key[len(p):]
                break
        if suffix == tb["srcErs"]:
            return self.v_ers()
        if suffix == tb["srcEpr"]:
            return self.v_epr(numeric)
        if suffix == tb["srcDur"]:
            return self.v_dur()
        if suffix == tb["srcMulti"]:
            return self.v_flag()
        if suffix == tb["srcRd"]:
            return self.v_rd()
        if suffix == tb["srcRc"]:
            return self.v_rc()
        raise KeyError(key)

    def meth_value(self, suffix, level):
        tb = self.tb
        if suffix in (tb["srcSpatial"], tb["srcTemporal"]):
            return self.v_cov()
        if suffix == tb["freqKey"]:
            return self.v_freq()
        if suffix in (tb["eqTimeKey"], tb["eqCostKey"]):
            return self.v_group() if level == "equipment" else self.v_scaled()
        if suffix == tb["monthsKey"]:
            return self.v_months_cell()
        if suffix == tb["yearsKey"]:
            return self.v_years_cell()
        if suffix == tb["deployKey"]:
            return self.v_flag()
        raise KeyError(suffix)


def gen_case(rng, tables, grid_ok, force=None):
    g = Gen(rng, tables, grid_ok)
    tb = tables
    force = force or {}
    frac_q = force.get("frac_equip")
    mode = "numeric" if frac_q else (force.get("mode") or rng.choice(["named", "named", "named", "numeric"]))
    numeric = mode == "numeric"
    if frac_q:
        g.frac_rates = frac_safe_rates(frac_q)
    if force.get("frac_duration"):
        g.frac_durations = 0.7
    methods = list(rng.choice(METHOD_SETS))
    p_col = rng.choice([0.25, 0.5, 0.8])
    p_cell = rng.choice([0.3, 0.6, 0.9, 1.0])
    rep, non = tb["repPrefix"], tb["nonRepPrefix"]
    # the documented keys: one key per parameter, the same in every file (the global mapping's keys;
    # method-specific: the global suffixes plus site deployment) — NOT each level's own constant, so
    # that a level whose constant deviates is caught
    plain = list(tb["globalPlain"])
    all_meth = list(tb["globalMeth"]) + [tb["siteDeploy"]]
    want_reject = force.get("reject", rng.random() < 0.04) and not frac_q
    if frac_q:
        # one placeholder kind only (the split of the second rate would not be exact in doubles)
        plain = [k for k in plain if k != non + tb["srcEpr"]]

    # global level -------------------------------------------------------------------------------
    glob = {}
    for k in tb["globalPlain"]:
        if k.endswith(tb["srcRd"]):
            glob[k] = [float(g.v_rd()) for _ in range(rng.choice([1, 1, 2, 3]))]
        elif k.endswith(tb["srcRc"]):
            glob[k] = [float(g.v_rc()) for _ in range(rng.choice([1, 1, 2]))]
        else:
            glob[k] = g.plain_value(k, numeric)
    if frac_q:
        glob[non + tb["srcEpr"]] = None
    elif numeric:
        r = rng.random()
        if r < 0.2:
            glob[non + tb["srcEpr"]] = None
        elif r < 0.4:
            glob[rep + tb["srcEpr"]] = None
        elif r < 0.45 and want_reject:
            glob[non + tb["srcEpr"]] = None
            glob[rep + tb["srcEpr"]] = None
    elif want_reject:
        glob[rng.choice([rep, non]) + rng.choice([tb["srcErs"], tb["srcEpr"]])] = None
    gmeth = {}
    for me in methods:
        gm = {}
        for s in tb["globalMeth"]:
            if s == tb["monthsKey"]:
                gm[s] = sorted(rng.sample(range(1, 13), rng.randint(1, 12)))
            elif s == tb["yearsKey"]:
                gm[s] = sorted(rng.sample(range(2023, 2028), rng.randint(0, 3)))
            elif s in (tb["eqTimeKey"], tb["eqCostKey"]):
                gm[s] = rng.choice([g.v_scaled(), (30 if frac_q else 6) * rng.randint(1, 60)])
            else:
                gm[s] = g.meth_value(s, "global")
        gmeth[me] = gm

    def add_cols(level, plain_keys, meth_suffixes, numeric_mode):
        cols = []
        for k in plain_keys:
            if rng.random() < p_col:
                cols.append((k, None))
        for me in methods:
            for s in meth_suffixes:
                if rng.random() < p_col:
                    cols.append((me + s, s))
        rng.shuffle(cols)
        return cols

    def fill(row, cols, level, source_level=False):
        for (col, suffix) in cols:
            if rng.random() < p_cell:
                if suffix is None:
                    row[col] = g.plain_value(col, numeric)
                else:
                    row[col] = g.meth_value(suffix, level)
            else:
                row[col] = None

    # sources file -------------------------------------------------------------------------------
    comp_types = list(rng.choice(COMP_NAME_SETS))[: rng.randint(1, 3)]
    eq_names = list(rng.choice(EQUIP_NAME_SETS))
    src_fmt = rng.choice(["s%d", "s%d", "s_%d", "src%d_a"])
    sources = None
    if (not numeric) or rng.random() < 0.5:
        src_keys = [tb["srcErs"], tb["srcEpr"], tb["srcDur"], tb["srcMulti"], tb["srcRd"], tb["srcRc"]]
        cols = [(k, None) for k in src_keys if rng.random() < p_col]
        for me in methods:
            for s in (tb["srcSpatial"], tb["srcTemporal"]):
                if rng.random() < p_col:
                    cols.append((me + s, s))
        rows, n = [], 0
        for ct in comp_types:
            kinds = rng.choice([[True], [False], [True, False], [True, False], [True, True, False],
                                [False, True, False], [True, False], []])   # [] : a component type without sources
            for rp in kinds:
                n += 1
                row = {"component": ct, "source": src_fmt % n, "repairable": rp, "persistent": True,
                       "active_duration": 1, "inactive_duration": 0}
                for (col, suffix) in cols:
                    if rng.random() < p_cell:
                        if suffix is None:
                            pre = rep if rp else non
                            if col in (tb["srcRd"], tb["srcRc"]):
                                row[col] = g.plain_value(rep + col, numeric)
                            else:
                                row[col] = g.plain_value(pre + col, numeric)
                        else:
                            row[col] = g.meth_value(suffix, "sources")
                    else:
                        row[col] = None
                rows.append(row)
        sources = {"cols": ["component", "source", "repairable", "persistent", "active_duration",
                            "inactive_duration"] + [c for c, _ in cols], "rows": rows}

    # equipment file -----------------------------------------------------------------------------
    equipment = None
    if (not numeric) or rng.random() < 0.3:
        cols = add_cols("equipment", plain, [tb["eqTimeKey"], tb["eqCostKey"], tb["srcSpatial"], tb["srcTemporal"]], numeric)
        rows = []
        # the equipment file may label a component column `<type>_Equipment` (the code strips the suffix)
        col_of = {ct: (ct + rng.choice(["_Equipment", "_equipment"]) if rng.random() < 0.1 else ct) for ct in comp_types}
        empty = rng.choice(eq_names) if force.get("empty_group", rng.random() < 0.05) else None
        for name in eq_names:
            while True:
                counts = {ct: rng.choice([0, 1, 1, 2, 3]) for ct in comp_types}
                if 1 <= sum(counts.values()) <= 6:
                    break
            if name == empty:
                counts = {ct: 0 for ct in comp_types}      # an equipment group without components
            if name == eq_names[1] and force.get("blank_count"):
                counts[comp_types[0]] = None               # a blank count cell: the column is read as floats
            if name == eq_names[1] and force.get("noninteger_count"):
                counts[comp_types[0]] = 1.5
            row = {"equipment": name}
            row.update({col_of[ct]: v for ct, v in counts.items()})
            fill(row, cols, "equipment")
            rows.append(row)
        ccols = [col_of[ct] for ct in comp_types] + [c for c, _ in cols]
        rng.shuffle(ccols)
        equipment = {"cols": ["equipment"] + ccols, "rows": rows}

    # site type file -----------------------------------------------------------------------------
    have_types = rng.random() < 0.7 or bool(force.get("type_equip_only"))
    type_names = list(rng.choice(TYPE_NAME_SETS))
    site_equip_col = rng.random() < (0.6 if have_types else (0.8 if numeric else 1.0))
    if (not numeric and not have_types) or frac_q:
        site_equip_col = True
    type_equip_col = have_types and ((not site_equip_col and (not numeric or rng.random() < 0.7))
                                     or rng.random() < 0.2)
    if not numeric and not site_equip_col:
        type_equip_col = True
    if force.get("type_equip_only"):
        site_equip_col, type_equip_col = False, True

    def equip_cell():
        if numeric:
            return None   # filled in below, once the rate in effect at every site is known
        names = [eq_names[i] for i in rng.choice(EQUIP_STRINGS)]
        sep = rng.choice([",", ";"])
        return sep.join(names) + rng.choice(["", "", ";"])

    types = None
    if have_types:
        cols = add_cols("site_type", plain, all_meth, numeric)
        rows = []
        for name in type_names:
            row = {"site_type": name}
            if type_equip_col:
                row["equipment"] = equip_cell()
            fill(row, cols, "site_type")
            rows.append(row)
        types = {"cols": ["site_type"] + (["equipment"] if type_equip_col else []) + [c for c, _ in cols],
                 "rows": rows}

    # sites file ---------------------------------------------------------------------------------
    n_rows = rng.choice([2, 3, 4] if force.get("dup_ids") else [1, 2, 3, 3, 4, 5, 6])
    cols = add_cols("sites", plain, all_meth, numeric)
    rows = []
    ids = rng.sample(range(1, 120), n_rows)
    id_style = rng.choice(["int", "int", "str", "padded"])
    if id_style == "str":
        ids = ["S%d" % i for i in ids]         # S9 / S10 / S100: lexicographic order differs from the numeric one
    elif id_style == "padded":
        ids = ["site_%d_a" % i for i in ids]
    for i in range(n_rows):
        row = {"site_ID": ids[i], "lat": 50 + i, "lon": -110 - i, "site_type": rng.choice(type_names)}
        if site_equip_col:
            row["equipment"] = equip_cell()
        fill(row, cols, "sites")
        rows.append(row)
    head = ["site_ID", "lat", "lon", "site_type"] + (["equipment"] if site_equip_col else [])
    sites = {"cols": head + [c for c, _ in cols], "rows": rows}
    if numeric:
        def rate_of(srow):
            trow = next((t for t in types["rows"] if t["site_type"] == srow["site_type"]), None) if types else None
            vals = []
            for pre in (rep, non):
                key = pre + tb["srcEpr"]
                vals.append(_first([("site", srow.get(key)), ("type", trow.get(key) if trow else None),
                                    ("global", glob.get(key))])[1])
            vals = [v for v in vals if v is not None]
            return max(vals) if vals else 0.0

        def ks_for(srows):
            ok = {0, 1, 2, 3}
            for srow in srows:
                c = math.ceil(Fraction(rate_of(srow)) * 730)
                if c > 0:
                    ok &= set(allowed_k(c))
            return sorted(ok)
        if not site_equip_col and not type_equip_col and 0 not in ks_for(rows):
            # without any equipment column every site gets one placeholder group (k = 0): only
            # possible when that split is exact for every site, otherwise give the sites a column
            site_equip_col = True
            sites["cols"].insert(4, "equipment")
        as_float = force.get("float_equip", rng.random() < 0.15)
        if site_equip_col:
            for srow in rows:
                srow["equipment"] = frac_q or rng.choice(ks_for([srow]))
                if as_float:
                    srow["equipment"] = float(srow["equipment"])
        if type_equip_col:
            for trow in types["rows"]:
                trow["equipment"] = frac_q or rng.choice(ks_for([r for r in rows if r["site_type"] == trow["site_type"]]))
                if as_float:
                    trow["equipment"] = float(trow["equipment"])
    n_sites = rng.choice([None, None, n_rows, rng.randint(1, n_rows), rng.randint(1, n_rows)])
    if want_reject:
        n_sites = None
    elif force.get("oversample", rng.random() < 0.02):
        n_sites = n_rows + rng.randint(1, 2)            # more rows requested than the file has
    elif force.get("zero_sample", rng.random() < 0.01):
        n_sites = 0
    if n_rows >= 2 and force.get("dup_ids", rng.random() < 0.03):
        rows[1]["site_ID"] = rows[0]["site_ID"]            # the sites file repeats a site id
    missing = {}
    for me in methods:
        if force.get("missing_meth", rng.random() < 0.08):
            # parameters whose (last) path element is missing from the method's file: code default 0
            missing[me] = rng.sample(list(tb["globalMeth"]), rng.randint(1, 2))
    return {"mode": mode, "missing_meth": missing, "start_date": list(rng.choice(START_DATES)), "methods": methods, "global": glob, "global_meth": gmeth, "types": types,
            "sites": sites, "equipment": equipment, "sources": sources, "n_sites": n_sites,
            "np_seed": rng.randrange(1 << 30)}


# ----------------------------------------------------------------------------------------------
# the direct oracle: the property's clauses on the implementation's objects
# ----------------------------------------------------------------------------------------------
class _Bad:
    """an implementation value that is not a finite number: unequal to everything, absorbing in sums"""

    def __init__(self, v):
        self.v = v

    def __eq__(self, o):
        return False

    def __ne__(self, o):
        return True

    __hash__ = None

    def __add__(self, o):
        return self

    __radd__ = __add__

    def __gt__(self, o):
        return False

    def __repr__(self):
        return "not-a-number(%r)" % (self.v,)


def _f(v):
    from harness.adapters.propagate import _frac
    if v is None:
        return None
    try:
        return _frac(v)
    except (TypeError, ValueError, OverflowError):
        return _Bad(v)


def comp_type(col):
    """component type of an equipment-file column: the `_equipment` suffix (any case) is dropped"""
    import re
    return re.sub(re.compile(re.escape("_equipment"), re.IGNORECASE), "", col)


def _split_names(raw):
    return [s2 for s1 in str(raw).split(";") for s2 in s1.split(",") if s2 != ""]


def _first(vals):
    """vals: [(level, value)] most granular first; returns (level, value) of the first specified"""
    for lvl, v in vals:
        if v is not None:
            return lvl, v
    return None, None


def oracle(ctx, case, tables, status, world, picks, collect=None, inp=None):
    from harness.adapters import propagate as P
    tb = tables
    inp = inp or {"case": case}
    methods = case["methods"]
    rep_p, non_p = tb["repPrefix"], tb["nonRepPrefix"]
    types = {r["site_type"]: r for r in case["types"]["rows"]} if case.get("types") else None
    site_rows = {str(r["site_ID"]): r for r in case["sites"]["rows"]}
    eq_rows = {r["equipment"]: r for r in case["equipment"]["rows"]} if case.get("equipment") else {}
    src_rows = case["sources"]["rows"] if case.get("sources") else None
    G = case["global"]
    missing = case.get("missing_meth", {})

    class _GM(dict):
        """global value of a method parameter: `val.get(path, 0)` — a parameter whose last path element is
        missing from the method's file counts as 0"""

        def __init__(self, me):
            super().__init__(case["global_meth"][me])
            self.me = me

        def get(self, suf, default=None):
            if suf in missing.get(self.me, []):
                return 0
            return super().get(suf, default)
    GM = {me: _GM(me) for me in methods}
    viol = ctx.violate
    all_rows = case["sites"]["rows"]
    expected_n = case["n_sites"] if case["n_sites"] is not None else len(all_rows)

    def expected_crash():
        """inputs the code refuses with an exception instead of sys.exit: a sample larger than the file;
        a component-count column pandas reads as floats (blank / non-integer count) once a site with
        named equipment is built"""
        if expected_n > len(all_rows):
            return "ValueError"
        if P.float_count_column(case, tables):
            rows = [all_rows[i] for i in picks] if picks is not None else all_rows
            for srow in rows:
                trow = types[srow["site_type"]] if types is not None else None
                if isinstance(site_equipment(srow, trow), str):
                    return "TypeError"
        return None

    def site_equipment(srow, trow):
        if "equipment" in case["sites"]["cols"]:
            return P._equip_value(case["sites"], srow)
        if case.get("types") and "equipment" in case["types"]["cols"]:
            return P._equip_value(case["types"], trow)
        return 0

    # expected rejection (the code exits): numeric equipment without a positive rate, or a source
    # whose rate source / production rate is specified nowhere
    def expected_reject():
        rows = case["sites"]["rows"]
        for srow in rows:
            trow = types[srow["site_type"]] if types is not None else None
            eqv = site_equipment(srow, trow)

            def site_val(key):
                return _first([("site", srow.get(key)), ("type", trow.get(key) if trow else None),
                               ("global", G.get(key))])[1]
            if not isinstance(eqv, str):
                r, n = site_val(rep_p + tb["srcEpr"]), site_val(non_p + tb["srcEpr"])
                if (r is None or r <= 0) and (n is None or n <= 0):
                    return True
                kinds = [True] if n is None else ([False] if r is None else [True, False])
                for rp in kinds:
                    pre = rep_p if rp else non_p
                    if site_val(pre + tb["srcErs"]) is None:
                        return True
                continue
            for gname in _split_names(eqv):
                erow = eq_rows[gname]
                for col in P.count_columns(case, tables):
                    if not erow.get(col):
                        continue
                    for r in (src_rows or []):
                        if r["component"] != comp_type(col):
                            continue
                        pre = rep_p if r["repairable"] else non_p
                        for k in (tb["srcErs"], tb["srcEpr"]):
                            v = _first([("source", r.get(k)), ("equipment", erow.get(pre + k)),
                                        ("site", srow.get(pre + k)),
                                        ("type", trow.get(pre + k) if trow else None),
                                        ("global", G.get(pre + k))])[1]
                            if v is None:
                                return True
        return False

    if status == "crash" and expected_n == 0 and world.startswith("ValueError: Cannot set a DataFrame") \
            and "equipment" not in case["sites"]["cols"]:
        viol("C15:crash:empty-sample-with-site-type-equipment",
             "a sample of 0 sites crashes when the equipment column is taken from the site type file: " + world, inp)
        return
    if status == "crash":
        why = expected_crash()
        if why and world.startswith(why):
            ctx.count("expected-exception:" + why)
        elif not (why or expected_reject()):
            viol("C15:crash:" + world.split(":")[0], "the real code crashes while building the virtual world: " + world, inp)
        return
    if status == "reject":
        if not expected_reject():
            viol("C15:unexpected-exit", "the real code exits (sys.exit) on an input that specifies every required value", inp)
        return
    if expected_crash():
        viol("C15:missing-exception", "a world was built from a sample larger than the file / from non-integer component counts", inp)
        return
    if expected_reject():
        # every row is sampled in these cases, so the exit is expected
        if case["n_sites"] is None:
            viol("C15:missing-exit", "a source without rate source / production rate was created", inp)
        return

    # ---- exactly n distinct sites of the file
    ids = [s["sid"] for s in world]
    if len(world) != expected_n:
        viol("C15:site-count", f"{len(world)} sites built, {expected_n} requested", inp)
    if picks is None or len(picks) != len(world) or any(not (0 <= i < len(all_rows)) for i in picks):
        viol("C15:site-unknown", f"the sites are not rows of the sites file (sample {picks})", inp)
        return
    if len(set(picks)) != len(picks):
        viol("C15:site-distinct", f"the same row of the sites file was sampled twice (sample {picks})", inp)
    if ids != [str(all_rows[i]["site_ID"]) for i in picks]:
        viol("C15:site-unknown", "the sites built are not the sampled rows, in the sampled order", inp)
    file_ids = [str(r["site_ID"]) for r in all_rows]
    if len(set(file_ids)) != len(file_ids):
        ctx.count("hypothesis:file-ids-not-distinct")      # `site_ids_distinct` does not apply
    elif len(set(ids)) != len(ids):
        viol("C15:site-distinct", "two sites with the same id from a file whose ids are distinct", inp)
    ctx.count("hypothesis:valid-picks")

    def cmp(sig, what, got, want, choice=False, integer=False):
        c = P.canon_choice if choice else P.canon
        if integer and isinstance(want, (int, float)) and not isinstance(want, bool):
            want = int(want)          # durations are whole days: the source applies int()
        if c(got) != c(want):
            viol(sig, f"{what}: in effect {got!r}, most granular specified value {want!r}", inp)
            return False
        return True

    for s, row_i in zip(world, picks):
        srow = all_rows[row_i]
        trow = types.get(srow["site_type"]) if types is not None else None
        eqv = site_equipment(srow, trow)
        numeric = not isinstance(eqv, str)

        def site_chain(key):
            return [("site", srow.get(key)), ("type", trow.get(key) if trow else None), ("global", G.get(key))]

        import datetime
        want_date = datetime.date(*(case.get("start_date") or [2023, 1, 1]))
        if s.get("tag_date") != want_date:
            viol("C15:site:latest-tagging-date", f"site {s['sid']}: latest tagging survey date {s.get('tag_date')}, "
                 f"simulation start {want_date}", inp)
        # ---- site-level method parameters
        for i, me in enumerate(methods):
            for attr, suf in (("freq", tb["freqKey"]), ("months", tb["monthsKey"]), ("years", tb["yearsKey"]),
                              ("deploy", tb["deployKey"])):
                gv = True if suf == tb["deployKey"] else GM[me].get(suf)
                lvl, want = _first([("site", srow.get(me + suf)), ("type", trow.get(me + suf) if trow else None),
                                    ("global", gv)])
                cmp(f"C15:precedence:{suf}:{lvl}", f"site {s['sid']} {me}{suf}", s[attr][i], want)
                if collect is not None:
                    collect.add((suf, srow.get(me + suf) is not None, bool(trow) and trow.get(me + suf) is not None))

        # ---- structure: groups
        fsig = None
        if numeric:
            q = Fraction(eqv)
            k = int(q)
            if q != k:
                # a non-integer number in the equipment cell: int(q) groups, everything divided by q
                fsig = "C15:non-integer-equipment"
            r = _first(site_chain(rep_p + tb["srcEpr"]))[1]
            n = _first(site_chain(non_p + tb["srcEpr"]))[1]
            if n is None:
                kind, rate = "Placeholder_Rep", r
            elif r is None:
                kind, rate = "Placeholder_NonRep", n
            else:
                kind, rate = "Placeholder", max(r, n)
            cnt = math.ceil(Fraction(rate) * 730)
            n_groups = 1 if q == 0 else k
            div = max(n_groups, 1)         # the property: the site value is split over the site's groups
            per_group = cnt if q == 0 else math.ceil(Fraction(cnt) / q)
            want_groups = [(str(i), None, [(kind, per_group)]) for i in range(n_groups)]
            if collect is not None:
                collect.add(("placeholder", kind, min(k, 3), min(cnt, 4)))
        else:
            names = _split_names(eqv)
            div = len(names)
            comp_cols = P.count_columns(case, tables)
            want_groups = [(nm, eq_rows[nm], [(comp_type(c), int(eq_rows[nm].get(c) or 0)) for c in comp_cols])
                           for nm in names]
            if collect is not None:
                collect.add(("named", len(names), len(set(names)) != len(names)))
        if [g["gid"] for g in s["groups"]] != [w[0] for w in want_groups]:
            viol("C15:structure:groups", f"site {s['sid']}: equipment groups {[g['gid'] for g in s['groups']]}, "
                 f"files describe {[w[0] for w in want_groups]}", inp)
            continue

        tot = {rep_p: Fraction(0), non_p: Fraction(0)}
        tot_ok = {rep_p: True, non_p: True}
        for g, (gname, erow, comps) in zip(s["groups"], want_groups):
            nC = sum(c for _, c in comps)
            want_cids = [f"{ct}_{i}" for ct, c in comps for i in range(c)]
            if [c["cid"] for c in g["comps"]] != want_cids:
                viol("C15:structure:components", f"site {s['sid']} group {gname}: components "
                     f"{[c['cid'] for c in g['comps']]}, files describe {want_cids}", inp)
                continue
            # ---- survey time / cost of the group
            for i, me in enumerate(methods):
                for attr, suf in (("times", tb["eqTimeKey"]), ("costs", tb["eqCostKey"])):
                    lvl, sv = _first([("site", srow.get(me + suf)), ("type", trow.get(me + suf) if trow else None),
                                      ("global", GM[me].get(suf))])
                    ev = erow.get(me + suf) if erow else None
                    want = _f(ev) if ev is not None else (None if sv is None else _f(sv) / div)
                    got = g[attr][i]
                    if (None if got is None else _f(got)) != want:
                        viol(fsig + ":survey" if fsig else f"C15:scaled:{suf}:{'equipment' if ev is not None else lvl}",
                             f"site {s['sid']} group {gname} {me}{suf}: in effect {got!r}, expected {want}", inp)
                    if collect is not None:
                        collect.add((suf, srow.get(me + suf) is not None,
                                     bool(trow) and trow.get(me + suf) is not None, ev is not None))
            for c in g["comps"]:
                ct = c["cid"].rsplit("_", 1)[0]
                if numeric:
                    want_src = {"Placeholder": [("Placeholder_Rep", True, {}), ("Placeholder_NonRep", False, {})],
                                "Placeholder_Rep": [("Placeholder_Rep", True, {})],
                                "Placeholder_NonRep": [("Placeholder_NonRep", False, {})]}[ct]
                else:
                    want_src = [(str(r["source"]), bool(r["repairable"]), r) for r in (src_rows or [])
                                if r["component"] == ct]
                if [(r["sid"], r["rep"]) for r in c["sources"]] != [(a, b) for a, b, _ in want_src]:
                    viol("C15:structure:sources", f"site {s['sid']} component {c['cid']}: sources "
                         f"{[(r['sid'], r['rep']) for r in c['sources']]}, files describe {[(a, b) for a, b, _ in want_src]}", inp)
                    continue
                seen_kind = set()
                for r, (_, rp, rrow) in zip(c["sources"], want_src):
                    pre = rep_p if rp else non_p

                    def chain(k):
                        return [("source", rrow.get(k)), ("equipment", erow.get(pre + k) if erow else None)] + site_chain(pre + k)
                    attrs = [("ers", tb["srcErs"], False), ("dur", tb["srcDur"], False), ("multi", tb["srcMulti"], False)]
                    if rp:
                        attrs += [("rd", tb["srcRd"], True), ("rc", tb["srcRc"], True)]
                    for attr, k, ch in attrs:
                        lvl, want = _first(chain(k))
                        cmp(f"C15:precedence:{k}:{lvl}", f"site {s['sid']} {c['cid']}/{r['sid']} {pre}{k}",
                            r[attr], want, choice=ch, integer=(attr == "dur"))
                        if collect is not None:
                            collect.add((pre + k,) + tuple(v is not None for _, v in chain(k)[:4]))
                    if not rp and (r["rd"] is not None or r["rc"] is not None):
                        viol("C15:nonrepairable-repair-values", "a non-repairable source carries repair values", inp)
                    for i, me in enumerate(methods):
                        for attr, suf in (("spatial", tb["srcSpatial"]), ("temporal", tb["srcTemporal"])):
                            ch = [("source", rrow.get(me + suf)), ("equipment", erow.get(me + suf) if erow else None),
                                  ("site", srow.get(me + suf)), ("type", trow.get(me + suf) if trow else None),
                                  ("global", GM[me].get(suf))]
                            lvl, want = _first(ch)
                            cmp(f"C15:precedence:{suf}:{lvl}", f"site {s['sid']} {c['cid']}/{r['sid']} {me}{suf}",
                                r[attr][i], want)
                            if collect is not None:
                                collect.add((suf,) + tuple(v is not None for _, v in ch[:4]))
                    # ---- production rate: site value / groups, equipment override, / components, source override
                    k = tb["srcEpr"]
                    slvl, sv = _first(site_chain(pre + k))
                    ev = erow.get(pre + k) if erow else None
                    rv = rrow.get(k)
                    gvv = _f(ev) if ev is not None else (None if sv is None else _f(sv) / div)
                    cv = gvv / nC if (gvv is not None and gvv > 0) else gvv
                    want = _f(rv) if rv is not None else cv
                    got = r["epr"]
                    lvl = "source" if rv is not None else ("equipment" if ev is not None else slvl)
                    if (None if got is None else _f(got)) != want:
                        viol(fsig + ":production-rate" if fsig else f"C15:scaled:{k}:{lvl}",
                             f"site {s['sid']} {c['cid']}/{r['sid']} {pre}{k}: in effect {got!r}, expected {want}", inp)
                    if collect is not None:
                        collect.add((pre + k, rv is not None, ev is not None, srow.get(pre + k) is not None,
                                     bool(trow) and trow.get(pre + k) is not None))
                    if pre not in seen_kind and rv is None and got is not None:
                        seen_kind.add(pre)
                        tot[pre] += _f(got)
                for pre in (rep_p, non_p):
                    if pre not in seen_kind:
                        tot_ok[pre] = False
            for pre in (rep_p, non_p):
                if erow is not None and erow.get(pre + tb["srcEpr"]) is not None:
                    tot_ok[pre] = False

        # ---- conservation: components add back up to the site value
        for pre in (rep_p, non_p):
            sv = _first(site_chain(pre + tb["srcEpr"]))[1]
            if tot_ok[pre] and sv is not None and sv >= 0 and s["groups"]:
                ctx.count("conservation_evaluated:epr")
                if tot[pre] != _f(sv):
                    empty = any(sum(c for _, c in comps) == 0 for (_, _, comps) in want_groups)
                    sig = (fsig + ":production-rate" if fsig else
                           "C15:conservation:production-rate" + (":empty-group" if empty else ""))
                    viol(sig, f"site {s['sid']} {pre}: the rates of one un-overridden source per component add up to "
                         f"{tot[pre]}, site value {_f(sv)}", inp)
        for i, me in enumerate(methods):
            for attr, gattr, suf in (("time", "times", tb["eqTimeKey"]), ("cost", "costs", tb["eqCostKey"])):
                sv = _first([("site", srow.get(me + suf)), ("type", trow.get(me + suf) if trow else None),
                             ("global", GM[me].get(suf))])[1]
                gsum = sum((_f(g[gattr][i]) for g in s["groups"]), Fraction(0))
                got = s[attr][i]
                if attr == "cost":
                    if not isinstance(got, str) and _f(got) != gsum:
                        viol("C15:conservation:survey-cost-sum", f"site {s['sid']} {me}: survey cost {got!r}, groups add up to {gsum}", inp)
                else:
                    if isinstance(gsum, _Bad) or got != round(gsum):
                        viol("C15:conservation:survey-time-sum", f"site {s['sid']} {me}: survey time {got!r}, groups add up to {gsum}", inp)
                overridden = any(w[1] is not None and w[1].get(me + suf) is not None for w in want_groups)
                if not overridden and s["groups"] and sv is not None:
                    ctx.count("conservation_evaluated:" + attr)
                    want = _f(sv) if attr == "cost" else round(_f(sv))
                    if (got if attr == "time" else _f(got)) != want:
                        viol(fsig + ":survey" if fsig else f"C15:conservation:survey-{attr}",
                             f"site {s['sid']} {me}: survey {attr} {got!r}, site value {sv!r}", inp)


# ----------------------------------------------------------------------------------------------
# run / replay
# ----------------------------------------------------------------------------------------------
DEGENERATE = [
    {"mode": "named", "empty_group": True},                 # an equipment group without components
    {"mode": "named", "blank_count": True},                 # blank component count: float column, TypeError
    {"mode": "named", "noninteger_count": True},            # 1.5 components: float column, TypeError
    {"mode": "numeric", "float_equip": True},               # 2.0 in the equipment cell
    {"frac_equip": 2.5}, {"frac_equip": 1.5}, {"frac_equip": 0.5},   # non-integer equipment cell
    {"dup_ids": True},                                      # the sites file repeats a site id
    {"oversample": True}, {"zero_sample": True},            # sample larger than the file / empty
    {"mode": "named", "zero_sample": True, "type_equip_only": True},   # empty sample, equipment from the site types
    {"missing_meth": True},                                 # method file lacks a propagating parameter
    {"frac_duration": True},                                # durations that are not whole days
]


def degenerate_cases(rng, tables, grid_ok, reps):
    """the corner shapes of the input space, each forced `reps` times with random content"""
    return [gen_case(rng, tables, grid_ok, force=dict(f)) for _ in range(reps) for f in DEGENERATE]


def grid_ok():
    """numerators m whose grid value pandas reads back exactly (the CSV layer is outside the model)"""
    import io as _io
    import pandas as pd
    out = {}
    for numeric in (False, True):
        ms = list(EPR_RANGE[numeric])
        text = "a\n" + "\n".join(repr(epr_val(m, numeric)) for m in ms) + "\n"
        col = pd.read_csv(_io.StringIO(text))["a"]
        out[numeric] = [m for m, v in zip(ms, col) if float(v) == epr_val(m, numeric)]
    return out


def check_case(ctx, case, tables, extra, collect=None, probes=False):
    """implementation + oracle for one case; returns (status, world/what, picks)"""
    from harness.adapters import propagate as P
    status, world, sample = P.run_impl(case, extra, probes=probes)
    if probes and status == "ok":
        # same-process and execution-mode probes on the real objects: the parameter dicts handed in are
        # unchanged, a second world built from the very same dict objects is equal, the world survives a
        # pickle round trip (__reduce__/_reconstruct) and a deepcopy (programs copy the infrastructure)
        for name, res in P.LAST_PROBE.items():
            ctx.count("probe:" + name)
            if res is not True:
                sig = {"input-unchanged": "C15:history:input-dicts-mutated",
                       "rebuild-from-same-dicts": "C15:history:rebuild-from-same-dicts-differs",
                       "pickle": "C15:roundtrip:pickle", "deepcopy": "C15:roundtrip:deepcopy"}[name]
                ctx.violate(sig, "probe %s failed (%s): the values in effect depend on more than the files and "
                            "parameters of this world" % (name, res), {"case": case, "probe": name})
    if status == "infra":
        raise core.InfraError("CSV round trip: " + world)
    # the sample is an input of the model: the rows the implementation actually drew, in its order
    # (recorded at the DataFrame.sample call); before that call nothing is sampled
    picks = sample
    if picks is None and status != "ok":
        n_rows = len(case["sites"]["rows"])
        picks = list(range(n_rows)) if (case["n_sites"] is None or case["n_sites"] > n_rows) else None
    oracle(ctx, case, tables, status, world, picks, collect)
    return status, world, picks


def run(ctx):
    from harness.extract import levels
    from harness.adapters import propagate as P

    ctx.obligations.append("extract-levels")
    try:
        tables, extra, changed, sha = levels.regenerate()
        ctx.discharged.append("extract-levels")
        ctx.extra["generated_levels_sha"] = sha
        ctx.extra["generated_levels_changed"] = changed
    except Exception as e:   # the source no longer has the shape the extractor reads
        # not an infrastructure error: a broken obligation, and the search for a failing input goes on with
        # the tables of the last successful extraction (Generated/Levels.lean stays as it was)
        ctx.broke("extract-levels", "%s: %s" % (type(e).__name__, e))
        try:
            tables, extra = levels.last_good()
        except Exception:
            raise core.InfraError("extractor failed and no earlier extraction is available: %s" % e)
    ctx.rule = ("case = input folder (sites, site type, equipment, sources CSV) + virtual-world/method dicts from "
                "the real defaults; each propagating parameter gets a column at each level with probability "
                "0.25/0.5/0.8 and each cell is filled with probability 0.3/0.6/0.9/1; named equipment (<=3 groups, "
                "<=6 components) or numeric equipment 0..3 (placeholders, also written as floats), 1..6 sites, sample "
                "size None/n; plus the degenerate family forced on every run (group without components, blank / "
                "non-integer component count, equipment 2.0 / 0.5 / 1.5 / 2.5, repeated site id, sample of 0 or more "
                "than the file, method file lacking a propagating parameter, durations that are not whole days) and "
                "the same shapes at 1-8 % in the random cases; "
                "non-trivial = some level below the global one specifies the parameter on the chain; distinct by "
                "(parameter, subset of levels specifying it) and placeholder/group shapes")
    core.lean_stage(ctx, MODULE, FILE, drivers=["drv_propagate"])
    ok_grid = grid_ok()
    ctx.extra["epr_grid_size"] = {"named": len(ok_grid[False]), "numeric": len(ok_grid[True])}
    if len(ok_grid[False]) < 100 or len(ok_grid[True]) < 30:
        raise core.InfraError("pandas does not read the production-rate grid back exactly")

    for lvl, ok in sorted(extra["methLookupExact"].items()):
        name = "method-column-lookup-exact:" + lvl
        ctx.obligations.append(name)
        if ok:
            ctx.discharged.append(name)
        else:
            ctx.broke(name, "the %s level no longer looks a method-specific value up as <row>.get(method + param): "
                      "the model's exact-match lookup (MKey.col) is not what the code does" % lvl)
    ctx.obligations.append("sample-call-shape")
    if extra["samplePlain"]:
        ctx.discharged.append("sample-call-shape")
    else:
        ctx.broke("sample-call-shape", "generate_infrastructure samples with %s, not <frame>.sample(<n>): the "
                  "duplicate-free sample the model takes as input is no longer what the code draws" % extra["sampleCall"])
    micro_correspondence(ctx, tables)

    # ---- run histories through initialize_infrastructure / initialize_emissions on one folder
    hist_lines = []
    for seq, whats in history_sequences(ctx, tables, extra, ok_grid, ctx.pick(10, 60)):
        check_history(ctx, seq, whats, tables, extra, hist_lines)
    if hist_lines:
        flat, spans_h = [], []
        for (_, ls, _, _) in hist_lines:
            spans_h.append((len(flat), len(ls)))
            flat += ls
        rep_h = core.LeanDriver("drv_propagate").run(flat)
        for (case, ls, il, inp), (st_, n_) in zip(hist_lines, spans_h):
            ml = rep_h[st_ + n_ - 1]
            ctx.traces += 1
            if ml != il:
                ctx.disagree("propagate-history", inp, ml[:2000], il[:2000])

    n_cases = ctx.pick(720, 7000)
    cases = degenerate_cases(ctx.rng, tables, ok_grid, ctx.pick(1, 8))
    ctx.count("degenerate_family", len(cases))
    forced = [{"mode": "named"}, {"mode": "numeric"}, {"mode": "named", "reject": True}, {"mode": "numeric", "reject": True}]
    for i in range(n_cases):
        cases.append(gen_case(ctx.rng, tables, ok_grid, force=forced[i] if i < len(forced) else None))

    collect = set()
    lines, spans, impl = [], [], []
    for ci, case in enumerate(cases):
        before = len(ctx.violations)
        status, world, picks = check_case(ctx, case, tables, extra, collect, probes=(ci % 6 == 0))
        ctx.evaluations += 1
        ctx.count("impl:" + status)
        ctx.count("mode:" + case["mode"])
        vt = P.ValTable()
        n_rows = len(case["sites"]["rows"])
        ls = P.model_lines(case, tables, vt, picks if picks is not None else list(range(n_rows)))
        ls.insert(len(ls) - 1, "sample %d %s" % (n_rows, "-" if case["n_sites"] is None else case["n_sites"]))
        spans.append((len(lines), len(ls)))
        lines += ls
        impl.append((status, world, vt, len(ctx.violations) > before))
    replies = core.LeanDriver("drv_propagate").run(lines)
    for case, (start, n), (status, world, vt, violated) in zip(cases, spans, impl):
        rs = replies[start:start + n]
        if any(r != "ok" for r in rs[:-2]):
            raise core.InfraError("driver rejected an input line: %r" % [l for l, r in zip(lines[start:start + n], rs) if r != "ok"][:2])
        sl, ml = rs[-2], rs[-1]
        if sl == "reject":
            ml = "reject:sample-larger-than-file"
        if status == "ok":
            il = P.dump_world(world, vt, case, tables)
            if sl != "ok %d" % len(world):
                ctx.disagree("propagate-sample", {"case": case}, sl, "ok %d" % len(world))
        elif status == "reject" or (status == "crash" and not violated):
            # sys.exit, or one of the exceptions the code is expected to refuse the input with
            il = "reject"
            ml = "reject" if ml.startswith("reject:") else ml
        else:
            continue  # unexpected crash: already an oracle violation; the model has no such outcome
        if il != ml:
            ctx.disagree("propagate", {"case": case}, ml[:2000], il[:2000])
            ctx.count("disagree")
        ctx.traces += 1
        if len(ctx.samples) < 3 and status == "ok":
            ctx.sample({"mode": case["mode"], "sites": len(world), "model==impl": il == ml, "world": il[:300]})
    # ---- same-process history: the cases above share site ids, type / equipment / component / method /
    # source names with different contents; a sample of them is built again at the end, in reverse order
    # (so each has been preceded once by the other), and must give the very same world as the first time
    first = {}
    for case, (status, world, vt, _) in zip(cases, impl):
        if status == "ok":
            first[id(case)] = P.dump_world(world, P.ValTable(), case, tables)
    again = [c for c in cases if id(c) in first][: ctx.pick(60, 500)]
    for case in reversed(again):
        status, world, _ = P.run_impl(case, extra)
        ctx.evaluations += 1
        ctx.count("history_reruns")
        now = P.dump_world(world, P.ValTable(), case, tables) if status == "ok" else status + ":" + str(world)
        if now != first[id(case)]:
            ctx.violate("C15:history:rerun-differs", "the same input folder and parameters give a different world "
                        "when built again later in the same process", {"case": case, "first": first[id(case)][:1500],
                                                                       "again": now[:1500]})
    for k in collect:
        if any(k[1:]) or k[0] in ("placeholder", "named"):
            ctx.nontrivial.add(k)
    ctx.extra["level_subsets_hit"] = len([k for k in collect if k[0] not in ("placeholder", "named")])
    ctx.assumptions.append("production rates on the grids 45m/2^13 (named equipment) and 9m/2^15 (numeric equipment, group count chosen so that the placeholder split is exact), survey time/cost multiples of 1.5 (site) "
                           "or 0.25 (group): every division and sum of the code is exact in doubles")


# ----------------------------------------------------------------------------------------------
# run history: the property must hold for the run the user asked for, whatever was run in the
# same input / generator folder before
# ----------------------------------------------------------------------------------------------
def _quiet_ok(case, tables, extra):
    """the case builds directly and satisfies every clause (a clean base / variant for a history)"""
    from harness.adapters import propagate as P
    status, world, sample = P.run_impl(case, extra)
    if status != "ok" or sample is None:
        return False
    ids = [str(r["site_ID"]) for r in case["sites"]["rows"]]
    if len(set(ids)) != len(ids):
        return False
    scratch = core.Ctx("C15", "quick", 0)
    oracle(scratch, case, tables, status, world, sample)
    return not scratch.violations


def variant(case, rng, tables, kind=None):
    """a copy of the case in which ONE input the C15 clauses depend on differs; returns (case2, what)"""
    import copy
    tb = tables
    c = copy.deepcopy(case)
    g = Gen(rng, tables, None)
    g.frac_durations = 0.0
    numeric = case["mode"] == "numeric"
    n_rows = len(c["sites"]["rows"])
    plain_unscaled = [k for k in tb["globalPlain"] if not k.endswith(tb["srcEpr"])]
    meth_suffix = {}
    for me in c["methods"]:
        for sfx in list(tb["globalMeth"]) + [tb["siteDeploy"]]:
            meth_suffix[me + sfx] = sfx

    def new_cell(col, level, old, source_row=False):
        for _ in range(20):
            if col in meth_suffix:
                v = g.meth_value(meth_suffix[col], level)
            elif source_row:
                v = g.plain_value(tb["repPrefix"] + col, numeric)
            else:
                v = g.plain_value(col, numeric)
            if v != old:
                return v
        return None

    def change_table(key, level, source_row=False):
        t = c.get(key)
        if not t:
            return None
        if source_row:
            cols = [x for x in t["cols"] if x in (tb["srcErs"], tb["srcDur"], tb["srcMulti"], tb["srcRd"], tb["srcRc"])
                    or x in meth_suffix]
        else:
            cols = [x for x in t["cols"] if x in plain_unscaled or (x in meth_suffix and (
                not numeric or meth_suffix[x] not in (tb["eqTimeKey"], tb["eqCostKey"])))]
        if not cols or not t["rows"]:
            return None
        col = rng.choice(cols)
        row = rng.choice(t["rows"])
        v = new_cell(col, level, row.get(col), source_row)
        if v is None:
            return None
        row[col] = v
        return "%s-cell:%s" % (level, meth_suffix.get(col, col))

    kinds = ["site_samples:up", "site_samples:down", "site_samples:None", "site_samples:n", "sites", "site_type",
             "equipment", "sources", "method-param", "global-param"]
    kind = kind or rng.choice(kinds)
    cur = c["n_sites"]
    if kind.startswith("site_samples"):
        if kind.endswith("up"):
            opts = [n for n in range(1, n_rows + 1) if cur is not None and n > cur] + ([None] if cur is not None and cur < n_rows else [])
        elif kind.endswith("down"):
            opts = [n for n in range(1, n_rows) if n < (n_rows if cur is None else cur)]
        elif kind.endswith("None"):
            opts = [None] if cur is not None and cur != n_rows else []
        else:
            opts = [n for n in range(1, n_rows + 1) if n != (n_rows if cur is None else cur)]
        if not opts:
            return None, None
        c["n_sites"] = rng.choice(opts)
        return c, kind
    if kind in ("sites", "site_type", "equipment", "sources"):
        what = change_table({"sites": "sites", "site_type": "types", "equipment": "equipment", "sources": "sources"}[kind],
                            kind, source_row=(kind == "sources"))
        return (c, what) if what else (None, None)
    if kind == "method-param" and c["methods"]:
        me = rng.choice(c["methods"])
        sfx = rng.choice([x for x in tb["globalMeth"] if x not in (tb["monthsKey"], tb["yearsKey"])
                          and (not numeric or x not in (tb["eqTimeKey"], tb["eqCostKey"]))])
        v = g.meth_value(sfx, "global")
        if v == c["global_meth"][me].get(sfx):
            return None, None
        c["global_meth"][me][sfx] = v
        return c, "method-param:" + sfx
    if kind == "global-param":
        key = rng.choice([k for k in plain_unscaled if not k.endswith(tb["srcRd"]) and not k.endswith(tb["srcRc"])
                          and not k.endswith(tb["srcErs"])])
        v = g.plain_value(key, numeric)
        if v == c["global"].get(key):
            return None, None
        c["global"][key] = v
        return c, "global-param:" + key
    return None, None


def history_sequences(ctx, tables, extra, ok_grid, n):
    """n run histories [A, B] or [A, B, A'] on one folder; consecutive runs differ in one input"""
    seqs = []
    kinds = ["site_samples:up", "site_samples:down", "site_samples:None", "sites", "site_type", "equipment",
             "sources", "method-param", "global-param", "site_samples:n"]
    tries = 0
    while len(seqs) < n and tries < 40 * n:
        tries += 1
        base = gen_case(ctx.rng, tables, ok_grid, force={"mode": ctx.rng.choice(["named", "named", "numeric"])})
        if len(base["sites"]["rows"]) < 3 or not base["methods"] or not _quiet_ok(base, tables, extra):
            continue
        kind = kinds[len(seqs) % len(kinds)]
        second, what = variant(base, ctx.rng, tables, kind)
        if second is None or not _quiet_ok(second, tables, extra):
            continue
        seq, whats = [base, second], [what]
        if ctx.rng.random() < 0.4:
            third, what3 = variant(second, ctx.rng, tables)
            if third is not None and _quiet_ok(third, tables, extra):
                seq.append(third)
                whats.append(what3)
        seqs.append((seq, whats))
    return seqs


def check_history(ctx, seq, whats, tables, extra, lines_out):
    """runs one history through the real set-up path and judges EVERY run's world against that run's own
    inputs with all clauses of the oracle; returns the (case, vt, dump) of each run for the model comparison"""
    from harness.adapters import propagate as P
    res = P.run_history(seq, extra)
    for k, (case, (status, world, reused)) in enumerate(zip(seq, res)):
        what = "first-run" if k == 0 else whats[k - 1]
        ctx.evaluations += 1
        ctx.count("history:" + what.split(":")[0] + (":" + what.split(":")[1] if what.startswith("site_samples") else ""))
        if status == "infra":
            raise core.InfraError("CSV round trip: " + world)
        inp = {"history": seq[: k + 1], "differs": whats[:k], "run": k, "case": case,
               "reused_generated_world": reused}
        if status != "ok":
            ctx.violate("C15:history:run-fails", "run %d of a history over one input folder fails (%s) although the same "
                        "input builds directly" % (k, world), inp)
            continue
        row_of = {str(r["site_ID"]): i for i, r in enumerate(case["sites"]["rows"])}
        picks = [row_of.get(s["sid"], -1) for s in world]
        oracle(ctx, case, tables, "ok", world, picks, inp=inp)
        if all(p >= 0 for p in picks):
            vt = P.ValTable()
            lines_out.append((case, P.model_lines(case, tables, vt, picks), P.dump_world(world, vt, case, tables), inp))


def micro_correspondence(ctx, tables):
    """the model's helper functions against the Python primitives they stand for (exhaustive on small
    domains): resolve on all 2^5 subsets of levels, round-half-even against `round`, the `_equipment`
    strip against `re.sub(..., re.IGNORECASE)`, the un-prefixing against `in` / `re.sub`"""
    import itertools
    import re
    lines, want = [], []
    for mask in itertools.product([False, True], repeat=5):
        vals = ["t%d" % (10 + i) if on else "-" for i, on in enumerate(mask)]
        lines.append("resolve t9 [%s]" % ",".join(vals))
        spec = [v for v in vals if v != "-"]
        want.append(spec[-1] if spec else "t9")
    for d in (1, 2, 4, 8):
        for n in range(-41, 42):
            lines.append("round %d %d" % (n, d))
            r1, r2 = round(Fraction(n, d)), round(n / d)
            if r1 != r2:
                raise core.InfraError("round(Fraction) != round(float) on a dyadic value")
            want.append(str(r1))
    pat = re.compile(re.escape("_equipment"), re.IGNORECASE)
    names = [tables["placeholderBoth"], tables["placeholderRep"], tables["placeholderNonRep"], "c1", "c2",
             "pump_equipment", "PUMP_EQUIPMENT_x", "a_Equipment_equipment", "_equipmen", "x_equipment_equip",
             "_equipment", "tank_EQUIPMENT", "_equip_equipmentment"]
    for nm in names:
        lines.append("strip " + nm)
        want.append(re.sub(pat, "", nm))
    keys = list(tables["globalPlain"]) + ["repairable_", "non_repairable_", "xrepairable_yrepairable_z",
                                          "repairable_repairable_duration", "duration", "repairabl_duration"]
    for pre in (tables["repPrefix"], tables["nonRepPrefix"]):
        for k in keys:
            lines.append("unprefix %s %s" % (pre, k))
            want.append(("1" if pre in k else "0") + " " + re.sub(pre, "", k))
    # `sites_in.sample(n)` (the call is checked by the extractor to have no replace=/weights=): for every
    # file length 1..6 and every requested size the drawn rows are a valid sample (n distinct rows of the
    # file) or the call raises, exactly when the model says so
    import numpy as np
    import pandas as pd
    for rows in range(1, 7):
        df = pd.DataFrame({"site_ID": [10 * i + 7 for i in range(rows)], "x": ["a"] * rows})
        for n in [None] + list(range(0, rows + 3)):
            for seed in range(3):
                np.random.seed(1000 * rows + 10 * (n or 0) + seed)
                try:
                    drawn = [int(i) for i in df.sample(len(df) if n is None else n).index]
                    k = len(df) if n is None else n
                    valid = len(drawn) == k and len(set(drawn)) == k and all(0 <= i < rows for i in drawn)
                    res = ("ok %d" % k) if valid else "invalid-sample %r" % (drawn,)
                except ValueError:
                    res = "reject"
                lines.append("sample %d %s" % (rows, "-" if n is None else n))
                want.append(res)
    got = core.LeanDriver("drv_propagate").run(lines)
    for l, g, w in zip(lines, got, want):
        ctx.evaluations += 1
        if g.strip() != w.strip():
            ctx.disagree("propagate-helpers", {"line": l}, g, w)
    ctx.count("helper_lines", len(lines))
    ctx.traces += len(lines)


def replay(ctx, data):
    from harness.extract import levels
    from harness.adapters import propagate as P
    inp = data.get("input", {})
    if "case" not in inp:
        print("replay: broken obligation / correspondence:", data.get("broken_obligations"))
        for d in data.get("correspondence_disagreements", [])[:3]:
            print(" model:", d.get("model"))
            print(" impl :", d.get("impl"))
        return 1
    try:
        tables, extra = levels.extract()
    except Exception:
        tables, extra = levels.last_good()
    if "history" in inp:
        # a run history over one input folder, through initialize_infrastructure / initialize_emissions
        seq = inp["history"]
        res = P.run_history(seq, extra)
        for k, (case, (status, world, reused)) in enumerate(zip(seq, res)):
            print("run %d: site_samples=%r -> %s, generated world reused from disk: %s%s" % (
                k, case["n_sites"], status if status != "ok" else "%d sites %s" % (len(world), [s["sid"] for s in world]),
                reused, "" if k == 0 else "   (differs from run %d in %s)" % (k - 1, (inp.get("differs") or ["?"] * k)[k - 1])))
            if status != "ok":
                ctx.violate("C15:history:run-fails", "run %d fails: %s" % (k, world), {"case": case})
                continue
            row_of = {str(r["site_ID"]): i for i, r in enumerate(case["sites"]["rows"])}
            oracle(ctx, case, tables, "ok", world, [row_of.get(s["sid"], -1) for s in world])
        seen = {}
        for v in ctx.violations:
            seen.setdefault(v["signature"], []).append(v["what"])
        for sig, whats in seen.items():
            print("oracle:", sig, "-", whats[0], ("(+%d more)" % (len(whats) - 1)) if len(whats) > 1 else "")
        return 1 if ctx.violations else 0
    case = inp["case"]
    # the failing input may need a history: two other worlds are built first in this process, the case is
    # judged, two more are built, and the case must then give the same world again
    import random
    rng, ok_grid = random.Random(1), grid_ok()
    for _ in range(2):
        P.run_impl(gen_case(rng, tables, ok_grid), extra)
    status, world, picks = check_case(ctx, case, tables, extra, probes=True)
    if status == "ok":
        first = P.dump_world(world, P.ValTable(), case, tables)
        for _ in range(2):
            P.run_impl(gen_case(rng, tables, ok_grid), extra)
        st2, w2, _ = P.run_impl(case, extra)
        if st2 != "ok" or P.dump_world(w2, P.ValTable(), case, tables) != first:
            ctx.violate("C15:history:rerun-differs", "the same input gives a different world when built again "
                        "later in the same process", {"case": case})
    if status == "ok":
        vt = P.ValTable()
        lines = P.model_lines(case, tables, vt, picks)
        ml = core.LeanDriver("drv_propagate").run(lines)[-1]
        il = P.dump_world(world, vt, case, tables)
        print("implementation:", il[:1500])
        print("model         :", ml[:1500])
        print("model == implementation:", il == ml)
    else:
        print("implementation:", status, world)
    seen = {}
    for v in ctx.violations:
        seen.setdefault(v["signature"], []).append(v["what"])
    for sig, whats in seen.items():
        print("oracle:", sig, "-", whats[0], ("(+%d more)" % (len(whats) - 1)) if len(whats) > 1 else "")
    return 1 if ctx.violations else 0
