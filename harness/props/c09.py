"""C09 — follow-up surveys happen only at flagged sites, per the screening work practice.

Lean: Props/C09.lean (one_outstanding, each_flag_at_most_one_followup, queued_implies_flagged,
queue_entries_flagged, not_before_reporting_delay, proportion, proportion_upper_bound,
stale_discarded, stale_instant_partial, followup_only_from_queue, C09_partial, C09_counterexample,
C09_stale_counterexample) over Model/FollowUp.lean.
Tie: the REAL SiteLevelMethod (constructor, deploy_crews filing the detection records, update /
update_mobile / update_stationary / update_candidates_for_flags / _filter_candidates_by_proportion),
the REAL FollowUpMobileSchedule / FollowUpSurveyPlanner / StationaryFollowUpSurveyPlanner / Workplan and
the REAL ComponentLevelMethod as follow-up method (crew shortage decides the survey outcomes) are
driven over generated multi-day histories; after every operation pool order, flags, first-candidate
date, counter, queue in pop order, in-queue flags, tagging dates and n_flags are compared with
drv_followup.  Oracle: the clauses of the property evaluated on the real objects' own logs.
Whole-run stage: the real simulator with observation wrappers (harness/wholerun.py).
"""
from __future__ import annotations

import concurrent.futures
import itertools
import json
import os
import random

from harness import core
from harness.props import _followup_common as FC

MANIFEST_ENTRY = {
    "text": "Lean theorems over an executable model of the follow-up work practice (candidate pool, in-pool / in-queue flags, first-candidate date, detection records, follow-up queue), proved by induction over arbitrary histories of screenings, daily updates, follow-up days with arbitrary survey outcomes and tagging surveys: one_outstanding (a site is queued exactly once iff flagged, never pooled and queued; flags = completed + withdrawn + outstanding), each_flag_at_most_one_followup, queued_implies_flagged (every flag stems from released detections of the site with filtered rate >= threshold / rolling-window thresholds or >= instant threshold), not_before_reporting_delay (flags and follow-up visits; + delay from the first candidate on the pool route), proportion (a decision keeps the first min(ceil(p*n),|pool|) candidates of the pool sorted by decreasing rate; upper bound ceil(p*(c+|pool|)) with the proportion first), stale_discarded (release-time check), followup_only_from_queue, C09_partial for one screening method per follow-up method. C09_counterexample (two screening methods sharing a follow-up method queue a site twice, F13) and C09_stale_counterexample (a pooled candidate survives a later tagging survey, F17) prove the full statement false of the code as it stands. The model is tied to the real SiteLevelMethod / FollowUpMobileSchedule / FollowUpSurveyPlanner / ComponentLevelMethod / Workplan by per-operation differential correspondence on generated multi-day histories on every run, the property's clauses are evaluated directly on the real objects' logs, and whole simulations are checked through observation wrappers. Layer 3 (every run): SiteLevelMethod.update_mobile is translated from the current source to Lean (harness/extract/followup_src.py -> Generated/FollowUpSrc.lean) and Props/FollowUpTie.lean is re-checked: the translated decision with its recorded calls on pool, plan and follow-up schedule interpreted as the model's operations is FollowUp.updMobile (pool, queue, the site's flags, the detection counter); a method outside the translated subset is a note, a failing tie theorem a broken obligation.",
    "design_ref": "DESIGN.md 5.9, 4.3",
    "note": "trusted: Lean kernel + propext/Classical.choice/Quot.sound; the hand-written model (tied by sampled correspondence, not proof); harness adapter with stub sites and scripted measured rates; rates/thresholds on an integer grid (multiples of 840) and dyadic proportions so that every double the code computes is the correctly rounded value of a small rational (recovered exactly, asserted); follow-up survey outcomes (crew budget) are inputs of the model; float artefacts of ceil(n*p) for non-dyadic proportions (e.g. 25*0.28) and a follow-up method with its own survey frequency (AttributeError in the real code) are outside the check",
    "technique": "Lean 4 invariant proofs over the work-practice state machine + differential correspondence with the real classes + direct oracle + whole-run trace oracle",
}

MODULE = "LdarModel.Props.C09"
FILE = "LdarModel/Props/C09.lean"

U = FC.UNIT


def _mp(**kw):
    d = {"stationary": False, "rd": 0, "delay": 0, "prop": [1, 1], "thrFirst": True, "thr": [4 * U, 1],
         "inst": None, "filter": "recent", "sw": 2, "lw": 3, "sthr": [4 * U, 1], "lthr": [3 * U, 1]}
    d.update(kw)
    return d


# witnesses of the known findings (the Lean counterexamples use the same histories, rates in units)
WITNESS_F13 = {
    "nsites": 2, "methods": [_mp(delay=1), _mp(delay=1)], "fu": {"crews": 1, "workday": 8, "times": [480, 480]},
    "days": [{"screen": [[0, 0, 8 * U, 1], [1, 0, 6 * U, 1]]}, {"screen": []}, {"screen": []}, {"screen": []}],
}
WITNESS_F13B = {
    "nsites": 1, "methods": [_mp(), _mp(stationary=True, sthr=[0, 1])],
    "fu": {"crews": 1, "workday": 8, "times": [600]},
    "days": [{"screen": [[0, 0, 8 * U, 1]]}, {"screen": [[1, 0, 8 * U, 1]]}, {"screen": []}],
}
WITNESS_F17 = {
    "nsites": 1, "methods": [_mp(delay=3)], "fu": {"crews": 1, "workday": 8, "times": [120]},
    "days": [{"screen": [[0, 0, 8 * U, 1]]}, {"screen": [], "tag": [0]}, {"screen": []}, {"screen": []},
             {"screen": []}],
}


def param_grid():
    """every combination of the work-practice switches (each gets its own random histories)"""
    out = []
    for flt, tf, prop, delay, rd, inst in itertools.product(
            FC.FILTERS, [True, False], [[0, 1], [1, 2], [1, 1], [1, 4], [3, 4]], [0, 1, 3], [0, 2],
            [None, [6 * U, 1]]):
        out.append(dict(stationary=False, filter=flt, thrFirst=tf, prop=prop, delay=delay, rd=rd, inst=inst))
    for tf, prop, delay, rd, inst, sw, lthr in itertools.product(
            [True, False], [[0, 1], [1, 2], [1, 1]], [0, 2], [0, 1], [None, [6 * U, 1]], [1, 2, 3], [0, 2 * U]):
        out.append(dict(stationary=True, thrFirst=tf, prop=prop, delay=delay, rd=rd, inst=inst, sw=sw,
                        lthr=[lthr, 1]))
    return out


def build_histories(ctx):
    rng = ctx.rng
    hists = []
    grid = param_grid()
    per_cell = ctx.pick(4, 16)
    for cell in grid:
        for _ in range(per_cell):
            h = FC.gen_history(rng, nmethods=1, stationary=cell["stationary"])
            h["methods"][0].update(cell)
            hists.append(h)
    for _ in range(ctx.pick(3000, 40000)):
        hists.append(FC.gen_history(rng, nmethods=1))
    for _ in range(ctx.pick(1200, 12000)):
        hists.append(FC.gen_history(rng, nmethods=2))
    for _ in range(ctx.pick(200, 3000)):
        hists.append(FC.gen_history(rng, nmethods=rng.choice([1, 1, 2]), big=True))
    return hists


def key_of(hist, seen):
    mp = hist["methods"][0]
    if not (seen["instant"] or seen["pool"]):
        return None
    return (len(hist["methods"]), mp["stationary"], mp["filter"] if not mp["stationary"] else mp["sw"],
            mp["thrFirst"], tuple(mp["prop"]), min(mp["delay"], 2), min(mp["rd"], 2), mp["inst"] is None,
            seen["instant"] > 0, seen["pool"] > 0, seen["reinsert"] > 0, seen["rejected"] > 0,
            seen["stale_discarded"] > 0, seen["inprogress"] > 0, seen["unattended"] > 0, seen["complete"] > 0)


def evaluate(ctx, runs):
    for (h, lines, impl, w) in runs:
        seen = FC.oracle(ctx, h, w)
        for k, v in seen.items():
            if v:
                ctx.count("seen:" + k, v)
        ctx.count("histories:%d-method%s" % (len(h["methods"]), "" if len(h["methods"]) == 1 else "s"))
        ctx.count("kind:" + ("stationary" if h["methods"][0]["stationary"] else "mobile"))
        k = key_of(h, seen)
        if k is not None:
            ctx.nontrivial.add(k)


def guarded(ctx, name, fn, *a):
    """an unexpected shape of the code (constructor signature, missing attribute, unparsable source) is a
    broken obligation and the search goes on with the other stages; never an infrastructure error"""
    try:
        return fn(ctx, *a)
    except core.InfraError:
        raise
    except (Exception, SystemExit) as e:  # noqa: BLE001
        import traceback
        ctx.broke("C09 stage %s could not drive the real code: %s" % (name, type(e).__name__),
                  traceback.format_exc()[-1500:])
        return None


def witness_stage(ctx):
    """the stored witnesses of the known findings are replayed on the real code on every run"""
    runs = FC.correspond(ctx, [WITNESS_F13, WITNESS_F17], component="followup-witness")
    evaluate(ctx, runs)
    # F13b exits inside the real code: no correspondence (the model has no such exit), oracle only
    from harness.adapters import followup as F
    lines, impl, w = F.run_history(WITNESS_F13B)
    FC.oracle(ctx, WITNESS_F13B, w)
    ctx.traces += 1
    ok, det = F.binding_check()
    ctx.evaluations += 1
    if not ok:
        ctx.violate("C09:binding:wrong-follow-up-schedule", "Program._gen_method does not hand a screening method the "
                    "schedule of its preferred follow-up method", {"binding": det})
    # the duplicate request of F13 really costs a second survey when the daily capacity is one
    w13 = runs[0][3]
    ctx.extra["F13_witness_surveys_of_site0"] = sum(1 for v in w13.visits if v["site"] == 0 and v["outcome"] == "c")


def proportion_grid_stage(ctx):
    """the real _filter_candidates_by_proportion on pools of n real planners for every decimal
    proportion k/100, n <= 200 (threshold first) and counter c <= 200 (proportion first, pool of 200
    and of 5): kept count = min(ceil(k*n/100), |pool|) exactly, kept = prefix, in-pool flags follow"""
    from harness.adapters import followup as F
    cells = [(1, k, n, 0) for k in range(101) for n in range(201)]
    cells += [(0, k, 200, c) for k in range(101) for c in range(201)]
    cells += [(0, k, 5, c) for k in range(101) for c in range(0, 201, 7)]
    for (tf, k, n, c, kept, prefix_ok) in F.proportion_grid(cells):
        ctx.evaluations += 1
        base = n if tf else c
        exact = min(-((-base * k) // 100), n)
        if kept != exact:
            ctx.violate("C09:proportion:decimal-grid:" + ("more" if kept > exact else "fewer"),
                        "the candidate filter keeps %d of %d for proportion %d/100 (exact ceiling %d)" % (kept, n, k, exact),
                        {"proportion_grid": {"thrFirst": bool(tf), "k": k, "n": n, "c": c, "kept": kept, "exact": exact}})
        elif not prefix_ok:
            ctx.violate("C09:proportion:decimal-grid:not-prefix", "kept candidates are not the largest / flags not updated",
                        {"proportion_grid": {"thrFirst": bool(tf), "k": k, "n": n, "c": c}})
    ctx.count("proportion_grid_cells", len(cells))



# ------------------------------------------------------------------------------------------------
# state that survives between cases in one process (LESSONS 1)
# ------------------------------------------------------------------------------------------------
MODELLED_SOURCES = ["programs/site_level_method.py", "programs/method.py", "programs/component_level_method.py",
                    "scheduling/follow_up_mobile_schedule.py", "scheduling/generic_schedule.py",
                    "scheduling/follow_up_survey_planner.py", "scheduling/survey_planner.py",
                    "scheduling/workplan.py", "scheduling/surveying_dataclasses.py", "utils/queue.py"]


def shared_state_table(ctx):
    """class-level / module-level mutable containers, caches and copy / pickle hooks of the classes the
    model covers, read from the source (ast).  Expected: none — every container of the work practice is
    created per instance.  Anything found is a broken obligation (the model has no such sharing); the
    interleaved stage then searches a failing history."""
    import ast
    from harness import shim
    found = []
    mutable_calls = {"list", "dict", "set", "SortedList", "defaultdict", "OrderedDict", "deque", "PriorityQueue",
                     "PriorityQueueWithFIFO", "Counter"}

    def is_mutable(v):
        if isinstance(v, (ast.List, ast.Dict, ast.Set, ast.ListComp, ast.DictComp, ast.SetComp)):
            return True
        if isinstance(v, ast.Call):
            f = v.func
            name = f.id if isinstance(f, ast.Name) else (f.attr if isinstance(f, ast.Attribute) else "")
            return name in mutable_calls
        return False

    for rel in MODELLED_SOURCES:
        path = os.path.join(shim.REPO_SRC, rel)
        tree = ast.parse(open(path).read())
        for node in tree.body:
            if isinstance(node, (ast.Assign, ast.AnnAssign)) and node.value is not None and is_mutable(node.value):
                found.append("%s:%d module-level container" % (rel, node.lineno))
            if isinstance(node, ast.ClassDef):
                for b in node.body:
                    if isinstance(b, (ast.Assign, ast.AnnAssign)) and b.value is not None and is_mutable(b.value):
                        found.append("%s:%d class-level container in %s" % (rel, b.lineno, node.name))
                    if isinstance(b, ast.FunctionDef):
                        if b.name in ("__deepcopy__", "__copy__", "__reduce__", "__reduce_ex__", "__getstate__",
                                      "__setstate__"):
                            found.append("%s:%d copy/pickle hook %s.%s" % (rel, b.lineno, node.name, b.name))
                        for dec in b.decorator_list:
                            txt = ast.unparse(dec)
                            if "cache" in txt:
                                found.append("%s:%d cached method %s.%s (%s)" % (rel, b.lineno, node.name, b.name, txt))
            if isinstance(node, ast.FunctionDef):
                for dec in node.decorator_list:
                    if "cache" in ast.unparse(dec):
                        found.append("%s:%d cached function %s" % (rel, node.lineno, node.name))
    ctx.extra["shared_state_table"] = found
    ctx.evaluations += len(MODELLED_SOURCES)
    if found:
        ctx.broke("C09 shared-state table: the modelled classes hold state outside their instances", "\n".join(found))


def _deterministic(h):
    h = json.loads(json.dumps(h))
    if isinstance(h["fu"].get("travel"), list):
        h["fu"]["travel"] = 0          # a list of travel times is sampled with the unseeded random.choice
    return h


def same_process_stage(ctx):
    """histories whose keys collide (same site ids, same method / follow-up names) but whose values differ
    are run in ONE process with all their real objects alive at once, advanced day by day in round-robin,
    in both orders, and each result must equal the history run alone; then two worlds are built from the
    SAME parameter dictionaries (and the same history object), which must come out deep-equal"""
    from harness.adapters import followup as F
    rng = ctx.rng
    groups = ctx.pick(60, 600)
    for _ in range(groups):
        k = rng.choice([2, 3])
        nm = rng.choice([1, 1, 2])
        base = _deterministic(FC.gen_history(rng, nmethods=nm))
        hs = [base]
        for _j in range(k - 1):
            h = _deterministic(FC.gen_history(rng, nmethods=nm, stationary=base["methods"][0]["stationary"]))
            # colliding keys: same names, same ids (as far as the site counts allow), same start
            for key in ("names", "fu_name", "start"):
                if key in base:
                    h[key] = base[key]
                else:
                    h.pop(key, None)
            ids = base.get("ids") or ["s%d" % i for i in range(base["nsites"])]
            if h["nsites"] <= len(ids):
                h["ids"] = ids[:h["nsites"]]
            else:
                h.pop("ids", None)
            hs.append(h)
        alone = [F.run_history(h) for h in hs]
        for order in (list(range(k)), list(reversed(range(k)))):
            res = F.run_interleaved([hs[j] for j in order])
            for pos, j in enumerate(order):
                ctx.evaluations += 1
                if res[pos] is None or res[pos][1] != alone[j][1]:
                    got = None if res[pos] is None else res[pos][1]
                    first = next((x for x in range(min(len(got or []), len(alone[j][1])))
                                  if got[x] != alone[j][1][x]), None)
                    ctx.violate("C09:history-dependence:interleaved",
                                "a history run together with other histories in one process (colliding site ids / "
                                "method names) behaves differently from the same history run alone",
                                {"interleaved": [hs[x] for x in order], "differs": j, "first_line": first,
                                 "alone": None if first is None else alone[j][1][first],
                                 "together": None if first is None or got is None else got[first]})
                    break
        ctx.traces += 1
        # several real objects from the same input
        h = hs[0]
        props = [F.screening_props(mp, h.get("fu_name") or "FU") for mp in h["methods"]]
        props_before = json.dumps(props, sort_keys=True, default=str)
        hist_before = json.dumps(h, sort_keys=True)
        r1 = F.run_history(h, props)
        r2 = F.run_history(h, props)
        ctx.evaluations += 1
        if r1[1] != alone[0][1] or r2[1] != alone[0][1]:
            ctx.violate("C09:history-dependence:shared-input",
                        "two sets of real objects built from the same parameter dictionaries do not behave alike",
                        {"history": h})
        if json.dumps(props, sort_keys=True, default=str) != props_before or json.dumps(h, sort_keys=True) != hist_before:
            ctx.violate("C09:history-dependence:input-mutated",
                        "the parameter dictionaries handed to the constructors were modified", {"history": h})
    ctx.count("same_process_groups", groups)


def boundary_histories(ctx):
    """boundary dates on purpose: every listed first day (New Year inside the history, leap day, day 366,
    Dec 31, Jan 1, the same dates one year apart) with histories of 1, 2 and several days"""
    rng = ctx.rng
    out = []
    for st in FC.BOUNDARY_STARTS:
        for nd in (1, 2, 5, 9):
            for _ in range(ctx.pick(2, 10)):
                out.append(FC.gen_history(rng, nmethods=rng.choice([1, 1, 2]), start=st, ndays=nd))
    return out


# ------------------------------------------------------------------------------------------------
# whole simulations
# ------------------------------------------------------------------------------------------------
WIDE_TAGS = ["followup", "delays", "freq", "months", "years", "coverage", "workday", "crews", "sims"]


HISTORY_KINDS = ["site-count", "period-start", "mdl", "coverage", "months", "surveys-per-year"]


def _whole_one(args):
    seed, k, wide = args
    from harness import wholerun
    rng = random.Random(seed * 7919 + k)
    history = None
    if isinstance(wide, tuple) and wide[0] == "history":
        history, wide = wide[1], None
    # execution modes: odd runs go through the process pool with two simulations (two simulations per
    # worker / pickled programs), even runs are sequential (debug) with one simulation
    pool = k % 2 == 1
    if wide is None:
        cfg = wholerun.make_config(rng, n_sims=2 if pool else 1)
    else:
        # "wide" configurations: leaves / boundary values the base generator never draws (proportion 0 / 0.07,
        # threshold 100 / 0.125, delay 30 / 1, instant threshold below the threshold, stationary windows,
        # reporting delay 30, crew_count 0, single months, deployment years, coverage 0, ...)
        cfg = wholerun.make_config(rng, n_sims=2 if pool else 1, wide=wide)
    if wide is None and k % 4 == 0 and "AIR" in cfg.get("methods", {}):
        # stress configuration of the follow-up chain: weekly screening surveys that do not fit into the
        # crew's day (completed on a later day than started), a reporting delay, a follow-up delay during
        # which sites are screened again (null re-screenings when an emission has ended), filter recent
        air = cfg["methods"]["AIR"]
        air.update({"surveys_per_year": 52, "survey_time": 150, "t_bw_sites": [20.0], "max_workday": 8,
                    "reporting_delay": 2})
        air["follow_up"].update({"delay": 10, "redundancy_filter": rng.choice(["recent", "average"]),
                                 "threshold": 1.0, "proportion": 1.0, "interaction_priority": "threshold"})
    if wide is None and history is None and k % 4 == 2 and "AIR" in cfg.get("methods", {}):
        # second stress configuration: the follow-up method finds nothing to tag (its detection limit lies
        # above every leak), so each completed follow-up survey is a tagging-capable survey that tags nothing;
        # weekly screening with a reporting delay of 5 days leaves screenings pending across such surveys
        air = cfg["methods"]["AIR"]
        air.update({"surveys_per_year": 52, "reporting_delay": 5})
        air["follow_up"].update({"delay": 0, "threshold": 1.0, "proportion": 1.0, "interaction_priority": "threshold",
                                 "redundancy_filter": rng.choice(["recent", "max"])})
        fu_name = air["follow_up"]["preferred_method"]
        cfg["methods"][fu_name]["mdl"] = 64.0
    what = None
    if history is not None:
        # "history" shape: an earlier run in the SAME folder differed in one defining leaf; the run the user
        # asked for (cfg) must satisfy every clause against its own configuration whatever ran there before
        prev = None
        for t in range(200):
            cand, w_ = wholerun.prev_variant(cfg, random.Random(seed * 104729 + k * 977 + t))
            if w_ == history:
                prev, what = cand, w_
                break
        if prev is None:
            prev, what = wholerun.prev_variant(cfg, random.Random(seed * 104729 + k))
        res = wholerun.run_after(prev, cfg, debug=not pool, processes=2 if pool else 1, trace=True)
    else:
        res = wholerun.run_config(cfg, debug=not pool, processes=2 if pool else 1, trace=True)
    try:
        out = {"cfg": cfg, "history": what, "prev_rc": getattr(res, "prev_rc", None), "rc": res.rc if hasattr(res, "rc") else None, "log": (res.log or "")[-2000:]
               if hasattr(res, "log") else "", "traces": res.trace, "pool": pool,
               "wide": wide, "wide_applied": cfg.get("wide_applied", [])}
        return out
    finally:
        res.cleanup()


def check_trace(cfg, tr):
    """oracle on one (program, simulation) trace; returns (violations, stats)"""
    viol, stats = [], {"fu_visits": 0, "flags": 0, "fuq": 0, "snapshots": 0}
    prog = next((p for p in cfg["programs"] if p["name"] == tr["prog"]), None)
    if prog is None:
        return viol, stats
    meths = cfg["methods"]
    screening = [m for m in prog["methods"] if meths[m].get("follow_up")]
    fus = [m for m in prog["methods"] if meths[m]["is_follow_up"]]
    if not screening or not fus:
        return viol, stats
    rd = {m: int(meths[m]["reporting_delay"]) for m in screening}
    screened = {}          # (method, site) -> list of days of completed screening surveys
    outstanding = {}       # site -> info of the flag behind the outstanding request
    in_update = {}         # screening method currently between its deploy and its flagupd
    last_tag = {}          # site -> day of the latest completed survey of a tagging (component-level) method
    has_fuflag = any(ev[0] == "fuflag" for ev in tr["events"])
    has_meas = any(ev[0] == "sitemeas" for ev in tr["events"])
    meas = {}              # (method, site) -> [(completion day, measured rate)] of completed screening surveys
    tags = {}              # site -> days of completed surveys of tagging (component-level) methods
    stats["multiday_screenings"] = 0
    stats["history_checks"] = 0

    def processed(method, site, upto):
        """measurements that were due (completion + reporting delay <= upto) and not stale when due: no
        tagging survey of the site strictly between the screening's completion and the day it became due
        (follow-up methods are deployed after the screening methods of the same day)"""
        out = []
        for (c, r) in meas.get((method, site), []):
            due = c + rd[method]
            if due <= upto and not any(c < t < due for t in tags.get(site, [])):
                out.append(r)
        return out

    def filtered(method, rates):
        f = meths[method]["follow_up"].get("redundancy_filter", "recent")
        if f == "max":
            return max(rates)
        if f == "average":
            import numpy
            return float(numpy.average(rates))
        return rates[-1]

    from fractions import Fraction
    first_cand = {m: None for m in screening}     # first day with a non-empty pool since the last decision
    decided_today = {m: None for m in screening}  # (day, kept sites) of the decision of the current update
    has_dec = any(ev[0] == "fudec" for ev in tr["events"])
    if not has_meas:
        stats["skipped:no-measurement-events"] = 1
    if not has_dec:
        stats["skipped:no-decision-events"] = 1

    def mean_last(w, rates):
        if not w or len(rates) < w:
            return 0
        return sum(rates[len(rates) - w:]) / w

    # the run is the one the configuration asks for (whatever was run in the folder before): the schedules
    # of the screening and follow-up methods cover exactly the configured sites with the configured months /
    # surveys per year, and the screening methods were updated on every day of the configured period
    from datetime import date as _date
    cfg_sites = {str(x["id"]) for x in cfg["sites"]}
    ndays = (_date(*cfg["end"]) - _date(*cfg["start"])).days + 1
    upd_days = {m: [] for m in screening}
    for ev in tr["events"]:
        if ev[0] == "sched" and ev[1] in screening + fus:
            stats["schedule_checks"] = stats.get("schedule_checks", 0) + 1
            got = {str(x[0]) for x in ev[5]}
            if got != cfg_sites:
                viol.append(("C09:whole:schedule-sites", "the schedule of a method does not cover exactly the configured "
                             "sites", {"method": ev[1], "scheduled": sorted(got)[:30], "configured": sorted(cfg_sites)[:30]}))
            if ev[1] in screening:
                mm = meths[ev[1]]
                for x in ev[5]:
                    if sorted(x[2]) != sorted(mm["months"]):
                        viol.append(("C09:whole:schedule-months", "deployment months of a screening method differ from the "
                                     "configuration", {"method": ev[1], "site": x[0], "months": x[2], "configured": mm["months"]}))
                        break
                    if mm["deployment_type"] == "mobile" and "site_extra_cols" not in cfg \
                            and int(x[1]) != int(mm["surveys_per_year"]):
                        viol.append(("C09:whole:schedule-frequency", "surveys per year of a screening method differ from the "
                                     "configuration", {"method": ev[1], "site": x[0], "required": x[1],
                                                       "configured": mm["surveys_per_year"]}))
                        break
        elif ev[0] == "flagupd" and ev[2] in upd_days:
            upd_days[ev[2]].append(ev[1])
    for m_, days_ in upd_days.items():
        if days_ and days_ != list(range(ndays)):
            viol.append(("C09:whole:period", "the screening method was not updated on exactly the days of the configured "
                         "period", {"method": m_, "first": days_[:2], "last": days_[-2:], "n": len(days_), "configured_days": ndays}))

    for ev in tr["events"]:
        kind = ev[0]
        if kind == "fudec":
            _, day, m, pool, cnt, kept = ev[:6]
            if m not in screening or pool is None:
                stats["skipped:decision-unreadable"] = stats.get("skipped:decision-unreadable", 0) + 1
                continue
            stats["decisions"] = stats.get("decisions", 0) + 1
            fu_ = meths[m]["follow_up"]
            if first_cand[m] is None and pool:
                first_cand[m] = day
            det = {"event": ev[:3], "pool": pool[:12], "kept": kept[:12], "counter": cnt, "first_candidate_day": first_cand[m],
                   "follow_up": fu_}
            if pool and (first_cand[m] is None or day - first_cand[m] < int(fu_["delay"])):
                viol.append(("C09:whole:before-delay", "a flagging decision was taken before the follow-up delay after the "
                             "first candidate had passed", det))
            # proportion: exact decimal arithmetic on the configured value, as a user writes it
            p_ = Fraction(str(fu_["proportion"]))
            n_ = len(pool)
            base = n_ if fu_["interaction_priority"] == "threshold" else cnt
            k_ = max(0, min(-((-(p_ * base).numerator) // (p_ * base).denominator), n_))
            rates_ = [x[1] for x in pool]
            if any(rates_[j] < rates_[j + 1] for j in range(len(rates_) - 1)):
                viol.append(("C09:whole:proportion:pool-order", "the candidate pool is not sorted by decreasing rate", det))
            if len(kept) > k_:
                viol.append(("C09:whole:proportion:count", "a decision kept more than ceil(proportion x n) candidates "
                             "(%d of %d, proportion %s)" % (len(kept), n_, fu_["proportion"]), det))
            elif kept != pool[:len(kept)]:
                viol.append(("C09:whole:proportion:not-largest", "the kept candidates are not the largest ones", det))
            elif len(kept) < k_:
                viol.append(("C09:whole:proportion:fewer", "a decision kept fewer candidates than min(ceil(p x n), |pool|)", det))
            decided_today[m] = (day, {x[0] for x in kept})
            first_cand[m] = None
            continue
        if kind == "fupool":
            _, day, m, pool = ev[:4]
            if m in screening:
                dd_ = decided_today.get(m)
                if first_cand[m] is None and pool and not (dd_ and dd_[0] == day):
                    first_cand[m] = day
            continue
        if kind == "sitemeas":
            _, day, method, site, rate, sday = ev[:6]
            if method in screening:
                meas.setdefault((method, site), []).append((day, rate))
                if sday is not None and sday < day:
                    stats["multiday_screenings"] += 1
            continue
        if kind == "survey":
            _, day, method, site = ev[:4]
            complete, in_prog, visited = ev[11], ev[12], ev[13]
            if method in screening and complete:
                screened.setdefault((method, site), []).append(day)
            if method in fus and visited and (complete or in_prog):
                stats["fu_visits"] += 1
                info = outstanding.get(site)
                if info is None:
                    viol.append(("C09:whole:followup-without-flag", "follow-up survey at a site without an outstanding flag",
                                 {"event": ev}))
                else:
                    if info.get("latest") is not None and info["latest"] + rd[info["by"]] > day:
                        viol.append(("C09:whole:before-reporting-delay", "follow-up visit earlier than the reporting "
                                     "delay after the detecting screening survey", {"event": ev, "flag": info}))
                    by_ = info["by"]
                    fu_ = meths[by_]["follow_up"]
                    if has_meas and meths[by_]["deployment_type"] == "mobile" \
                            and fu_.get("redundancy_filter", "recent") == "recent":
                        seq = processed(by_, site, day)
                        stats["history_checks"] += 1
                        inst_ = fu_.get("instant_threshold")
                        if seq and not (seq[-1] >= fu_["threshold"] or (inst_ is not None and seq[-1] >= inst_)):
                            viol.append(("C09:whole:followup-below-threshold", "follow-up survey at a site whose newest "
                                         "due screening measurement (redundancy filter recent) is below the threshold",
                                         {"event": ev, "flag": info, "newest_due_measurement": seq[-1]}))
                if complete:
                    outstanding.pop(site, None)
            if meths.get(method, {}).get("measurement_scale") == "component" and complete:
                last_tag[site] = day
                tags.setdefault(site, []).append(day)
        elif kind == "deploy":
            if ev[2] in screening:
                in_update[ev[2]] = True
        elif kind in ("fuflag", "fuq"):
            # fuflag = [.., day, schedule_method, entry, site, rate, latest_detection_day, n_rates, site_latest_tag_day]
            # precedes the outermost fuq of an insertion; traces without fuflag fall back to fuq (no dates)
            if kind == "fuq":
                stats["fuq"] += 1
                if has_fuflag:
                    continue
            _, day, sched, entry, site, rate = ev[:6]
            latest = ev[6] if kind == "fuflag" else None
            # the site's latest tagging survey: completion day of its latest component-level survey in the
            # observed survey log (whether or not it tagged anything) — not the site object's own record
            tagday = last_tag.get(site) if kind == "fuflag" else None
            if kind == "fuflag" and ev[8] is not None and tagday is not None and ev[8] != tagday:
                viol.append(("C09:whole:tagging-survey-not-recorded", "a completed component-level survey of the site is "
                             "not what the site reports as its latest tagging survey",
                             {"event": ev, "latest_completed_component_survey": tagday}))
            by = next((m for m in screening if in_update.get(m)), None)
            if by is not None and sched in fus:
                stats["flags"] += 1
                pref = meths[by]["follow_up"].get("preferred_method")
                if pref in fus and sched != pref:
                    viol.append(("C09:whole:wrong-follow-up-schedule", "a screening method queued a site on a follow-up "
                                 "schedule that is not the one of its preferred follow-up method", {"event": ev}))
                info = {"day": day, "by": by, "rate": rate, "latest": latest, "entry": entry}
                if kind == "fuflag" and has_dec and entry == "add_to_survey_queue" and site not in outstanding:
                    dd_ = decided_today.get(by)
                    if not dd_ or dd_[0] != day:
                        viol.append(("C09:whole:flag-without-decision", "a site was flagged through the pool on a day "
                                     "without a flagging decision", {"event": ev}))
                    elif site not in dd_[1]:
                        viol.append(("C09:whole:proportion:flagged-not-kept", "a site outside the kept candidates was "
                                     "flagged", {"event": ev, "kept": sorted(dd_[1])}))
                if kind == "fuflag" and has_meas and meths[by]["deployment_type"] == "stationary":
                    # rolling means over the configured windows, recomputed from the newest n due measurements
                    n_ = ev[7]
                    seq = processed(by, site, day)
                    stats["history_checks"] += 1
                    fu_ = meths[by]["follow_up"]
                    rol = fu_["rolling"]
                    if n_ > len(seq) or n_ < 1:
                        viol.append(("C09:whole:filtered-rate:history", "the detections behind a follow-up queue insertion "
                                     "are not the newest due measurements of the site", {"event": ev, "due": seq[-6:]}))
                    else:
                        suf = seq[len(seq) - n_:]
                        short = 0 if n_ == 1 else mean_last(int(rol["small_window"]), suf)
                        long_ = 0 if n_ == 1 else mean_last(int(rol["large_window"]), suf)
                        inst_ = fu_.get("instant_threshold")
                        if short != rate:
                            viol.append(("C09:whole:filtered-rate:rolling", "the rate behind a follow-up queue insertion is "
                                         "not the rolling mean over the small window of the newest due measurements",
                                         {"event": ev, "recomputed": short, "due": suf[-8:], "rolling": rol}))
                        elif site not in outstanding:
                            if entry == "add_to_survey_queue":
                                lthr = rol.get("large_window_threshold")
                                if not (short >= rol["small_window_threshold"] or (lthr and long_ and long_ >= lthr)):
                                    viol.append(("C09:whole:flag-below-threshold", "site flagged although neither rolling "
                                                 "mean reaches its threshold", {"event": ev, "short": short, "long": long_,
                                                                              "rolling": rol}))
                            elif inst_ is None or short < inst_:
                                viol.append(("C09:whole:flag-below-threshold:instant", "site bypassed the pool below the "
                                             "instant threshold", {"event": ev, "short": short, "instant_threshold": inst_}))
                if kind == "fuflag" and has_meas and meths[by]["deployment_type"] == "mobile":
                    # the rate behind the insertion, recomputed from the screening history itself: the newest
                    # n due, non-stale measurements of the site (zero measurements included)
                    n_ = ev[7]
                    seq = processed(by, site, day)
                    stats["history_checks"] += 1
                    fu_ = meths[by]["follow_up"]
                    if n_ > len(seq) or n_ < 1 or filtered(by, seq[len(seq) - n_:]) != rate:
                        viol.append(("C09:whole:filtered-rate:history", "the rate behind a follow-up queue insertion is "
                                     "not the redundancy-filtered rate of the newest due screening measurements of the "
                                     "site", {"event": ev, "due_measurements": seq[-6:]}))
                    elif entry == "add_to_survey_queue" and site not in outstanding \
                            and filtered(by, seq[len(seq) - n_:]) < fu_["threshold"]:
                        viol.append(("C09:whole:flag-below-threshold", "site flagged below the follow-up threshold",
                                     {"event": ev, "due_measurements": seq[-6:]}))
                    elif entry != "add_to_survey_queue" and site not in outstanding \
                            and (fu_.get("instant_threshold") is None or rate < fu_["instant_threshold"]):
                        viol.append(("C09:whole:flag-below-threshold:instant", "site bypassed the pool below the instant "
                                     "threshold", {"event": ev, "instant_threshold": fu_.get("instant_threshold")}))
                if latest is not None:
                    if latest + rd[by] > day:
                        viol.append(("C09:whole:before-reporting-delay", "flag earlier than the reporting delay after the "
                                     "screening survey", {"event": ev, "flag": info}))
                    if latest not in screened.get((by, site), []):
                        viol.append(("C09:whole:flag-without-screening", "flag without a completed screening survey of that "
                                     "site on the recorded detection day", {"event": ev, "flag": info}))
                    if site not in outstanding and tagday is not None and tagday > latest:
                        pool_route = entry == "add_to_survey_queue"     # instant route uses add_previous_queued...
                        viol.append((FC.SIG_STALE_POOLED if pool_route else FC.SIG_STALE_INSTANT,
                                     "a site was flagged on a screening made before its latest tagging survey",
                                     {"event": ev, "flag": info}))
                info["bys"] = sorted(set(outstanding.get(site, {}).get("bys", [])) | {by})
                outstanding[site] = info
        elif kind == "flagupd":
            in_update[ev[2]] = False
        elif kind == "fuqsnap":
            # [fuqsnap, day, schedule_method, [[cls, site, rate], ...]]
            stats["snapshots"] += 1
            sites = [x[1] for x in ev[3]]
            dup = sorted({s for s in sites if sites.count(s) > 1})
            for ds in dup:
                bys = outstanding.get(ds, {}).get("bys", [])
                sig = FC.SIG_DUP2 if len(bys) > 1 else "C09:whole:one-outstanding"
                viol.append((sig, "a site has more than one outstanding follow-up request",
                             {"event": ev[:3], "site": ds, "flagged_by": bys}))
    return viol, stats


def wholerun_oracle(ctx):
    if not os.path.exists(os.path.join(core.VERIF, "harness", "wholerun.py")):
        ctx.note("whole-run stage skipped: harness/wholerun.py absent")
        return
    n = ctx.pick(3, 12)
    jobs = [(ctx.seed, k, None) for k in range(n)]
    # wide configurations: one with every tag, the others with the tags that touch the follow-up chain
    nw = ctx.pick(3, 10)
    jobs += [(ctx.seed, 100 + k, True if k == 0 else (["followup"] if k % 3 == 1 else WIDE_TAGS)) for k in range(nw)]
    # history shape: the same folder was used before by a run that differed in one leaf
    nh = ctx.pick(1, 4)
    off = ctx.seed % len(HISTORY_KINDS)
    jobs += [(ctx.seed, 200 + k, ("history", HISTORY_KINDS[(off + k) % len(HISTORY_KINDS)])) for k in range(nh)]
    with concurrent.futures.ThreadPoolExecutor(max_workers=ctx.pick(6, 8)) as ex:
        results = list(ex.map(_whole_one, jobs))
    tot = {"fu_visits": 0, "flags": 0, "fuq": 0, "snapshots": 0, "multiday_screenings": 0, "history_checks": 0}
    for out in results:
        ctx.count("whole:mode:" + ("pool" if out["pool"] else "debug"))
        if out.get("history"):
            ctx.count("history:" + out["history"])
            if out.get("prev_rc") not in (0, None):
                ctx.note("history run: the earlier run (%s) ended with rc %s" % (out["history"], out["prev_rc"]))
        if out["wide"] is not None:
            ctx.count("whole:wide_runs")
            for a in out["wide_applied"]:
                ctx.count("whole:wide:%s:%s=%s" % (a["tag"], ".".join(map(str, a["path"][1:])), json.dumps(a["value"])))
        if not out["traces"]:
            # a crash of the simulator is a broken obligation (with the configuration as replay input),
            # the other runs are still evaluated
            ctx.broke("C09 whole run produced no trace (%s mode)" % ("pool" if out["pool"] else "debug"),
                      out["log"][-1500:])
            ctx.disagree("whole-run", {"whole_run_cfg": out["cfg"]}, "trace", "no trace")
            continue
        for tr in out["traces"]:
            viol, stats = check_trace(out["cfg"], tr)
            for k, v in stats.items():
                tot[k] = tot.get(k, 0) + v
            for (sig, what, det) in viol:
                ctx.violate(sig, what, {"whole_run_cfg": out["cfg"], "prog": tr["prog"], "sim": tr["sim"], "detail": det,
                                        "history": out.get("history")})
            ctx.evaluations += stats["fu_visits"] + stats["flags"] + stats["snapshots"]
        ctx.traces += 1
    for k, v in tot.items():
        ctx.count("whole:" + k, v)
    if tot["fu_visits"] == 0 or tot["flags"] == 0:
        ctx.note("whole-run stage: no follow-up activity in the generated configurations (vacuous)")
    ctx.extra["whole_history_runs"] = nh
    ctx.extra["whole_runs"] = n + nw + nh
    ctx.extra["whole_wide_runs"] = nw


def run(ctx):
    ctx.rule = ("history = (sites, screening-method parameters, follow-up crews/workday/survey times, per day: "
                "screenings (method, site, rate) and tagging surveys of other methods); day order as in "
                "Program.do_daily_program_deployment; grid: every combination of filter x priority x "
                "proportion{0,1/4,1/2,3/4,1 (+ decimal ones in the random part)} x delay{0,1,3} x reporting delay{0,2} x instant threshold (mobile) and "
                "priority x proportion x delay x reporting delay x instant threshold x small window x large threshold "
                "(stationary), each with its own random histories, + random single-method, two-method and long "
                "histories; non-trivial = at least one site flagged; distinct by (methods, kind, filter/window, "
                "priority, proportion, delay, reporting delay, instant?, routes and outcomes that occurred)")
    core.lean_stage(ctx, MODULE, FILE, drivers=["drv_followup"])
    from harness.props import _tie
    _tie.followup_tie(ctx)  # layer 3: SiteLevelMethod.update_mobile, translated from the current source, is FollowUp.updMobile
    guarded(ctx, "witness", witness_stage)
    guarded(ctx, "shared-state-table", shared_state_table)
    guarded(ctx, "proportion-grid", proportion_grid_stage)
    guarded(ctx, "same-process", same_process_stage)
    hists = build_histories(ctx) + boundary_histories(ctx)
    chunk = 2000
    sampled = 0
    for a in range(0, len(hists), chunk):
        runs = FC.correspond(ctx, hists[a:a + chunk])
        evaluate(ctx, runs)
        for (h, lines, impl, w) in runs:
            if sampled < 3 and any(e["ctx"] == "decision" for e in w.queue_log):
                ctx.sample({"methods": h["methods"], "days": len(h["days"]), "last_reply": impl[-1]})
                sampled += 1
    guarded(ctx, "whole-run", wholerun_oracle)
    ctx.assumptions.append("rates on the integer grid 840*k, dyadic proportions: every double computed by the code is "
                           "the correctly rounded value of a small rational, recovered exactly (asserted)")
    ctx.assumptions.append("follow-up survey outcomes (complete / in progress / unattended) are inputs of the model; "
                           "they come from the real ComponentLevelMethod.deploy_crews")


def replay(ctx, data):
    inp = data.get("input", {})
    if "history" in inp:
        from harness.adapters import followup as F
        h = inp["history"]
        lines, impl, w = F.run_history(h)
        FC.oracle(ctx, h, w)
        for l, i in zip(lines, impl):
            if l.startswith(("update", "fuday", "tag")):
                print(l, "->", i)
        if w.crash:
            print("real code stopped:", w.crash)
    elif "interleaved" in inp:
        from harness.adapters import followup as F
        hs = inp["interleaved"]
        res = F.run_interleaved(hs)
        for j, h in enumerate(hs):
            alone = F.run_history(h)
            same = res[j] is not None and res[j][1] == alone[1]
            print("history %d: together == alone: %s" % (j, same))
            if not same:
                ctx.violate("C09:history-dependence:interleaved", "differs from the history run alone", {"index": j})
    elif "proportion_grid" in inp:
        from harness.adapters import followup as F
        g = inp["proportion_grid"]
        (tf, k, n, c, kept, prefix_ok) = F.proportion_grid([(int(g["thrFirst"]), g["k"], g["n"], g["c"])])[0]
        exact = min(-((-(n if tf else c) * k) // 100), n)
        print("proportion %d/100, pool %d, counter %d: kept %d, exact ceiling %d, prefix %s" % (k, n, c, kept, exact, prefix_ok))
        if kept != exact or not prefix_ok:
            ctx.violate("C09:proportion:decimal-grid", "kept count differs from the exact ceiling", g)
    elif "whole_run_cfg" in inp:
        from harness import wholerun
        res = wholerun.run_config(inp["whole_run_cfg"], debug=True, processes=1, trace=True)
        try:
            for tr in res.trace:
                viol, _ = check_trace(inp["whole_run_cfg"], tr)
                for (sig, what, det) in viol:
                    ctx.violate(sig, what, det)
        finally:
            res.cleanup()
    else:
        print("replay: broken obligation / correspondence:", data.get("broken_obligations"),
              data.get("correspondence_disagreements"))
        return 1
    for v in ctx.violations:
        print("oracle:", v["signature"], "-", v["what"])
    return 1 if ctx.violations else 0
